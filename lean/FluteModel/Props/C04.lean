import FluteModel.Recv
import FluteModel.Lemmas.RecvTotal
import FluteModel.Lemmas.RecvToy
import FluteModel.Lemmas.RecvGrowth
import FluteModel.Lemmas.RecvMiniLaw
import FluteModel.Lemmas.RecvFullLaw
import FluteModel.Lemmas.RecvWire
import FluteModel.Props.C04Obj
import FluteModel.Lemmas.ObjRecvPanicFree
/-
  C04 - untrusted input, SESSION-LEVEL receiver (`Receiver::push_data` / `push` / `cleanup`):
  no parsed packet, no XML-parser answer, no history can make a receiver call panic; a datagram the
  parser rejects leaves the receiver untouched.

  Division of labour: totality of the datagram PARSER is `Flute.Props.C04.Wire` (engine `wire`),
  totality and allocation bounds of the per-object machine are `Flute.Props.C04.Obj` (engine
  `orecv`).  Here the object machine is a parameter `I : ObjIface σ` (total Lean functions); the one
  thing the receiver needs of it is `ObjIface.CompleteSound`: when `push` made the writer's
  `complete` call the object is `Completed` when `push` returns (otherwise `fdt_meta().unwrap()` in
  `push_fdt_obj` would panic).  "Bounded time": every function of the model is a total, structurally
  recursive Lean function; the only loop with a data-dependent bound, `gc_object_error`, is shown to
  reach its exit condition (`gc_error_loop_terminates`).
  Hypotheses on the CALLER's clock (`TimeSane`: 1970 ≤ now < 1970 + 2^62 µs) are needed because
  `SystemTime ± Duration` panics in std outside the i64-second range; the packet-side quantities
  are bounded by the parser (`Pkt.WF`: 20-bit FDT instance id, 32-bit NTP seconds).
-/
namespace Flute.Props.C04
open Flute Flute.Recv
variable {σ : Type}

/-- every state reachable from a fresh receiver satisfies the invariant `Good` of the totality proof -/
theorem reachable_states_good (I : ObjIface σ) (hI : I.CompleteSound) (cfg : Config) (ops : List Op)
    (tr : List (Op × State σ × Res × List Ev)) (hops : ∀ op ∈ ops, OpOK op)
    (hrun : runT I (State.init cfg) ops = some tr) : ∀ e ∈ tr, AllFdt Good e.2.1 :=
  runT_inv I (AllFdt Good) OpOK
    (fun s op s' r evs hinv hop h => step_good I hI s s' op r evs hop h hinv)
    ops (State.init cfg) tr (by constructor <;> (intro f hf; simp [State.init] at hf)) hops hrun

/-- **recv_push_total.**  In ANY state satisfying the reachable-state invariant, for ANY parsed
    packet (field ranges of the parser), ANY XML-parser answer (an arbitrary abstract FDT or an
    error) and any sane receiver time, `Receiver::push` returns `Ok` or `Err`: it does not panic. -/
theorem recv_push_total (I : ObjIface σ) (hI : I.CompleteSound) (s : State σ) (p : Pkt) (now : Int)
    (ans : FdtAns) (hs : AllFdt Good s) (hp : p.WF) (hn : TimeSane now) :
    ∃ s' r evs, push I s p now ans = .ok (s', r, evs) := by
  obtain ⟨x, hx⟩ := step_total I hI s (.data (.pkt p) now ans)
    ⟨hn, fun q hq => by injection hq with hq; subst hq; exact hp⟩ hs
  obtain ⟨s', r, evs⟩ := x
  exact ⟨s', r, evs, hx⟩

/-- `cleanup` does not panic either -/
theorem recv_cleanup_total (I : ObjIface σ) (s : State σ) (now : Int) (stale : Stale)
    (hs : AllFdt Good s) (hn : TimeSane now) : ∃ s' evs, cleanup I s now stale = .ok (s', evs) := by
  obtain ⟨x, hx⟩ := cleanup_total I s now stale hn hs
  obtain ⟨s', evs⟩ := x
  exact ⟨s', evs, hx⟩

/-- **recv_history_total.**  From a fresh receiver NO history of datagrams (rejected, foreign TSI,
    or any parsed packet with any parser answer) and cleanups makes any call panic. -/
theorem recv_history_total (I : ObjIface σ) (hI : I.CompleteSound) (cfg : Config) (ops : List Op)
    (hops : ∀ op ∈ ops, OpOK op) : ∃ s' out, run I (State.init cfg) ops = some (s', out) := by
  obtain ⟨x, hx⟩ := run_total I hI ops (State.init cfg) hops
    (by constructor <;> (intro f hf; simp [State.init] at hf))
  obtain ⟨s', out⟩ := x
  exact ⟨s', out, hx⟩

/-- **parse_reject_preserves_state.**  A datagram rejected by the parser leaves the receiver state
    untouched (`push_data` returns the parser's `Err`, no event). -/
theorem parse_reject_preserves_state (I : ObjIface σ) (s : State σ) (now : Int) (ans : FdtAns) :
    pushData I s .reject now ans = .ok (s, .err, []) := rfl

/-- a datagram of another TSI is ignored as well -/
theorem other_tsi_preserves_state (I : ObjIface σ) (s : State σ) (now : Int) (ans : FdtAns) :
    pushData I s .otherTsi now ans = .ok (s, .ok, []) := rfl

/-- **later_valid_session_delivered_partial.**  After ANY sequence of datagrams that were rejected
    by the parser or carried a foreign TSI, the receiver is in exactly the state it was in before:
    whatever is pushed afterwards (in particular a valid session) is processed exactly as if the
    malformed datagrams had never arrived - same final state, same results, same events.
    Full statement (not proved here): the same for malformed datagrams that the parser ACCEPTS;
    that needs the object-level refinement theorem R (a packet accepted for a foreign TOI /
    instance id does not disturb the delivery of a later session on fresh TOIs and instance ids) and
    is validated by the correspondence (`malformed-*`, `xml-*`, `fuzz-*` cases, each followed by a
    fresh valid session that must be delivered). -/
theorem later_valid_session_delivered_partial (I : ObjIface σ) (s : State σ) (junk ops : List Op)
    (hj : ∀ op ∈ junk, Ignored op) :
    ∃ jout, jout.length = junk.length ∧ (∀ o ∈ jout, o.2 = []) ∧
      run I s (junk ++ ops) =
        (match run I s ops with
         | some (s', out) => some (s', jout ++ out)
         | none => none) := by
  induction junk with
  | nil =>
    refine ⟨[], rfl, by simp, ?_⟩
    simp only [List.nil_append]
    cases run I s ops with
    | none => rfl
    | some x => obtain ⟨a, b⟩ := x; rfl
  | cons j js ih =>
    obtain ⟨jout, hlen, hev, hrun⟩ := ih (fun o ho => hj o (List.mem_cons_of_mem _ ho))
    have hjI := hj j (by simp)
    cases j with
    | cleanup now stale => exact absurd hjI (by simp [Ignored])
    | data d now ans =>
      cases d with
      | pkt p => exact absurd hjI (by simp [Ignored])
      | reject =>
        refine ⟨(Res.err, []) :: jout, by simp [hlen], ?_, ?_⟩
        · intro o ho
          rcases List.mem_cons.mp ho with ho | ho
          · subst ho; rfl
          · exact hev o ho
        · simp only [List.cons_append, run, step, pushData]
          rw [hrun]
          cases run I s ops with
          | none => rfl
          | some x => obtain ⟨a, b⟩ := x; rfl
      | otherTsi =>
        refine ⟨(Res.ok, []) :: jout, by simp [hlen], ?_, ?_⟩
        · intro o ho
          rcases List.mem_cons.mp ho with ho | ho
          · subst ho; rfl
          · exact hev o ho
        · simp only [List.cons_append, run, step, pushData]
          rw [hrun]
          cases run I s ops with
          | none => rfl
          | some x => obtain ⟨a, b⟩ := x; rfl

/-- **gc_error_loop_terminates.**  The `while objects_error.len() > max_objects_error` loop of
    `gc_object_error`, run for as many iterations as the list is long (the model's fuel), has reached
    its exit condition: it cannot spin. -/
theorem gc_error_loop_terminates (I : ObjIface σ) (s : State σ) :
    (gcObjectError I s.errors.length s).1.errors.length ≤ s.cfg.maxObjectsError :=
  (gcObjectError_bound I s.errors.length s (by omega)).1

/-- **registries_grow_by_one** (session-level part of `alloc_bounded`).  Whatever a datagram
    contains, one `push_data` adds at most ONE entry to `objects` and at most ONE to `fdt_receivers`
    (`fdt_current` ≤ 10 and `objects_error` ≤ max are C17); `cleanup` adds none.  No packet can
    blow up the session-level registries; what an entry may allocate is the object-level bound
    (`Flute.Props.C04.Obj`, known finding D31 for the first source block). -/
theorem registries_grow_by_one (I : ObjIface σ) (s s' : State σ) (op : Op) (r : Res) (evs : List Ev)
    (h : step I s op = .ok (s', r, evs)) :
    s'.objects.length ≤ s.objects.length + 1 ∧ s'.fdtReceivers.length ≤ s.fdtReceivers.length + 1 ∧
    (∀ now stale, op = .cleanup now stale →
      s'.objects.length ≤ s.objects.length ∧ s'.fdtReceivers.length ≤ s.fdtReceivers.length) :=
  step_growth I s s' op r evs h

/-- `recv_history_total` for the validated executable model (`Mini` object of the driver): its
    `CompleteSound` contract is a theorem (`Lemmas/RecvMiniLaw.lean`), so no hypothesis on the
    object is left. -/
theorem recv_history_total_driver_model (cfg : Config) (ops : List Op) (hops : ∀ op ∈ ops, OpOK op) :
    ∃ s' out, run Mini.iface (State.init cfg) ops = some (s', out) :=
  recv_history_total Mini.iface Mini.completeSound cfg ops hops

/-- the decompressor contract holds for the parameters of the adapter (no content encoding is
    decodable there: the decompressor answers `Err` at once) -/
def dzOK0 : ObjRecv.DzOK Full.params0 :=
  ObjRecv.DzOK.ofNoData Full.params0 (by intro c h call out hres; simp [Full.params0] at hres)
    (fun _ => by simp [Full.params0])


/- from here on: for EVERY parameter set of the object model (codecs, decompressor with its contract `DzOK`, writer
   environment); `Full.params0` / `dzOK0` is the instance the `recv` driver executes -/
variable (P : ObjRecv.Params) (D : ObjRecv.DzOK P)

/-- `recv_history_total` for the receiver instantiated with the FULL object model `ObjRecv`
    (adapter `RecvFull.lean`; `CompleteSound` from agent orecv's `push_complete_state`).  A fault of
    `ObjRecv` itself (its `panic`/`hang` outcomes, object level: `Flute.Props.C04.Obj`) freezes that
    object in the adapter; what is proved here is that the SESSION level never panics around it. -/
theorem recv_history_total_full_object_model (cfg : Config) (ops : List Op) (hops : ∀ op ∈ ops, OpOK op) :
    ∃ s' out, run (Full.iface P) (State.init cfg) ops = some (s', out) :=
  recv_history_total (Full.iface P) (Full.completeSound P) cfg ops hops


/-! ### the WHOLE call: bytes → parser → packet → push (review batch 2, #2)

  `pushDataBytes` (RecvWire.lean) is `Receiver::push_data` as one function of the datagram bytes:
  agent wire's parser model `Alc.parseAlcPkt`, the TSI test, the abstraction `ofAlc` of the accepted
  `AlcPkt`, `Recv.push`.  Chain of the proof:
    `Alc.parseAlcPkt_cases` (wire: Ok + `PktInv`, or Err; never a panic)
    → `ofAlc_wf` (here: FDT instance id < 2^20 from `parse_ext_fdt`'s mask, SCT < 2^32 s from `parse_sct`)
    → `step_total` on `AllFdt Good` states (`Lemmas/RecvTotal.lean`), an invariant (`step_good`).

  UPDATE: the object level is CLOSED in Props/C04Whole.lean (agent path: `push_data_total_closed`,
  `reachable_objects_healthy`, from orecv's `tinv_*`, wire's `toPkt_ofAlc_facts` and the generic
  `Lemmas/RecvAllObj.step_objsAll`) under the named assumption `AnsOK`; the list below is the state of
  THIS file on its own.

  WHAT IS STILL OPEN (named, not hidden):
   * the object below the interface.  `(Full.iface P)` absorbs a fault (`panic`/`hang`) of `ObjRecv.push` /
     `ObjRecv.attachFdt` by freezing that object (`fault := true`), so the theorems below say that the
     SESSION level never panics around ANY object behaviour.  That no object faults needs the two
     interface lemmas `ObjPushTotal` / `ObjAttachTotal` below (agent orecv: planned as `push_total` /
     `attach_total` over `ReachT ⊇ Reach`; missing invariants listed in the header of Props/C04Obj.lean).
     Their HANG half is proved (`full_push_never_hangs`, `full_attach_never_hangs`, from orecv's
     `push_no_hang` / `attach_no_hang`); one call preserves "no fault" under them
     (`full_push_no_fault`, `full_attach_no_fault`); the lift of "no fault" to an invariant of `step`
     (an `AllObj` chain like `step_all`) is NOT done.
   * (closed since) the object inside an `FdtReceiver` (TOI 0) is an `ObjRecv` object too in `(Full.iface P)`
     (`Full.push0`; one-call form `full_push0_no_fault_tinv`; invariant: C04Whole `reachable_fdt_objects_healthy`;
     at the MultiReceiver: Props/C04MultiWhole.lean `multi_push_total_whole`).
   * the XML parser is an oracle input (`ans : FdtAns`, any value), the clock hypothesis `TimeSane`.
   * allocation: see `alloc_bounded` for what is and what is not bounded. -/

/-- **push_data_total.**  For EVERY byte string, in every state meeting the reachable-state
    invariant, every XML-parser answer and a sane clock, `push_data` returns `Ok` or `Err`. -/
theorem push_data_total (I : ObjIface σ) (hI : I.CompleteSound) (tsi : Nat) (s : State σ)
    (d : List UInt8) (now : Int) (ans : FdtAns) (hs : AllFdt Good s) (hn : TimeSane now) :
    ∃ s' r evs, pushDataBytes I tsi s (d.map UInt8.toNat) now ans = .ok (s', r, evs) := by
  obtain ⟨pd, hpd, hwf⟩ := classify_ok tsi d
  unfold pushDataBytes
  rw [hpd]
  obtain ⟨x, hx⟩ := step_total I hI s (.data pd now ans) ⟨hn, hwf⟩ hs
  obtain ⟨s', r, evs⟩ := x
  exact ⟨s', r, evs, hx⟩

/-- the call on bytes is the call of the session model on the abstracted datagram -/
theorem push_data_bytes_is_step (I : ObjIface σ) (tsi : Nat) (s : State σ) (d : List UInt8) (now : Int)
    (ans : FdtAns) :
    pushDataBytes I tsi s (d.map UInt8.toNat) now ans = step I s ((BOp.data d now ans).abs tsi) := by
  obtain ⟨pd, hpd, _⟩ := classify_ok tsi d
  simp only [pushDataBytes, BOp.abs, hpd, step]

/-- **push_data_history_total.**  From a fresh receiver, NO history of datagrams given as BYTES (any
    bytes, any parser answers) and cleanups makes any call panic - with the full object model
    `ObjRecv` behind the interface. -/
theorem push_data_history_total (I : ObjIface σ) (hI : I.CompleteSound) (tsi : Nat) (cfg : Config)
    (ops : List BOp) (hn : ∀ b ∈ ops, TimeSane (b.abs tsi).now) :
    ∃ s' out, run I (State.init cfg) (ops.map (BOp.abs tsi)) = some (s', out) := by
  apply recv_history_total I hI cfg
  intro op hop
  obtain ⟨b, hb, rfl⟩ := List.mem_map.mp hop
  exact bop_abs_ok tsi b (hn b hb)

theorem push_data_history_total_full_object_model (tsi : Nat) (cfg : Config) (ops : List BOp)
    (hn : ∀ b ∈ ops, TimeSane (b.abs tsi).now) :
    ∃ s' out, run (Full.iface P) (State.init cfg) (ops.map (BOp.abs tsi)) = some (s', out) :=
  push_data_history_total (Full.iface P) (Full.completeSound P) tsi cfg ops hn

/-- every state such a history reaches meets the invariant `push_data_total` asks for -/
theorem push_data_total_applies_to_reachable (I : ObjIface σ) (hI : I.CompleteSound) (tsi : Nat)
    (cfg : Config) (ops : List BOp) (hn : ∀ b ∈ ops, TimeSane (b.abs tsi).now)
    (tr : List (Op × State σ × Res × List Ev))
    (hrun : runT I (State.init cfg) (ops.map (BOp.abs tsi)) = some tr) :
    ∀ e ∈ tr, AllFdt Good e.2.1 :=
  reachable_states_good I hI cfg _ tr
    (fun op hop => by
      obtain ⟨b, hb, rfl⟩ := List.mem_map.mp hop
      exact bop_abs_ok tsi b (hn b hb)) hrun

/-! #### the object below the interface: what is proved, what is missing -/

include D in
/-- the HANG half of lemma 1, for every state (orecv's `push_no_hang`) -/
theorem full_push_never_hangs (o : (Full.Obj P)) (p : Pkt) :
    ObjRecv.push P o.st (Full.toPkt p) ≠ .error .hang :=
  Flute.Props.C04.Obj.push_no_hang P D o.st (Full.toPkt p)

include D in
/-- the HANG half of lemma 2 -/
theorem full_attach_never_hangs (o : (Full.Obj P)) (id : Nat) (f : Option ObjRecv.FileEntry) :
    ObjRecv.attachFdt P o.st id f ≠ .error .hang :=
  Flute.Props.C04.Obj.attach_no_hang P D o.st id f

/-! #### the same with orecv's `TInv` lemmas (landed after the definitions above were named)

  orecv's `tinv_push` / `tinv_attachFdt` (Lemmas/ObjRecvPanicFree.lean) give panic AND hang freedom on
  states meeting `ObjRecv.TInv` (an invariant of `new`/`push`/`attach_fdt`/`drop`, stronger than
  `Reach`) for packets / FDT entries with the wire ranges `WfPkt` / `WfFile` (transfer length < 2^48,
  symbol length < 2^16).  Consumed here ONE CALL at a time; what is still open for "no object ever
  faults in any history" is (a) the FTI ranges of `ofAlc d p` from the parser (EXT_FTI has a 48-bit
  length and a 16-bit symbol length; no lemma of agent wire states it yet), (b) Transfer-Length < 2^48
  for FDT entries - an XML value, i.e. a hypothesis on the oracle input `ans` (orecv: at L ≥ 2^64 − E
  `block_length` really overflows), (c) the lift to an invariant of `step` over all objects. -/

/-- the wire ranges of a session-level packet carry over to the object-level packet -/
theorem toPkt_wf (p : Pkt) (h : ∀ f, p.fti = some f → f.len < 2 ^ 48 ∧ f.oti.esl < 2 ^ 16) :
    ObjRecv.WfPkt (Full.toPkt p) := by
  intro o l hol
  simp only [Full.toPkt] at hol
  cases hf : p.fti with
  | none => rw [hf] at hol; cases hol
  | some f =>
    rw [hf] at hol
    simp only [Option.map_some, Option.some.injEq, Prod.mk.injEq] at hol
    obtain ⟨rfl, rfl⟩ := hol
    exact h f hf

include D in
/-- **one push of the full object model never faults** on a `TInv` state, and keeps `TInv` -/
theorem full_push_no_fault_tinv (o : (Full.Obj P)) (p : Pkt) (ho : o.fault = false) (hT : ObjRecv.TInv o.st)
    (hp : ∀ f, p.fti = some f → f.len < 2 ^ 48 ∧ f.oti.esl < 2 ^ 16) :
    (Full.pushN P o p).1.fault = false ∧ ObjRecv.TInv (Full.pushN P o p).1.st := by
  obtain ⟨st', hst', hT'⟩ := ObjRecv.tinv_push P D hT (Full.toPkt p) (toPkt_wf p hp)
  unfold Full.pushN
  rw [if_neg (by rw [ho]; simp)]
  split
  · rename_i w hw; rw [hst'] at hw; cases hw
  · rename_i st'' hw
    rw [hst'] at hw; injection hw with hw; subst hw
    exact ⟨ho, hT'⟩

/-- the entry that stands for the EXT_FTI of an FDT packet has the wire ranges -/
theorem fdtEntry0_wf (p : Pkt) (hp : ∀ f, p.fti = some f → f.len < 2 ^ 48 ∧ f.oti.esl < 2 ^ 16) (id : Nat) :
    ObjRecv.WfOp (.attach id (Full.fdtEntry0 (Full.toPkt p))) := by
  have hw := toPkt_wf p hp
  unfold Full.fdtEntry0
  cases hf : (Full.toPkt p).fti with
  | none => simp only [Option.map_none]; exact trivial
  | some x =>
    obtain ⟨o, l⟩ := x
    simp only [Option.map_some]
    have := hw o l hf
    exact ⟨this.1, fun o' ho' => by simp only [Option.some.injEq] at ho'; subst ho'; exact this.2⟩

include D in
/-- **one push of a TOI-0 packet into the FDT object (full object model) never faults** on a `TInv`
    state, and keeps `TInv` -/
theorem full_push0_no_fault_tinv (o : (Full.Obj P)) (p : Pkt) (ho : o.fault = false) (hT : ObjRecv.TInv o.st)
    (hp : ∀ f, p.fti = some f → f.len < 2 ^ 48 ∧ f.oti.esl < 2 ^ 16) :
    (Full.push0 P o p).1.fault = false ∧ ObjRecv.TInv (Full.push0 P o p).1.st := by
  obtain ⟨st1, b, h1, hT1⟩ := ObjRecv.tinv_attachFdt P D hT (p.fdtId.getD 0)
    (Full.fdtEntry0 (Full.toPkt p)) (fdtEntry0_wf p hp _)
  obtain ⟨st', h2, hT'⟩ := ObjRecv.tinv_push P D hT1 (Full.toPkt p) (toPkt_wf p hp)
  unfold Full.push0
  rw [if_neg (by rw [ho]; simp)]
  split
  · rename_i w hw; rw [h1] at hw; cases hw
  · rename_i s1 b' hw
    rw [h1] at hw; injection hw with hw; injection hw with hw1 hw2; subst hw1
    split
    · rename_i w hw'; rw [h2] at hw'; cases hw'
    · rename_i s2 hw'
      rw [h2] at hw'; injection hw' with hw'; subst hw'
      exact ⟨ho, hT'⟩

include D in
/-- both cases: `Full.push` -/
theorem full_push_any_no_fault_tinv (o : (Full.Obj P)) (p : Pkt) (ho : o.fault = false) (hT : ObjRecv.TInv o.st)
    (hp : ∀ f, p.fti = some f → f.len < 2 ^ 48 ∧ f.oti.esl < 2 ^ 16) :
    (Full.push P o p).1.fault = false ∧ ObjRecv.TInv (Full.push P o p).1.st := by
  unfold Full.push
  split
  · exact full_push0_no_fault_tinv P D o p ho hT hp
  · exact full_push_no_fault_tinv P D o p ho hT hp

/-- a fresh object meets `TInv` (cache limit below 2^63) -/
theorem full_new_tinv (toi maxCache : Nat) (hm : maxCache < 2 ^ 63) :
    ObjRecv.TInv (Full.new P toi maxCache).st ∧ (Full.new P toi maxCache).fault = false :=
  ⟨ObjRecv.tinv_new toi maxCache hm, rfl⟩

/-! #### allocation, in the honest form -/

/-- **alloc_bounded** - what ONE call can add, at the session level, whatever the datagram contains:
    at most one entry to `objects`, at most one to `fdt_receivers`, and `objects_error` /
    `fdt_current` stay within `max_objects_error` / 10.

    What is NOT bounded by this theorem, nor by the configuration:
     * the BYTES behind an entry.  Session level: the document bytes of unfinished FDT instances only
       ever grow until a cleanup finds the instance stale (`Flute.Props.C17.fdt_bytes_unbounded`, no
       limit on an FDT document exists: findings recv-2); the number of entries is linear in the
       datagrams between two cleanups (`Flute.Props.C17.objects_unbounded_without_timeout`).
       Object level: the block-allocation limit applies from the third source block on (orecv,
       `blocks_over_limit_rejected`), the first two blocks and the pre-allocated block table follow
       the announcement (findings recv-1, D31); since ee3ccfa the announcement is limited by the K
       maxima of the codes.
     * the transient heap of a call is not a notion of this model at all; it is MEASURED (peak heap
       per call, engine `recv`, classes `C04:alloc-per-call:*` each with an explicit bound, cases that
       may exhaust memory in a child process). -/
theorem alloc_bounded (I : ObjIface σ) (s s' : State σ) (op : Op) (r : Res) (evs : List Ev)
    (h : step I s op = .ok (s', r, evs)) (he : ErrInv s) (hc : CurInv s) :
    s'.objects.length ≤ s.objects.length + 1 ∧ s'.fdtReceivers.length ≤ s.fdtReceivers.length + 1 ∧
    s'.errors.length ≤ s'.cfg.maxObjectsError ∧ s'.fdtCurrent.length ≤ 10 := by
  have hg := step_growth I s s' op r evs h
  exact ⟨hg.1, hg.2.1, step_err I s s' op r evs h he, step_cur I s s' op r evs h hc⟩

/-! #### a failed FDT instance does not poison its instance id (repairs 9bde117, 282dd8d) -/

theorem alookup_aerase_self {α} (k : Nat) (l : List (Nat × α)) : alookup k (aerase k l) = none := by
  induction l with
  | nil => rfl
  | cons a r ih =>
    obtain ⟨k', v⟩ := a
    by_cases hk : k' = k
    · simp only [aerase, hk, ↓reduceIte]; exact ih
    · simp only [aerase, hk, ↓reduceIte, alookup]; exact ih

/-- **failed_instance_not_kept.**  When the push that completes an FDT instance finds it undecodable
    (`Err`) or already expired, the instance id is free again afterwards: the next packet carrying it
    starts a new reception (`fdtEntry` takes the `none` branch).  Before 9bde117 the dead instance
    stayed registered and swallowed every later packet of that id until the next cleanup. -/
theorem failed_instance_not_kept (I : ObjIface σ) (s s' : State σ) (id : Nat) (f : FdtRecv σ) (now : Int)
    (r : Res) (evs : List Ev) (h : fdtDispatch I s id f now = .ok (s', r, evs))
    (hst : f.st = .error ∨ f.st = .expired) : alookup id s'.fdtReceivers = none := by
  unfold fdtDispatch at h
  rcases hst with hst | hst
  · rw [hst] at h
    simp only [Except.ok.injEq, Prod.mk.injEq] at h
    obtain ⟨rfl, _, _⟩ := h
    exact alookup_aerase_self _ _
  · rw [hst] at h
    simp only [] at h
    split at h
    · cases h
    · split at h
      · cases h
      · split at h
        · cases h
        · simp only [Except.ok.injEq, Prod.mk.injEq] at h
          obtain ⟨rfl, _, _⟩ := h
          exact alookup_aerase_self _ _

/-- **conflicting_fti_restarts.**  A packet that contradicts the FTI an instance under reception
    was started with finds no instance of its id any more (282dd8d): it starts a new reception
    instead of feeding - and keeping alive - the old one. -/
theorem conflicting_fti_restarts (s : State σ) (p : Pkt) (id : Nat) (f : FdtRecv σ)
    (hid : p.fdtId = some id) (hf : alookup id s.fdtReceivers = some f)
    (hst : f.st = .receiving) (hc : f.ftiConflicts p = true) :
    alookup id (dropConflict s p).fdtReceivers = none := by
  unfold dropConflict
  rw [hid]
  simp only []
  rw [hf]
  simp only []
  rw [if_pos ⟨hst, hc⟩]
  exact alookup_aerase_self _ _

/-! ### non-vacuity, and why the clock hypothesis is there -/

/-- the object contract is satisfiable (the `Toy` object never calls `complete`) -/
example : Toy.iface.CompleteSound := by
  intro o p h
  simp only [Toy.iface] at h
  split at h <;> simp at h

/-- an ordinary object packet -/
def exPkt : Pkt :=
  { toi := 7, closeObject := false, closeSession := false, fdtId := none, sct := none, fti := none,
    pid := some (0, 0), plen := 4, dlen := 24 }

/-- `OpOK` is met by ordinary calls -/
example : OpOK (Op.data (.pkt exPkt) 1790000000000000 .err) := by
  refine ⟨by unfold TimeSane; omega, ?_⟩
  intro p hp
  injection hp with hp; subst hp
  exact And.intro (fun i h => by simp [exPkt] at h) (fun t h => by simp [exPkt] at h)

/-- without the hypothesis on the caller's clock `get_server_time` does overflow (std panics on
    `SystemTime + Duration` beyond the i64-second range): an instance that observed an SCT one µs
    ahead of the receiver, asked at the very end of the representable range -/
example : ({ fdtId := 1, obj := (none : Option Toy.Obj), st := .complete, expires := some 0, inst := none,
             utf8 := true, offset := some 1, late := false, check := true, hasMeta := true, bytes := 0, fti := none } : FdtRecv Toy.Obj).serverTime
            (9223372036854775808 * 1000000 - 1) =
          .error "overflow when adding duration to instant" := by
  simp [FdtRecv.serverTime, sysAdd, sysLimit]

end Flute.Props.C04
