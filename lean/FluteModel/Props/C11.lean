import FluteModel.Lemmas.SchedOut
/-
  C11 - Announce before send.  Theorems about `Sched` (the model of the whole `Sender`), for EVERY
  configuration `cfg` (both publish modes, any queues / multiplex), EVERY table `tbl` of FDT packet counts and
  EVERY operation history `ops` (add / publish / remove / trigger / read / set_complete, any times -
  monotonicity of time is not even needed).  The statements are about the trace (`State.log`, newest first)
  judged by the independent monitor `Spec.Announce`; `read_returns_newest_entry` / `ops_only_append` tie the
  trace to the values `read` RETURNS (what the driver prints and the correspondence compares).

  Admission hypothesis `Admitted cfg`: in `ObjectsBeingTransferred` mode the automatic publication at transfer
  start must not be refused (FDT larger than the default OTI's `max_transfer_length`): the real code swallows
  that error and sends the object unannounced - finding sched-3, negation witness
  `announce_fails_when_publish_refused`.  In FullFDT mode no hypothesis is needed (a refused `publish` returns
  `Err` and publishes nothing, so nothing new is sent).
-/
namespace Flute.Props.C11
open Flute.Sched Flute.Spec.Announce

/-- the FDT fits the default OTI, or the mode is FullFDT -/
def Admitted (cfg : Cfg) : Prop := cfg.mode = .being → cfg.fdtFits = true

/-- every object packet is preceded by the complete emission (all packets 0..n-1, in order, n from the
    instance's transfer length) of an FDT instance that lists the object -/
theorem announce_before_send (cfg : Cfg) (tbl : List Nat) (ops : List Op) (ha : Admitted cfg) :
    Holds (npkOf tbl) Announced (trace cfg tbl ops) :=
  holds_mono (fun _ _ h => h.1) _ (trace_holds cfg tbl ops ha)

/-- when an object packet is emitted no published instance is still pending (not yet emitted completely)
    and no FDT transfer is in progress: a pending FDT is always sent in full first -/
theorem pending_fdt_first (cfg : Cfg) (tbl : List Nat) (ops : List Op) (ha : Admitted cfg) :
    Holds (npkOf tbl) (fun m _ => NoPending m) (trace cfg tbl ops) :=
  holds_mono (fun _ _ h => h.2) _ (trace_holds cfg tbl ops ha)

/-- FullFDT: an object's `published` flag is set only together with a publication that lists it, and only
    published objects are eligible - so an object that was added but not published is never transmitted
    (state form; the trace form is `announce_before_send`, whose `Announced` contains "listed by a publication") -/
theorem unpublished_never_sent (cfg : Cfg) (tbl : List Nat) (ops : List Op) (hm : cfg.mode = .full) :
    (∀ g ∈ (run (init cfg tbl) ops).objs, g.published = true →
      ∃ k f, getF (run (init cfg tbl) ops).fdts k = some f ∧ g.key ∈ f.content) ∧
    (∀ g prio now, g.published = false → shouldTransferNow g prio (run (init cfg tbl) ops).cfg.mode now = false) := by
  have ha : Admitted cfg := fun h => by rw [hm] at h; cases h
  have h := (ann_run cfg tbl ops ha).2.pubListed
  have hc := (const_run cfg tbl ops).2
  rw [hc] at h
  refine ⟨h hm, ?_⟩
  intro g prio now hg
  rw [hc, hm]
  unfold shouldTransferNow
  split
  · rfl
  · simp [hg]

/-- Refused publication (finding sched-3): `ObjectsBeingTransferred` mode, no FDT fits the default OTI.
    The object's packets are in the trace although NO publication ever took place. -/
def cfgRefused : Cfg :=
  { mode := .being, fdtCarousel := .delay 1000, fdtDuration := 3600000000000, fdtStartId := 1, queues := [(0, 1)],
    fdtFits := false }
def obj (n : Nat) : AddArgs := { prio := 0, nSym := n, maxCount := 1, carousel := none, start := none, target := none, allowStop := false }

theorem announce_fails_when_publish_refused :
    Ev.pkt 5 0 1 0 false ∈ trace cfgRefused [] [.add (obj 2), .read 5 []] ∧
    (Mon.run (npkOf []) (trace cfgRefused [] [.add (obj 2), .read 5 []])).pubs = [] ∧
    ¬ Holds (npkOf []) Announced (trace cfgRefused [] [.add (obj 2), .read 5 []]) := by
  refine ⟨by decide, by decide, ?_⟩
  intro h
  have e : trace cfgRefused [] [.add (obj 2), .read 5 []] =
      Ev.pkt 5 0 1 0 false :: (trace cfgRefused [] [.add (obj 2), .read 5 []]).tail := by decide
  rw [e] at h
  obtain ⟨k, files, h1, _⟩ := h.2
  have : (Mon.run (npkOf []) (trace cfgRefused [] [.add (obj 2), .read 5 []]).tail).pubs = [] := by decide
  rw [this] at h1
  cases h1

/-! ### the trace is what `read` returns -/

/-- the value returned by `read` is the newest entry of the trace (`idle` for `None`); everything else the call
    appended is not a packet entry; nothing already in the trace is changed; `hang` is never returned -/
theorem read_returns_newest_entry (s : State) (now : Nat) (ticks : List (Nat × Nat)) :
    ReadRes s (read s now ticks).1 now (read s now ticks).2 :=
  read_out_log s now ticks

/-- every operation only appends to the trace, and only a `read` that returns a packet appends a packet entry
    (exactly one) -/
theorem ops_only_append (s : State) (op : Op) :
    ∃ new, (step s op).log = new ++ s.log ∧
      (match op with
       | .read now ticks => cntPk new = (match (read s now ticks).2 with | .pkt .. => 1 | .fdt .. => 1 | _ => 0)
       | _ => cntPk new = 0) :=
  step_log_append s op

/-- the clauses on the RETURNED values: if `read` (after any history) returns an object packet, a complete FDT
    instance listing the object has been returned before and no publication is pending -/
theorem read_pkt_is_announced (cfg : Cfg) (tbl : List Nat) (ops : List Op) (ha : Admitted cfg) (now : Nat)
    (ticks : List (Nat × Nat)) (p t i : Nat) (b : Bool)
    (hr : (read (run (init cfg tbl) ops) now ticks).2 = Out.pkt p t i b) :
    ∃ past, (read (run (init cfg tbl) ops) now ticks).1.log = Ev.pkt now p t i b :: past ∧
      Announced (Mon.run (npkOf tbl) past) t ∧ NoPending (Mon.run (npkOf tbl) past) := by
  have h1 := read_out_log (run (init cfg tbl) ops) now ticks
  rw [hr] at h1
  obtain ⟨new, e, _⟩ := h1
  have h2 := trace_holds cfg tbl (ops ++ [.read now ticks]) ha
  have e2 : trace cfg tbl (ops ++ [.read now ticks]) = (read (run (init cfg tbl) ops) now ticks).1.log := by
    unfold trace run; rw [List.foldl_append]; rfl
  rw [e2, e] at h2
  exact ⟨_, e, h2.2.1, h2.2.2⟩

/-! non-vacuity: histories in which object packets are emitted (both modes; an object added mid-flight) -/

def cfgF : Cfg := { mode := .full, fdtCarousel := .delay 1000, fdtDuration := 3600000000000, fdtStartId := 1, queues := [(0, 2)] }
def cfgB : Cfg := { cfgF with mode := .being }
def hist : List Op :=
  [.add (obj 2), .publish 5, .read 5 [], .read 5 [], .read 5 [], .add (obj 1), .read 5 [], .publish 6, .read 6 [], .read 6 [],
   .read 6 [], .read 6 []]

example : Ev.pkt 5 0 1 0 false ∈ trace cfgF [2, 1] hist := by decide
example : Ev.pkt 6 0 2 0 true ∈ trace cfgF [2, 1] hist := by decide
example : Ev.pkt 5 0 1 0 false ∈ trace cfgB [1, 1, 1, 1] hist := by decide
example : Admitted cfgF ∧ Admitted cfgB := ⟨fun h => (by cases h), fun _ => rfl⟩

end Flute.Props.C11
