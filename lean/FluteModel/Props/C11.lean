import FluteModel.Lemmas.SchedConst
/-
  C11 - Announce before send.  Theorems about `Sched` (the model of the whole `Sender`), for EVERY
  configuration `cfg` (both publish modes, any queues / multiplex), EVERY table `tbl` of FDT packet counts and
  EVERY operation history `ops` (add / publish / remove / trigger / read / set_complete, any times -
  monotonicity of time is not even needed).  The statements are about the trace (`State.log`, newest first)
  judged by the independent monitor `Spec.Announce`.
-/
namespace Flute.Props.C11
open Flute.Sched Flute.Spec.Announce

/-- every object packet is preceded by the complete emission (all packets 0..n-1, in order, n from the
    instance's transfer length) of an FDT instance that lists the object -/
theorem announce_before_send (cfg : Cfg) (tbl : List Nat) (ops : List Op) :
    Holds (npkOf tbl) Announced (trace cfg tbl ops) :=
  holds_mono (fun _ _ h => h.1) _ (trace_holds cfg tbl ops)

/-- when an object packet is emitted no published instance is still pending (not yet emitted completely)
    and no FDT transfer is in progress: a pending FDT is always sent in full first -/
theorem pending_fdt_first (cfg : Cfg) (tbl : List Nat) (ops : List Op) :
    Holds (npkOf tbl) (fun m _ => NoPending m) (trace cfg tbl ops) :=
  holds_mono (fun _ _ h => h.2) _ (trace_holds cfg tbl ops)

/-- an object that was added but is not listed by any publication so far is never transmitted
    (in particular in FullFDT mode, where only `publish` lists objects) -/
theorem unpublished_never_sent (cfg : Cfg) (tbl : List Nat) (ops : List Op) :
    Holds (npkOf tbl) Published (trace cfg tbl ops) :=
  holds_mono (fun _ _ h => let ⟨k, files, h1, h2, _⟩ := h.1; ⟨k, files, h1, h2⟩) _ (trace_holds cfg tbl ops)

/-- FullFDT: `publish` is the only source of listings - an object's `published` flag is set only
    together with a publication that lists it (state form of the third clause) -/
theorem full_published_listed (cfg : Cfg) (tbl : List Nat) (ops : List Op) (hm : cfg.mode = .full) :
    ∀ g ∈ (run (init cfg tbl) ops).objs, g.published = true →
      ∃ k f, getF (run (init cfg tbl) ops).fdts k = some f ∧ g.key ∈ f.content := by
  have h := (ann_run cfg tbl ops).2.pubListed
  rw [(const_run cfg tbl ops).2] at h
  exact h hm

/-! non-vacuity: histories in which object packets are emitted (both modes; an object added mid-flight) -/

def cfgF : Cfg := { mode := .full, fdtCarousel := .delay 1000, fdtDuration := 3600000000000, fdtStartId := 1, queues := [(0, 2)] }
def cfgB : Cfg := { cfgF with mode := .being }
def obj (n : Nat) : AddArgs := { prio := 0, nSym := n, maxCount := 1, carousel := none, start := none, target := none, allowStop := false }
def hist : List Op :=
  [.add (obj 2), .publish 5, .read 5 [], .read 5 [], .read 5 [], .add (obj 1), .read 5 [], .publish 6, .read 6 [], .read 6 [],
   .read 6 [], .read 6 []]

example : Ev.pkt 5 0 1 0 false ∈ trace cfgF [2, 1] hist := by decide
example : Ev.pkt 6 0 2 0 true ∈ trace cfgF [2, 1] hist := by decide
example : Ev.pkt 5 0 1 0 false ∈ trace cfgB [1, 1, 1, 1] hist := by decide

end Flute.Props.C11
