import FluteModel.Lemmas.SessionSeg
import FluteModel.Lemmas.SessionCodec
import FluteModel.Lemmas.SessionPart
import FluteModel.Lemmas.SessionFits
import FluteModel.Lemmas.SessionCache
import FluteModel.Props.C01Link
/-
  C01 — clean channel: every accepted object arrives exactly once (once per transfer when
  receive-once is off), nothing is reported as error; an object the wire format cannot carry is
  refused when it is added.

  Model: FluteModel/Session.lean.  The receiver is seen from one object: `runObj` over the events
  `Ev.fdt lists` (an FDT instance completes; does it list the object?) and `Ev.pkt s` (a packet of
  the object arrives).  Only property theorems, negation witnesses and non-vacuity examples here.
-/
namespace Flute.Props.C01
open Flute Flute.Session Flute.Lemmas.Session

/-- **C01, delivery clause (receiver side, all configurations).**
    For EVERY decoder satisfying the contract, every receiver configuration whose resource limits
    do not bind (`Fits`), every non-empty object whose cache directive is not no-cache (finding D28),
    and every clean reception `pre ++ fdt :: seg₁ ++ … ++ seg_m ++ tail` where
      * `pre` holds no packet of the object (FDT instances of earlier objects, listing it or not), then the
        object is announced (`Ev.fdt true`: C11, announce before send),
      * `seg_t` carries the packets of the t-th transfer in the sender's order - any listing `T` that
        is `TransferOK`: genuine packets, (SBN 0, ESI 0) first and only first, decodable symbols of every
        block, close-object flag on the last packet only - interleaved with any number of completions
        of FDT instances that list the object (FullFDT; ObjectsBeingTransferred while the object is in
        transfer - finding D29 for what happens otherwise),
      * `tail` holds no packet of the object (any FDT instances, listing it or not),
    the object writer is opened and completed exactly `m` times when receive-once is off, exactly once
    when it is on (m ≥ 1), and `error` / `interrupted` are never called.  Interleave depth, multiplex,
    priorities and the other objects only decide how the segments are interleaved with other
    packets, which the object does not see (`C02.events_packets`). -/
theorem clean_channel_exact_once (c : Codec) (rc : RxCfg) (o : ObjCfg)
    (hN : o.ks.isEmpty = false) (hfit : Fits rc o) (hnc : o.noCache = false)
    (pre : List Ev) (segs : List (List Ev)) (tail : List Ev)
    (hpre : pktSyms pre = [])
    (hsegs : ∀ seg, seg ∈ segs → TransferOK c o (pktSyms seg) ∧ ∀ l, Ev.fdt l ∈ seg → l = true)
    (htail : pktSyms tail = []) :
    let st := runObj c.canDecode rc o {} (pre ++ Ev.fdt true :: (segs.flatten ++ tail))
    st.completes = (if rc.receiveOnce then min 1 segs.length else segs.length) ∧
    st.opens = st.completes ∧ st.errors = 0 ∧ st.interrupts = 0 := by
  intro st
  have h0 := idle_after_announce c rc o pre hpre
  have h1 := clean_run c rc o hN hfit hnc segs 0 _ h0 hsegs
  have h2 := tail_counters c rc o tail _ h1.obj htail
  have e : st = runObj c.canDecode rc o (runObj c.canDecode rc o
      (stepObj c.canDecode rc o (runObj c.canDecode rc o {} pre) (.fdt true)) segs.flatten) tail := by
    simp only [st, runObj, runObj_append]
  have hx : expect rc.receiveOnce 0 segs.length = (if rc.receiveOnce then min 1 segs.length else segs.length) := by
    unfold expect; split <;> simp
  rw [e, h2.1, h2.2.1, h2.2.2.1, h2.2.2.2, h1.completes, h1.opens, h1.errors, h1.interrupts, hx]
  exact ⟨rfl, rfl, rfl, rfl⟩

/-- **C01, delivery clause, session level: sender model ∘ clean channel ∘ receiver model.**
    For ANY block sizes (`o.ks`, every block with a source symbol and encodable), parity, scheme,
    interleave window ≥ 1, `max_transfer_count` m ≥ 1, in-band or FDT-only OTI, any other objects
    multiplexed in between, any decoders satisfying the contract: the receiver is fed, in order and
    without loss, `ps1 ++ ps2` where `ps1` holds no packet of the object and an FDT instance received
    whole (announce before send: C11), and the object's packets in `ps2` are its whole life as the
    model's block encoder emits it (`life`: m - 1 ordinary transfers and the last one; the scheduler
    only interleaves - `scheduler_only_interleaves`).  FullFDT (every instance lists the object), cache
    directive not no-cache (D28), receiver limits not binding.  Then the object writer is opened and
    completed exactly m times - exactly once with receive-once - and never gets `error` /
    `interrupted`. -/
theorem clean_channel_exact_once_session (cF cO : Codec) (rc : RxCfg) (s : SessCfg) (o : ObjCfg)
    (hto : o.toi ≠ 0) (hN : o.ks.isEmpty = false) (hfit : Fits rc o) (hnc : o.noCache = false) (hw : 1 ≤ s.w)
    (hblocks : ∀ (b k : Nat), o.ks[b]? = some k → 1 ≤ k ∧ blockFails o.scheme k o.p = false)
    (hm : 1 ≤ o.transfers)
    (tr trLast : List Sym) (h1 : emitTransfer (objEnc s o false) = some tr) (h2 : emitTransfer (objEnc s o true) = some trLast)
    (hall : ∀ f, f ∈ s.fdts → f.files.contains o.toi = true)
    (f : FdtCfg) (hfind : s.fdts.find? (fun x => x.id == f.id) = some f)
    (hfN : f.ks.isEmpty = false) (hflook : f.ks.size ≤ rc.maxLook)
    (hfresh : blockDone cF.canDecode f.ks s.fdtP [] 0 = false)
    (ps1 ps2 : List Pkt)
    (hgenF : ∀ p, p ∈ ps1 → p.toi = 0 → p.fdtId = f.id → Genuine (fdtObj s f) (toSym p) ∧ p.close = false)
    (hwhole : AllDec cF (fdtObj s f) (fsyms f.id ps1))
    (hannounce : osyms o ps1 = [])
    (hlife : osyms o ps2 = life tr trLast o.transfers) :
    let st := observe cF.canDecode cO.canDecode rc s o (ps1 ++ ps2)
    st.completes = (if rc.receiveOnce then 1 else o.transfers) ∧
    st.opens = st.completes ∧ st.errors = 0 ∧ st.interrupts = 0 := by
  have hTs : ∀ T, T ∈ transfersOf tr trLast o.transfers → TransferOK cO o T := by
    intro T hT
    simp only [transfersOf, List.mem_append, List.mem_replicate, List.mem_singleton] at hT
    rcases hT with ⟨_, rfl⟩ | rfl
    · exact transferOK_of_emit cO s o false hw hN hblocks _ h1
    · exact transferOK_of_emit cO s o true hw hN hblocks _ h2
  have key := clean_stream cF cO rc s o hto hN hfit hnc hall f hfind hfN hflook hfresh ps1 ps2 hgenF hwhole hannounce
    (transfersOf tr trLast o.transfers) hTs (by rw [hlife, life_eq_flatten])
  have hlen : (transfersOf tr trLast o.transfers).length = o.transfers := by
    simp [transfersOf]; omega
  rw [hlen] at key
  have hmin : min 1 o.transfers = 1 := by omega
  rw [hmin] at key
  exact key

/-- **C01 for the receiver as configured** (packet-cache limit = block limit = `object_max_cache_size`):
    `clean_channel_exact_once_session` with the resource hypothesis in bytes (`FitsBytes`). -/
theorem clean_channel_exact_once_real (cF cO : Codec) (rc : RxCfg) (s : SessCfg) (o : ObjCfg)
    (hto : o.toi ≠ 0) (hN : o.ks.isEmpty = false) (hnc : o.noCache = false) (hw : 1 ≤ s.w)
    (hblocks : ∀ (b k : Nat), o.ks[b]? = some k → 1 ≤ k ∧ blockFails o.scheme k o.p = false)
    (hm : 1 ≤ o.transfers)
    (tr trLast : List Sym) (h1 : emitTransfer (objEnc s o false) = some tr) (h2 : emitTransfer (objEnc s o true) = some trLast)
    (hall : ∀ f, f ∈ s.fdts → f.files.contains o.toi = true)
    (f : FdtCfg) (hfind : s.fdts.find? (fun x => x.id == f.id) = some f)
    (hfN : f.ks.isEmpty = false) (hflook : f.ks.size ≤ rc.maxLook)
    (hfresh : blockDone cF.canDecode f.ks s.fdtP [] 0 = false)
    (ps1 ps2 : List Pkt)
    (hfit : FitsBytes rc o (ps1 ++ ps2))
    (hgenF : ∀ p, p ∈ ps1 → p.toi = 0 → p.fdtId = f.id → Genuine (fdtObj s f) (toSym p) ∧ p.close = false)
    (hwhole : AllDec cF (fdtObj s f) (fsyms f.id ps1))
    (hannounce : osyms o ps1 = [])
    (hlife : osyms o ps2 = life tr trLast o.transfers) :
    (observe cF.canDecode cO.canDecode rc s o (ps1 ++ ps2)).completes = (if rc.receiveOnce then 1 else o.transfers) ∧
    (observe cF.canDecode cO.canDecode rc s o (ps1 ++ ps2)).opens = (observe cF.canDecode cO.canDecode rc s o (ps1 ++ ps2)).completes ∧
    (observe cF.canDecode cO.canDecode rc s o (ps1 ++ ps2)).errors = 0 ∧
    (observe cF.canDecode cO.canDecode rc s o (ps1 ++ ps2)).interrupts = 0 := by
  rw [observe_unl cF.canDecode cO.canDecode rc s o hto _ hfit.2.2]
  exact clean_channel_exact_once_session cF cO (unl rc) s o hto hN (fits_unl rc o _ hfit) hnc hw hblocks hm tr trLast h1 h2
    hall f hfind hfN hflook hfresh ps1 ps2 hgenF hwhole hannounce hlife

/-- **`max_transfer_count = 0`** (accepted by the code): the sender makes ONE ordinary transfer - no
    close-object flag at all (`Src.listing`: `should_transfer_now` once, `is_last_transfer` never) - and the
    object is delivered exactly once, receive-once on or off.  Receiver as configured. -/
theorem clean_channel_zero_transfer_count (cF cO : Codec) (rc : RxCfg) (s : SessCfg) (o : ObjCfg)
    (hto : o.toi ≠ 0) (hN : o.ks.isEmpty = false) (hnc : o.noCache = false) (hw : 1 ≤ s.w)
    (hblocks : ∀ (b k : Nat), o.ks[b]? = some k → 1 ≤ k ∧ blockFails o.scheme k o.p = false)
    (tr : List Sym) (h1 : emitTransfer (objEnc s o false) = some tr)
    (hall : ∀ f, f ∈ s.fdts → f.files.contains o.toi = true)
    (f : FdtCfg) (hfind : s.fdts.find? (fun x => x.id == f.id) = some f)
    (hfN : f.ks.isEmpty = false) (hflook : f.ks.size ≤ rc.maxLook)
    (hfresh : blockDone cF.canDecode f.ks s.fdtP [] 0 = false)
    (ps1 ps2 : List Pkt)
    (hfit : FitsBytes rc o (ps1 ++ ps2))
    (hgenF : ∀ p, p ∈ ps1 → p.toi = 0 → p.fdtId = f.id → Genuine (fdtObj s f) (toSym p) ∧ p.close = false)
    (hwhole : AllDec cF (fdtObj s f) (fsyms f.id ps1))
    (hannounce : osyms o ps1 = [])
    (hlife : osyms o ps2 = tr) :
    (observe cF.canDecode cO.canDecode rc s o (ps1 ++ ps2)).completes = 1 ∧
    (observe cF.canDecode cO.canDecode rc s o (ps1 ++ ps2)).opens = 1 ∧
    (observe cF.canDecode cO.canDecode rc s o (ps1 ++ ps2)).errors = 0 ∧
    (observe cF.canDecode cO.canDecode rc s o (ps1 ++ ps2)).interrupts = 0 := by
  rw [observe_unl cF.canDecode cO.canDecode rc s o hto _ hfit.2.2]
  have key := clean_stream cF cO (unl rc) s o hto hN (fits_unl rc o _ hfit) hnc hall f hfind hfN hflook hfresh ps1 ps2
    hgenF hwhole hannounce [tr]
    (by intro T hT; simp only [List.mem_singleton] at hT; subst hT; exact transferOK_of_emit cO s o false hw hN hblocks _ h1)
    (by simp [hlife])
  simp only [List.length_singleton, Nat.min_self, ite_self] at key
  obtain ⟨k1, k2, k3, k4⟩ := key
  exact ⟨k1, by rw [k2, k1], k3, k4⟩

/-- the fresh source of a `max_transfer_count = 0` object holds exactly that one ordinary transfer -/
theorem zero_transfer_count_source (k : Slot) (tr trLast : List Sym) :
    remainingOf { slot := k, tr := tr, trLast := trLast, transfers := 0, carousel := false, t := 0, rest := [] } = tr := by
  simp [remainingOf]

/-- the scheduler only interleaves: whatever the schedule, the packets of a non-carousel object appear in
    the merged stream in the order its block encoder emits them - a prefix of its `life` -/
theorem scheduler_only_interleaves (o : ObjCfg) (hto : o.toi ≠ 0) (hm : 1 ≤ o.transfers)
    (tr trLast : List Sym) (sched : List Slot) (srcs : List Src) (stream : List Pkt)
    (hb : buildStream srcs sched = some stream)
    (hsrc : findSrc srcs (Slot.obj o.toi) =
      some { slot := Slot.obj o.toi, tr := tr, trLast := trLast, transfers := o.transfers, carousel := false, t := 0, rest := [] }) :
    osyms o stream <+: life tr trLast o.transfers := by
  obtain ⟨x', hx'⟩ := buildStream_object o hto sched srcs stream _ hb hsrc rfl
  rw [remaining_fresh _ _ _ _ hm] at hx'
  exact ⟨_, hx'⟩

/-! ### the refusal clause -/

/-- **C01, refusal clause.**  `add_object` (`FileDesc::new`) refuses every object whose transfer length
    exceeds the scheme's maximum; and an object it accepts (under that test) is representable on the
    wire: its transfer length fits the FTI field (48 bits, 40 for RaptorQ) and the RFC 5052 partition
    has at most `maxSbn` blocks, so every SBN fits the scheme's payload-ID field (16 / 8 / 32 / 8 / 16 bits).
    (`divCeil (divCeil tl e) b` = number of source blocks, C07.) -/
theorem too_large_refused (s : Scheme) (e b p tl aLarge : Nat) (he : 0 < e) (hb : 0 < b) :
    (tl > maxTransferLength s e b → refused s e b p tl aLarge = true) ∧
    (refused s e b p tl aLarge = false →
        tl ≤ lenCap s ∧ divCeil (divCeil tl e) b ≤ maxSbn s) := by
  refine ⟨?_, ?_⟩
  · intro h; simp [refused, h]
  · intro h
    simp only [refused, Bool.or_eq_false_iff, decide_eq_false_iff_not, Nat.not_lt] at h
    have hle := h.1.1.1.1
    unfold maxTransferLength at hle
    dsimp only at hle
    constructor
    · split at hle <;> omega
    · have hle' : tl ≤ e * b * maxSbn s := by split at hle <;> omega
      apply divCeil_le _ _ _ hb
      apply divCeil_le _ _ _ he
      calc tl ≤ e * b * maxSbn s := hle'
        _ = maxSbn s * b * e := by rw [Nat.mul_comm (e * b), Nat.mul_comm e b, Nat.mul_assoc]

/-- the resource hypothesis `Fits` of the theorems follows from the configuration: the object has at most
    `2 * MAX_PREALLOCATED_BLOCKS` (= 4096) blocks and the bytes the receiver accounts for all its blocks are
    within `object_max_cache_size` (default 10 MiB).  (F22: a receiver whose cache is smaller than the
    sender's interleave window times the block size refuses the object - C17 demands that limit.) -/
theorem cache_holds_object (rc : RxCfg) (o : ObjCfg) (h1 : o.ks.size ≤ rc.maxLook)
    (h2 : totalBytes o.blen o.blen.size ≤ rc.maxSize) (h3 : rc.pktCap = none) : Fits rc o :=
  fits_of_total rc o h1 h2 h3

/-! ### phase 2: the block structure is the RFC 5052 partition (C07) of an accepted object -/

/-- **Tie to C07.**  The theorems above quantify over arbitrary block structures `ks`; for a real
    object they are instantiated with the partition `block_partitioning(B, L, E)` (model of partition.rs,
    engine `part`, proved equal to RFC 5052 in Props/C07): for EVERY L > 0, E > 0, B > 0 it has at least
    one block and every block has between 1 and B source symbols - the side conditions `hN` and the first
    half of `hblocks`. -/
theorem partition_instance (b l e aL aS nL n : Nat) (hb : 0 < b) (he : 0 < e) (hl0 : 0 < l) (hl : l < 2^64)
    (h : Partition.blockPartitioning b l e = .ok (aL, aS, nL, n)) :
    (ksOf aL aS nL n).isEmpty = false ∧
    ∀ (s k : Nat), (ksOf aL aS nL n)[s]? = some k → 1 ≤ k ∧ k ≤ b :=
  partition_blocks_ok b l e aL aS nL n hb he hl0 hl h

/-- the second half of `hblocks`: an object `add_object` accepts has encodable blocks - for No-Code,
    RaptorQ and Raptor up to the code's K maximum (larger blocks are refused since /repo 29615e2; before,
    the object was accepted and `Sender::read` panicked) and (after the repairs of D21 / D25: parity ≥ 1,
    A_large + parity ≤ 255 since /repo d65a846) Reed-Solomon.  Raptor blocks of 2 or 3 symbols are the exception (finding D23 / D26). -/
theorem accepted_blocks_encodable (s : Scheme) (e b p tl aLarge k : Nat)
    (hacc : refused s e b p tl aLarge = false) (hk1 : 1 ≤ k) (hk2 : k ≤ aLarge)
    (hrap : s = .raptor → k ≠ 2 ∧ k ≠ 3) : blockFails s k p = false := by
  simp only [refused, Bool.or_eq_false_iff] at hacc
  cases s with
  | nocode => rfl
  | raptorq =>
    have h3 := hacc.1.1.2
    simp only [beq_self_eq_true, Bool.or_true, Bool.true_and, decide_eq_false_iff_not] at h3
    simp only [blockFails, decide_eq_false_iff_not]
    omega
  | raptor =>
    have := hrap rfl
    have h3 := hacc.1.1.2
    simp only [beq_self_eq_true, Bool.true_or, Bool.true_and, decide_eq_false_iff_not] at h3
    simp only [blockFails, Bool.or_eq_false_iff, beq_eq_false_iff_ne, decide_eq_false_iff_not]
    exact ⟨this, by omega⟩
  | rs =>
    have h2 := hacc.1.1.1.2
    simp only [beq_self_eq_true, Bool.true_or, Bool.true_and, Bool.or_eq_false_iff, beq_eq_false_iff_ne,
      decide_eq_false_iff_not] at h2
    simp only [blockFails, Bool.or_eq_false_iff, beq_eq_false_iff_ne, decide_eq_false_iff_not]
    omega
  | rsus =>
    have h2 := hacc.1.1.1.2
    simp only [beq_self_eq_true, Bool.or_true, Bool.true_and, Bool.or_eq_false_iff, beq_eq_false_iff_ne,
      decide_eq_false_iff_not] at h2
    simp only [blockFails, Bool.or_eq_false_iff, beq_eq_false_iff_ne, decide_eq_false_iff_not]
    omega

/-- **accepted ⇒ encodable, without exception** (since /repo 42b2a1c `add_object` also refuses a Raptor partition
    using a block of 2 or 3 symbols): every block of the RFC 5052 partition `(aLarge, aSmall, nL, n)` of an accepted
    object - `aLarge` symbols for the first `nL` blocks, `aSmall` for the others - can be encoded.  (Finding D23 / D26
    is repaired for objects; an FDT instance coded with a Raptor default OTI is refused at `publish`.) -/
theorem accepted_blocks_encodable_full (s : Scheme) (e b p tl aLarge aSmall nL n i : Nat)
    (hacc : refusedFull s e b p tl aLarge aSmall nL n = false) (hi : i < n)
    (hk1 : 1 ≤ (if i < nL then aLarge else aSmall)) (hle : aSmall ≤ aLarge) :
    blockFails s (if i < nL then aLarge else aSmall) p = false := by
  simp only [refusedFull, Bool.or_eq_false_iff] at hacc
  obtain ⟨h1, h2⟩ := hacc
  apply accepted_blocks_encodable s e b p tl aLarge _ h1 hk1 (by split <;> omega)
  intro hs
  subst hs
  simp only [beq_self_eq_true, Bool.true_and, Bool.or_eq_false_iff, Bool.and_eq_false_imp, decide_eq_true_eq,
    beq_eq_false_iff_ne] at h2
  by_cases hl : i < nL
  · simp only [hl, ↓reduceIte]
    exact h2.1 (by omega)
  · simp only [hl, ↓reduceIte]
    exact h2.2 (by omega)

/-- the K maximum is sharp in the model as in the libraries: a RaptorQ block of 56403 source symbols is
    encodable, one of 56404 is not (and `add_object` refuses the object); likewise 8192 / 8193 for Raptor -/
theorem kmax_boundary :
    blockFails .raptorq 56403 1 = false ∧ blockFails .raptorq 56404 1 = true ∧
    blockFails .raptor 8192 1 = false ∧ blockFails .raptor 8193 1 = true ∧
    refused .raptorq 4 56404 1 225616 56404 = true ∧ refused .raptorq 4 56403 1 225612 56403 = false ∧
    refused .raptor 4 8193 1 32772 8193 = true ∧ refused .raptor 4 8192 1 32768 8192 = false := by
  decide

/-- the Reed-Solomon limits of /repo d65a846: a block of `a_large + parity = 255` symbols is accepted, 256 is refused
    (both FEC IDs); FEC Encoding ID 5 also refuses `B + parity > 255` whatever the object (8-bit OTI fields) -/
theorem rs_boundary :
    refused .rsus 1 255 1 254 254 = false ∧ refused .rsus 1 255 1 255 255 = true ∧
    refused .rs 1 250 5 100 100 = false ∧ refused .rs 1 251 5 100 100 = true ∧ refused .rsus 1 251 5 100 100 = false ∧
    refused .rsus 1 65534 1 100 100 = false ∧ refused .rsus 1 65535 1 100 100 = true := by
  decide

/-- the hypotheses `emitTransfer … = some …` of the session-level theorems are always satisfiable: the
    model's block encoder produces a listing for every encodable block structure (its loop never runs out
    of fuel; the driver's `hang` outcome does not occur) -/
theorem transfer_listing_exists (s : SessCfg) (o : ObjCfg) (closable : Bool) (hw : 1 ≤ s.w) (hN : o.ks.isEmpty = false)
    (hblocks : ∀ (b k : Nat), o.ks[b]? = some k → 1 ≤ k ∧ blockFails o.scheme k o.p = false) :
    ∃ T, emitTransfer (objEnc s o closable) = some T :=
  emit_terminates _ (encOK_obj s o closable hw hN hblocks)

/-! ### findings: the hypotheses that cannot be dropped -/

def rcOn : RxCfg := { receiveOnce := true, maxSize := 10485760 }

/-- one block of one source symbol + one repair symbol -/
def k1 (noCache : Bool) : ObjCfg :=
  { toi := 1, scheme := .rs, ks := #[1], blen := #[], p := 1, inbandFti := true, transfers := 1,
    carousel := false, noCache := noCache }

/-- **Finding D28 (`C01:no-cache-redelivered`).**  A no-cache object is not entered in
    `objects_completed`: the repair packet that follows its completion re-creates it and, k being 1,
    completes it a second time - two deliveries of one transfer, receive-once on. -/
theorem no_cache_redelivered :
    (runObj (canDecodeOf .rs) rcOn (k1 true) {} [.fdt true, .pkt ⟨0, 0, false⟩, .pkt ⟨0, 1, true⟩]).completes = 2 ∧
    (runObj (canDecodeOf .rs) rcOn (k1 false) {} [.fdt true, .pkt ⟨0, 0, false⟩, .pkt ⟨0, 1, true⟩]).completes = 1 := by
  decide

/-- **Finding D29 (`C01:obt-gc-redelivered`).**  ObjectsBeingTransferred: an FDT instance that does not
    list the (finished) object makes `gc_object_completed` forget it, and its second transfer is
    delivered again although receive-once is on. -/
theorem obt_gc_redelivered :
    (runObj (canDecodeOf .rs) rcOn (k1 false) {}
      [.fdt true, .pkt ⟨0, 0, false⟩, .pkt ⟨0, 1, false⟩, .fdt false, .fdt true, .pkt ⟨0, 0, false⟩, .pkt ⟨0, 1, true⟩]).completes = 2 := by
  decide

/-- non-vacuity: a two-transfer clean reception that meets the hypotheses -/
example : TransferOK (codecOf .rs) (k1 false) (pktSyms [.pkt ⟨0, 0, false⟩, .fdt true, .pkt ⟨0, 1, true⟩]) := by
  refine ⟨?_, ⟨⟨0, 0, false⟩, [⟨0, 1, true⟩], rfl, rfl, rfl, by simp⟩, ?_, ?_⟩
  · intro s hs
    simp [pktSyms] at hs
    rcases hs with rfl | rfl <;> exact ⟨1, by decide, by decide⟩
  · intro b hb
    have : b = 0 := by simp [k1] at hb; omega
    subst this
    exact ⟨1, by decide, by decide⟩
  · intro a s b h hs
    simp only [pktSyms] at h
    match a, h with
    | [], h => simp at h; obtain ⟨rfl, _⟩ := h; simp at hs
    | [_], h => simp at h; exact h.2.2
    | _ :: _ :: a', h => simp at h

/-! ### composed with the block-encoder model of C08 (benc)

  The transfers the receiver theorem is about ARE the complete BlockEnc transfers of the object's bytes
  (`Props/C01Link.lean`, benc): the sender-side hypotheses of `clean_channel_exact_once_real` (`hw`, `hN`,
  `hblocks`, existence of the two listings) are discharged by the link and the statement reads over `BlockEnc`
  runs - the model the `benc` correspondence ties to blockencoder.rs. -/

/-- **C01 over BlockEnc.**  For ALL non-empty object bytes `c`, `E, B > 0`, partition `(aL, aS, nL, n)` of the
    transfer length, parity, interleave window ≥ 1, codec accepting every block (`Accepts`), and a session object
    `o` whose encoder parameters are linked to them (`Link`, for both values of `is_last_transfer`): there are two
    packet lists `tr`, `trLast` - the `(SBN, ESI, B)` projections of the COMPLETE unforced BlockEnc transfers of
    `c` without / with the close-object permission (C08 `Run`s) - such that a clean reception of the object's
    life (`m - 1` times `tr`, then `trLast`, interleaved with anything, after an FDT instance received whole)
    opens and completes the writer exactly `m` times (once with receive-once), without `error` / `interrupted`. -/
theorem clean_channel_exact_once_blockenc {P : BlockEnc.Params} {c : Fec.Bytes} {aL aS nL n : Nat}
    (hS : BencBlocks.Setup P c aL aS nL n) (hb : 0 < P.b) (hA : BencBlocks.Accepts P c aL aS nL n)
    (hcov : BencSessionBridge.SrcCover P.codec) (hle : Flute.BencPsi.SymLe P.codec) (hwP : 1 ≤ P.window)
    (hq : Partition.blockPartitioning P.b P.len P.e = .ok (aL, aS, nL, n))
    (cF cO : Codec) (rc : RxCfg) (s : SessCfg) (o : ObjCfg)
    (hLf : BencSessionBridge.Link P aL aS nL n false (objEnc s o false)) (hLt : BencSessionBridge.Link P aL aS nL n true (objEnc s o true))
    (hto : o.toi ≠ 0) (hnc : o.noCache = false) (hm : 1 ≤ o.transfers)
    (hall : ∀ f, f ∈ s.fdts → f.files.contains o.toi = true)
    (f : FdtCfg) (hfind : s.fdts.find? (fun x => x.id == f.id) = some f)
    (hfN : f.ks.isEmpty = false) (hflook : f.ks.size ≤ rc.maxLook)
    (hfresh : blockDone cF.canDecode f.ks s.fdtP [] 0 = false) :
    ∃ tr trLast,
      (∃ t1 s1, BencShape.Run P c aL aS nL n false t1 s1 ∧ (BlockEnc.read P s1 false).1 = BlockEnc.Out.none ∧ (BencTrace.pkts t1).map BencSessionBridge.sym = tr) ∧
      (∃ t2 s2, BencShape.Run P c aL aS nL n true t2 s2 ∧ (BlockEnc.read P s2 false).1 = BlockEnc.Out.none ∧ (BencTrace.pkts t2).map BencSessionBridge.sym = trLast) ∧
      ∀ (ps1 ps2 : List Pkt), FitsBytes rc o (ps1 ++ ps2) →
        (∀ p, p ∈ ps1 → p.toi = 0 → p.fdtId = f.id → Genuine (fdtObj s f) (toSym p) ∧ p.close = false) →
        AllDec cF (fdtObj s f) (fsyms f.id ps1) → osyms o ps1 = [] → osyms o ps2 = life tr trLast o.transfers →
        (observe cF.canDecode cO.canDecode rc s o (ps1 ++ ps2)).completes = (if rc.receiveOnce then 1 else o.transfers) ∧
        (observe cF.canDecode cO.canDecode rc s o (ps1 ++ ps2)).opens = (observe cF.canDecode cO.canDecode rc s o (ps1 ++ ps2)).completes ∧
        (observe cF.canDecode cO.canDecode rc s o (ps1 ++ ps2)).errors = 0 ∧
        (observe cF.canDecode cO.canDecode rc s o (ps1 ++ ps2)).interrupts = 0 := by
  obtain ⟨tr, _, h1, _, _, t1, s1, r1, _, e1, p1⟩ :=
    Flute.Props.C01.Link.emitTransfer_is_blockenc_transfer hS hb hA hcov hle hwP hLf hq
  obtain ⟨trLast, _, h2, _, _, t2, s2, r2, _, e2, p2⟩ :=
    Flute.Props.C01.Link.emitTransfer_is_blockenc_transfer hS hb hA hcov hle hwP hLt hq
  have hok := BencSessionBridge.encOK_of_link hS hwP hLf
  have hw : 1 ≤ s.w := hok.w
  have hN : o.ks.isEmpty = false := by
    have h0 : 0 < o.ks.size := hok.nonempty
    cases hE : o.ks.isEmpty with
    | false => rfl
    | true =>
      have := Array.isEmpty_iff_size_eq_zero.mp hE
      omega
  have hblocks : ∀ (b k : Nat), o.ks[b]? = some k → 1 ≤ k ∧ blockFails o.scheme k o.p = false := hok.blocks
  refine ⟨tr, trLast, ⟨t1, s1, r1, e1, p1⟩, ⟨t2, s2, r2, e2, p2⟩, ?_⟩
  intro ps1 ps2 hfit hgenF hwhole hann hlife
  exact clean_channel_exact_once_real cF cO rc s o hto hN hnc hw hblocks hm tr trLast h1 h2 hall f hfind hfN hflook hfresh
    ps1 ps2 hfit hgenF hwhole hann hlife


end Flute.Props.C01
