import FluteModel.Lemmas.SchedPaced
/-
  C12 - Transfer lifecycle.  All theorems quantify over every configuration, every FDT table and EVERY
  operation history (add / publish / remove / trigger / read / set_complete with arbitrary times).
  The clauses are judged by the independent per-object monitor `Spec.Lifecycle` run over the trace.
-/
namespace Flute.Props.C12
open Flute.Sched Flute.Spec.Lifecycle

/-- Every event of every history passes the lifecycle checks of every object (see `LM.check`):
    packets only inside Start..Stop, in order and fewer than nPk; unforced transfers end only when complete;
    without carousel no Start once `max(1,max_transfer_count)` transfers are complete; after removal no Start,
    packets only if the object was in transfer, and if it may be stopped at most one more packet, carrying B;
    a later FDT instance lists the object only while it is in the sender. -/
theorem lifecycle_checked (cfg : Cfg) (tbl : List Nat) (ops : List Op) (toi : Nat) :
    Checked toi (trace cfg tbl ops) :=
  (life_run cfg tbl ops).2.checked toi

/-- Exact transfer count, safety half + disappearance: an object without carousel mode never completes more
    than `max(1, max_transfer_count)` transfers, all its unforced completed transfers are whole on the wire, and
    once the count is reached it is gone (`is_added` false; hence not in `nb_objects`, and by
    `lifecycle_checked` not in later FDT instances).
    PARTIAL: the liveness half ("at least": every eligible object eventually gets its transfers when the
    sender is polled) is not proved; it is exercised by the drain phase of the correspondence run. -/
theorem exact_transfer_count_partial (cfg : Cfg) (tbl : List Nat) (ops : List Op) (toi : Nat) (a : AddArgs)
    (ha : (LM.run toi (trace cfg tbl ops)).args = some a) (hc : a.carousel = none) :
    let m := LM.run toi (trace cfg tbl ops)
    m.stops ≤ burst a ∧
    (m.stops = burst a → isAdded (run (init cfg tbl) ops) toi = false) ∧
    (m.removed = none → a.faults = [] →
      m.full = m.stops + (if m.active = true ∧ m.sent = npk a then 1 else 0)) := by
  have hl := (life_run cfg tbl ops).2
  simp only []
  cases hf : getF (run (init cfg tbl) ops).objs toi with
  | none =>
    have := hl.unknown toi hf
    unfold trace at ha; rw [this] at ha; cases ha
  | some f =>
    have r := hl.rel toi f hf
    unfold trace at ha ⊢
    obtain ⟨a', h1, h2, h3, h4, _⟩ := r.args
    rw [ha] at h1; cases h1
    rw [h4] at hc
    obtain ⟨_, c2, c3⟩ := r.count hc
    rw [r.stops, burst_eq h3]
    refine ⟨c2, ?_, ?_⟩
    · intro he
      unfold isAdded
      cases hcont : (run (init cfg tbl) ops).files.contains toi with
      | false => rfl
      | true =>
        have := c3 (Or.inl (by simpa using hcont))
        omega
    · intro hr hfl
      have := r.full (Or.inl hr) (by rw [← r.faults a ha]; exact hfl)
      rw [r.stops, ← r.active, ← npk_eq h2] at this
      exact this

/-- EXACT transfer count, equality (state form), after every operation history: an object without carousel mode that
    has not been removed is gone from the sender (`is_added` false, hence not in `nb_objects`, and by
    `lifecycle_checked` / `later_publications_exclude` in no later FDT instance) IF AND ONLY IF it has completed
    exactly `max(1, max_transfer_count)` transfer ATTEMPTS (StopTransfer events; for a stream source with a fault
    schedule - outside C12's quantifier, observation sched-9 - attempts that failed to start count, so such an object
    can be gone with fewer transfers on the wire; `exact_transfer_count_partial`: never more, and under `a.faults = []`
    the unforced ones are whole on the wire).  What remains is that it does get there:
    `exact_transfer_count_eventually` and the `*_liveness_step_partial` theorems. -/
theorem exact_transfer_count (cfg : Cfg) (tbl : List Nat) (ops : List Op) (toi : Nat) (a : AddArgs)
    (ha : (LM.run toi (trace cfg tbl ops)).args = some a) (hc : a.carousel = none)
    (hr : (LM.run toi (trace cfg tbl ops)).removed = none) :
    isAdded (run (init cfg tbl) ops) toi = false ↔ (LM.run toi (trace cfg tbl ops)).stops = burst a := by
  constructor
  · intro hgone
    have hl := (life_run cfg tbl ops).2
    cases hf : getF (run (init cfg tbl) ops).objs toi with
    | none =>
      have := hl.unknown toi hf
      unfold trace at ha; rw [this] at ha; cases ha
    | some f =>
      have r := hl.rel toi f hf
      unfold trace at ha hr ⊢
      obtain ⟨a', h1, _, h3, h4, _⟩ := r.args
      rw [ha] at h1; cases h1
      have hnf : toi ∉ (run (init cfg tbl) ops).files := by
        unfold isAdded at hgone
        intro hin
        have : (run (init cfg tbl) ops).files.contains toi = true := by simpa using hin
        rw [this] at hgone; cases hgone
      rcases gone_run cfg tbl ops toi f hf (by rw [← h4]; exact hc) hnf with h5 | h5
      · rw [hr] at h5; cases h5
      · rw [r.stops, h5, burst_eq h3]
  · exact (exact_transfer_count_partial cfg tbl ops toi a ha hc).2.1

/-- EVENTUALLY, for a sender whose objects are not paced, polled at ONE instant: let the sender be in any reachable
    state in which no object has a target duration / deadline (`Unpaced.all`: pacing is the only thing that makes the
    sender wait inside an instant), and let object `toi` be without carousel, published
    (FullFDT) and past its start time at `N`, its priority queue configured.  Then among ANY
    `mu N + max(1, max_transfer_count)` consecutive calls `read(N)` (any tick inputs) the object has left the sender
    before one of them (`AllIn`: "in the sender before every call of the sequence and after the last" is false) -
    and by `exact_transfer_count` it then has completed EXACTLY `max(1, max_transfer_count)` transfers.
    Proof: at most `mu` calls return something (`read_terminates`); a call that returns `None` while the object is
    still there finds it in a slot with its transfer finished (it cannot be waiting: `strict_priority`, no gate is
    closed) and releases it, so its transfer counter grows with every such call, and it is bounded by the count.
    PACED objects / several instants: the due instants depend on the per-transfer ticks; for them the liveness is the
    step form below (`exact_transfer_count_liveness_step_partial`). -/
theorem exact_transfer_count_eventually (cfg : Cfg) (tbl : List Nat)
    (hsorted : (cfg.queues.map (fun x => x.1)).Pairwise (fun a b => a < b)) (ops : List Op) (toi N : Nat)
    (f : FileDesc) (hu : Unpaced (run (init cfg tbl) ops) toi N f) (hprio : f.prio ∈ cfg.queues.map (fun x => x.1))
    (tks : List (List (Nat × Nat))) (hlen : mu N tbl (run (init cfg tbl) ops) + burstF f ≤ tks.length) :
    ¬ AllIn toi N (run (init cfg tbl) ops) tks :=
  leaves_within cfg tbl hsorted ops toi N f hu hprio tks hlen

/-- A COUNTING BOUND over several instants, paced peers allowed (trace form of the step theorem) - NOT an "eventually":
    it bounds the number of GOOD polls and is satisfied with zero good polls by a history in which no poll ever returns
    `None` (FDT-only starvation, finding sched-11 / `dur0_advancing_clock_starves`: there the object is never sent and
    this theorem does not say otherwise).  Statement: after every history (buffer sources), let object `toi` be without carousel and
    published (FullFDT), and consider ANY further sequence of polls `rs` - arbitrary instants (they need not even be
    monotone), arbitrary tick inputs, any number of polls per instant.  Call a poll of the sequence GOOD when it
    returns `None` although, at its instant, every pacing gate of the sender is open (`gatesOpen`: the clock has
    passed every `next_transfer_timestamp`) and the object's start time has been reached (`goodNones` counts them).
    Then, as long as the object stays in the sender (`AllInSeq`), fewer than `max(1, max_transfer_count)` good polls
    occur: EVERY good poll finds the object's transfer finished in a slot and releases it (its transfer counter
    grows) - it cannot be waiting (`strict_priority`) nor pacing.  Since polling an instant reaches `None`
    (`read_terminates`), a caller that keeps polling instants past the due times the sender computed makes good polls,
    and after at most `max(1, max_transfer_count)` of them the object has completed all its transfers and is gone
    (`exact_transfer_count`) - that step from the polling discipline to "good polls occur" is prose, not composed here
    (a drained instant whose gates have all been passed ends with a good poll; a paced packet sent at that instant moves
    its gate beyond it, so the instant's last poll is then not good although progress was made).  Paced PEERS are
    covered: a gate that is still closed at a `None` poll simply makes that poll not good; `gatesOpen` asks it of EVERY
    object of the sender, so one paced carousel peer with a long tick makes few polls good. -/
theorem exact_transfer_count_good_polls_bound (cfg : Cfg) (tbl : List Nat)
    (hsorted : (cfg.queues.map (fun x => x.1)).Pairwise (fun a b => a < b)) (ops : List Op) (toi : Nat) (f : FileDesc)
    (hu : Tracked (run (init cfg tbl) ops) toi f) (hprio : f.prio ∈ cfg.queues.map (fun x => x.1))
    (rs : List (Nat × List (Nat × Nat))) (hall : AllInSeq toi (run (init cfg tbl) ops) rs) :
    goodNones f (run (init cfg tbl) ops) rs < burstF f :=
  good_nones_bounded cfg tbl hsorted ops toi f hu hprio rs hall

/-- Liveness step for `exact_transfer_count_partial` (the "at least" half, contrapositive form), after every
    operation history: if an object WITHOUT carousel is still in the sender and `read(now)` returns `None`, then the
    object is held back for one of these explicit reasons, each of which is lifted by the caller or by the clock:
    (waiting) it is not published yet (FullFDT: the caller must `publish`), or its start time is in the future, or
      every slot of its priority queue holds a transfer whose pacing gate is closed at `now` (finding F23; a slot
      holding a FINISHED transfer does not block: the poll releases it and starts the waiting object at once);
    (in transfer) its pacing gate is closed (next packet due after `now`), or the transfer is finished (stopped /
      all packets sent) and this very call releases it (`StopTransfer`, requeue or disappearance).
    Together with `read_terminates` (at one instant only `mu` calls return something): polling an instant until
    `None` sends everything that can go out at that instant; polling instants past the start times and the due
    times the sender itself computed completes every transfer.  The boundary of the polling hypothesis is the
    reviewer's starvation: ONE call per instant with instants `fdt_duration` apart is not "until `None`" - every
    call then returns a packet of a freshly republished FDT instance and the object never starts (`slowPoll`
    below; six calls at one instant complete the transfer).
    PARTIAL: the "eventually" statement itself (an induction over a polling schedule whose due instants depend
    on the per-transfer ticks) is not formalised; the drain phase of the correspondence run exercises it. -/
theorem exact_transfer_count_liveness_step_partial (cfg : Cfg) (tbl : List Nat) (ops : List Op) (now : Nat)
    (ticks : List (Nat × Nat)) (hsorted : (cfg.queues.map (fun x => x.1)).Pairwise (fun a b => a < b))
    (toi : Nat) (f : FileDesc) (hadded : isAdded (run (init cfg tbl) ops) toi = true)
    (hf : getF (run (init cfg tbl) ops).objs toi = some f) (hcar : f.carousel = none)
    (hnone : (read (run (init cfg tbl) ops) now ticks).2 = Out.none)
    (hnf : QueueFaultFree (run (init cfg tbl) ops) f.prio) :
    (toi ∈ (run (init cfg tbl) ops).queue ∧
      (((run (init cfg tbl) ops).cfg.mode = .full ∧ f.published = false) ∨
       (∃ st, f.info.startTime = some st ∧ now < st) ∨
       (∀ q ∈ (run (init cfg tbl) ops).sessions, q.prio = f.prio → ∀ (j : Nat) (curj : Option Cur),
          q.slots[j]? = some curj →
          ∃ c g, curj = some c ∧ getF (run (init cfg tbl) ops).objs c.key = some g ∧ gateBlocked g now = true))) ∨
    (∃ pc ∈ heldOf (run (init cfg tbl) ops), pc.2.key = toi ∧
      (gateBlocked f now = true ∨ pc.2.enc.stopped = true ∨ f.nPk ≤ pc.2.enc.sent)) := by
  have hl := (life_run cfg tbl ops).2
  have hw := wf_run cfg tbl ops
  have hin : toi ∈ (run (init cfg tbl) ops).files := by unfold isAdded at hadded; simpa using hadded
  rcases ((hl.rel toi f hf).inFiles hin).2 with hq | htr
  · left
    refine ⟨hq, ?_⟩
    by_cases hp : (run (init cfg tbl) ops).cfg.mode = .full ∧ f.published = false
    · exact Or.inl hp
    · by_cases hs : ∃ st, f.info.startTime = some st ∧ now < st
      · exact Or.inr (Or.inl hs)
      · refine Or.inr (Or.inr (idle_waiting cfg tbl ops now ticks hsorted hnone toi f hq hf (Or.inr (by unfold gapElapsed; rw [hcar])) ?_ ?_
          hnf))
        · intro hm
          cases hpb : f.published with
          | true => rfl
          | false => exact absurd ⟨hm, hpb⟩ hp
        · intro st hst
          rcases Nat.lt_or_ge now st with h | h
          · exact absurd ⟨st, hst, h⟩ hs
          · exact h
  · right
    obtain ⟨pc, hpc, hk⟩ := hw.transHeld f (getF_mem hf) htr
    have hk' : pc.2.key = toi := by rw [hk]; exact getF_key hf
    exact ⟨pc, hpc, hk', idle_held cfg tbl ops now ticks hnone pc hpc f (by rw [hk']; exact hf)⟩

/-- Every StartTransfer has its StopTransfer (oracle class `C12:start-without-stop` as a theorem) - for buffer sources
    AND for stream sources whose transfer attempts fail to start (`AddArgs.faults`: the rewind fails ->
    `BlockEncoder::new` fails -> `get_next` releases the file at once; or the first read fails -> the encoder yields
    nothing, the file is released and the call gives the hand back, /repo a00f689): after every operation history the
    StartTransfer and StopTransfer events of an object alternate, beginning with a Start - #Starts = #Stops, plus one
    exactly when the object is in transfer (`is_transferring`) in the final state.  The lifecycle monitor accepts a
    Stop without packets only for an attempt that the fault schedule of the source marks as failing
    (`LM.check`, third alternative); the `faultmodel-*` cases and the random faulty objects are compared with this model
    on the input domain `FaultDomain` (Lemmas/SchedMono.lean: a first-read failure only for a non-empty object - for
    an empty one the real attempt succeeds; the theorem itself is about the model and holds for every schedule). -/
theorem every_start_has_stop (cfg : Cfg) (tbl : List Nat) (ops : List Op) (toi : Nat) :
    (LM.run toi (trace cfg tbl ops)).starts =
      (LM.run toi (trace cfg tbl ops)).stops + (if isTransferring (run (init cfg tbl) ops) toi = true then 1 else 0) := by
  have hl := (life_run cfg tbl ops).2
  have h := starts_stops_of_checked toi _ (lifecycle_checked cfg tbl ops toi)
  have hact : (LM.run toi (trace cfg tbl ops)).active = isTransferring (run (init cfg tbl) ops) toi := by
    unfold isTransferring
    cases hf : getF (run (init cfg tbl) ops).objs toi with
    | none =>
      have := hl.unknown toi hf
      unfold trace; rw [this]
    | some f =>
      have := (hl.rel toi f hf).active
      unfold trace; rw [this]
  rw [hact] at h
  exact h

/-- A carousel object stays in the sender - waiting for its next transfer or in transfer - until it is removed. -/
theorem carousel_until_removed (cfg : Cfg) (tbl : List Nat) (ops : List Op) (toi : Nat) (a : AddArgs)
    (ha : (LM.run toi (trace cfg tbl ops)).args = some a) (hc : a.carousel.isSome = true)
    (hr : (LM.run toi (trace cfg tbl ops)).removed = none) :
    isAdded (run (init cfg tbl) ops) toi = true ∧
    (toi ∈ (run (init cfg tbl) ops).queue ∨ isTransferring (run (init cfg tbl) ops) toi = true) := by
  have hl := (life_run cfg tbl ops).2
  cases hf : getF (run (init cfg tbl) ops).objs toi with
  | none =>
    have := hl.unknown toi hf
    unfold trace at ha; rw [this] at ha; cases ha
  | some f =>
    have r := hl.rel toi f hf
    unfold trace at ha hr
    obtain ⟨a', h1, _, _, h4, _⟩ := r.args
    rw [ha] at h1; cases h1
    rw [h4] at hc
    have hin : toi ∈ (run (init cfg tbl) ops).files := by
      rcases r.carousel hc with h | h
      · exact h
      · rw [hr] at h; cases h
    refine ⟨by unfold isAdded; simpa using hin, ?_⟩
    rcases (r.inFiles hin).2 with h | h
    · exact Or.inl h
    · right; unfold isTransferring; rw [hf]; exact h

/-- A carousel object IS retransmitted (`carousel_until_removed`, liveness; equally: any waiting object gets its next
    transfer): for a sender whose objects are not paced, let object `toi` be WAITING in any
    reachable state, published (FullFDT), past its start time at `N`, its queue configured, and allowed to transfer
    at `N` by `should_transfer_now` (`max_transfer_count > transfer_count`, or the carousel gap test passes:
    `now - previous end > delay` resp. `now - previous start > interval`).  Then in ANY `mu N + 1` consecutive calls
    `read(N)` one of the calls appends a StartTransfer of `toi` to the trace (`CleanSeq`: "no call of the sequence
    appends a StartTransfer / removal / trigger of `toi`" is false - and the sequence consists of reads only, which
    neither remove nor trigger).  Applied again and again - after each transfer the object waits again
    (`carousel_until_removed`), and the gap test passes once the caller polls an instant past the gap - it gives the
    k-th transfer start for every k as long as the object is not removed.  (The induction over k and the instants
    is not stated; PACED senders: step form `carousel_liveness_step_partial`.) -/
theorem waiting_object_starts (cfg : Cfg) (tbl : List Nat)
    (hsorted : (cfg.queues.map (fun x => x.1)).Pairwise (fun a b => a < b)) (ops : List Op) (toi N : Nat)
    (f : FileDesc) (he : WaitsEligible (run (init cfg tbl) ops) toi N f)
    (hprio : f.prio ∈ cfg.queues.map (fun x => x.1))
    (tks : List (List (Nat × Nat))) (hlen : mu N tbl (run (init cfg tbl) ops) + 1 ≤ tks.length) :
    ¬ CleanSeq toi N (run (init cfg tbl) ops) tks :=
  starts_within cfg tbl hsorted ops toi N f he hprio tks hlen

/-- Liveness step for `carousel_until_removed` ("is retransmitted"): if a carousel object is still in the sender and
    `read(now)` returns `None`, the object waits for an explicit reason: not published (FullFDT), start time in the
    future, its burst of `max_transfer_count` transfers is complete and the carousel gap has not elapsed yet
    (`gapElapsed = false`: `now - previous end ≤ delay` resp. `now - previous start ≤ interval`), every slot of its
    queue held by a pacing transfer (gate closed) - or it is in transfer with a closed pacing gate / a finished transfer that this call releases.
    So a carousel object that is polled (until `None`) past the gap starts its next transfer; for every k there is
    a k-th start as long as it is not removed.  PARTIAL: the induction over k / the polling schedule is not
    formalised. -/
theorem carousel_liveness_step_partial (cfg : Cfg) (tbl : List Nat) (ops : List Op) (now : Nat)
    (ticks : List (Nat × Nat)) (hsorted : (cfg.queues.map (fun x => x.1)).Pairwise (fun a b => a < b))
    (toi : Nat) (f : FileDesc) (hadded : isAdded (run (init cfg tbl) ops) toi = true)
    (hf : getF (run (init cfg tbl) ops).objs toi = some f)
    (hnone : (read (run (init cfg tbl) ops) now ticks).2 = Out.none)
    (hnf : QueueFaultFree (run (init cfg tbl) ops) f.prio) :
    (toi ∈ (run (init cfg tbl) ops).queue ∧
      (((run (init cfg tbl) ops).cfg.mode = .full ∧ f.published = false) ∨
       (∃ st, f.info.startTime = some st ∧ now < st) ∨
       (f.maxCount ≤ f.info.count ∧ gapElapsed f now = false) ∨
       (∀ q ∈ (run (init cfg tbl) ops).sessions, q.prio = f.prio → ∀ (j : Nat) (curj : Option Cur),
          q.slots[j]? = some curj →
          ∃ c g, curj = some c ∧ getF (run (init cfg tbl) ops).objs c.key = some g ∧ gateBlocked g now = true))) ∨
    (∃ pc ∈ heldOf (run (init cfg tbl) ops), pc.2.key = toi ∧
      (gateBlocked f now = true ∨ pc.2.enc.stopped = true ∨ f.nPk ≤ pc.2.enc.sent)) := by
  have hl := (life_run cfg tbl ops).2
  have hw := wf_run cfg tbl ops
  have hin : toi ∈ (run (init cfg tbl) ops).files := by unfold isAdded at hadded; simpa using hadded
  rcases ((hl.rel toi f hf).inFiles hin).2 with hq | htr
  · left
    refine ⟨hq, ?_⟩
    by_cases hp : (run (init cfg tbl) ops).cfg.mode = .full ∧ f.published = false
    · exact Or.inl hp
    · by_cases hs : ∃ st, f.info.startTime = some st ∧ now < st
      · exact Or.inr (Or.inl hs)
      · by_cases hgap : f.maxCount ≤ f.info.count ∧ gapElapsed f now = false
        · exact Or.inr (Or.inr (Or.inl hgap))
        · refine Or.inr (Or.inr (Or.inr (idle_waiting cfg tbl ops now ticks hsorted hnone toi f hq hf ?_ ?_ ?_
            hnf)))
          · rcases Nat.lt_or_ge f.info.count f.maxCount with h | h
            · exact Or.inl h
            · right
              cases hg : gapElapsed f now with
              | true => rfl
              | false => exact absurd ⟨h, hg⟩ hgap
          · intro hm
            cases hpb : f.published with
            | true => rfl
            | false => exact absurd ⟨hm, hpb⟩ hp
          · intro st hst
            rcases Nat.lt_or_ge now st with h | h
            · exact absurd ⟨st, hst, h⟩ hs
            · exact h
  · right
    obtain ⟨pc, hpc, hk⟩ := hw.transHeld f (getF_mem hf) htr
    have hk' : pc.2.key = toi := by rw [hk]; exact getF_key hf
    exact ⟨pc, hpc, hk', idle_held cfg tbl ops now ticks hnone pc hpc f (by rw [hk']; exact hf)⟩

/-- `nb_transfers` = number of completed transfers (StopTransfer events) of the object, every one of them
    whole on the wire; the wire is ahead by exactly the one transfer whose last packet is out but whose
    completion has not been polled yet. -/
theorem nb_transfers_eq_wire (cfg : Cfg) (tbl : List Nat) (ops : List Op) (toi n : Nat)
    (h : nbTransfers (run (init cfg tbl) ops) toi = some n) :
    let m := LM.run toi (trace cfg tbl ops)
    n = m.stops ∧ m.removed = none ∧
    ∃ a, m.args = some a ∧
      (a.faults = [] → m.full = m.stops + (if m.active = true ∧ m.sent = npk a then 1 else 0)) := by
  have hl := (life_run cfg tbl ops).2
  simp only []
  unfold nbTransfers at h
  split at h
  · rename_i hcont
    have hin : toi ∈ (run (init cfg tbl) ops).files := by simpa using hcont
    cases hf : getF (run (init cfg tbl) ops).objs toi with
    | none => rw [hf] at h; cases h
    | some f =>
      rw [hf] at h
      simp only [Option.map_some, Option.some.injEq] at h
      have r := hl.rel toi f hf
      unfold trace
      obtain ⟨a, h1, h2, _, _, _⟩ := r.args
      have hr := (r.inFiles hin).1
      refine ⟨by rw [r.stops]; exact h.symm, hr, a, h1, ?_⟩
      intro hfl
      have := r.full (Or.inl hr) (by rw [← r.faults a h1]; exact hfl)
      rw [← r.active, ← npk_eq h2] at this
      exact this
  · cases h

/-- Removal semantics, read off the trace: let the object have been removed somewhere in the past of event `e`,
    `wa` = it was in transfer at that moment, `st` = it had been fully sent before or immediate stop is allowed.
    Then `e` is not a Start of it; a packet of it implies `wa`, and if `st` it is the first packet since the
    removal and carries B (so at most one); an unforced Stop (`st = false`) closes a complete transfer. -/
theorem remove_semantics (cfg : Cfg) (tbl : List Nat) (ops : List Op) (toi : Nat)
    (post pre : List Ev) (e : Ev) (hs : trace cfg tbl ops = post ++ e :: pre) (wa st : Bool)
    (hr : (LM.run toi pre).removed = some (wa, st)) :
    (∀ now s' tk, e ≠ Ev.start now toi s' tk) ∧
    (∀ now p idx b, e = Ev.pkt now p toi idx b → wa = true ∧ (st = true → (LM.run toi pre).after = 0 ∧ b = true)) ∧
    (∀ now, e = Ev.stop now toi → st = false → ∃ a, (LM.run toi pre).args = some a ∧
      ((LM.run toi pre).sent = npk a ∨
       ((LM.run toi pre).sent = 0 ∧ (a.faults[(LM.run toi pre).stops]?).isSome = true))) := by
  have hc := checked_at post e pre (hs ▸ lifecycle_checked cfg tbl ops toi)
  refine ⟨?_, ?_, ?_⟩
  · intro now s' tk he
    subst he
    have := (hc rfl).2.1
    rw [hr] at this; cases this
  · intro now p idx b he
    subst he
    exact (hc rfl).2.2.2 wa st hr
  · intro now he hst
    subst he
    obtain ⟨_, a, h1, h2⟩ := hc rfl
    refine ⟨a, h1, ?_⟩
    rcases h2 with h2 | h2 | h2
    · exact Or.inl h2
    · rw [hr] at h2; simp only [Option.some.injEq, Prod.mk.injEq] at h2; rw [hst] at h2; cases h2.2
    · exact Or.inr h2

/-- Once no object remains (`nb_objects = 0` and no slot holds a transfer - a removed object may still be
    finishing one) `read` returns nothing or FDT packets only, and the sender stays in that condition. -/
theorem only_fdt_when_empty (cfg : Cfg) (tbl : List Nat) (ops : List Op) (now : Nat) (ticks : List (Nat × Nat))
    (h0 : nbObjects (run (init cfg tbl) ops) = 0) (hh : heldOf (run (init cfg tbl) ops) = []) :
    (∀ p t i b, (read (run (init cfg tbl) ops) now ticks).2 ≠ Out.pkt p t i b) ∧
    nbObjects (read (run (init cfg tbl) ops) now ticks).1 = 0 ∧
    heldOf (read (run (init cfg tbl) ops) now ticks).1 = [] := by
  have hw := wf_run cfg tbl ops
  generalize run (init cfg tbl) ops = s at *
  have hf : s.files = [] := List.eq_nil_of_length_eq_zero h0
  have hq : s.queue = [] := by
    cases hql : s.queue with
    | nil => rfl
    | cons t r =>
      have := hw.queueFiles t (by rw [hql]; simp)
      rw [hf] at this; cases this
  obtain ⟨h1, _, h3, h4⟩ := read_idle s now ticks hq (allNone_of_held_nil _ hh)
  refine ⟨h1, ?_, held_nil_of_allNone _ h4⟩
  unfold nbObjects; rw [h3, hf]; rfl

/-- ... and this holds for every further operation except `add_object`: over a whole suffix `ops'` of operations
    (publish / remove / trigger / set_complete / read, any times) executed after the sender became empty, no `read`
    returns an object packet.  (`heldOf = []` - no slot holds a transfer - is needed: right after `remove_object`
    of an object in transfer `nb_objects` is 0 while that transfer still finishes, cf. `remove_semantics`.) -/
theorem only_fdt_when_empty_ever (cfg : Cfg) (tbl : List Nat) (ops ops' : List Op)
    (h0 : nbObjects (run (init cfg tbl) ops) = 0) (hh : heldOf (run (init cfg tbl) ops) = [])
    (hna : ∀ op ∈ ops', notAdd op) (pre post : List Op) (now : Nat) (ticks : List (Nat × Nat))
    (hs : ops' = pre ++ Op.read now ticks :: post) :
    ∀ p t i b, (read (run (run (init cfg tbl) ops) pre) now ticks).2 ≠ Out.pkt p t i b := by
  have hw := wf_run cfg tbl ops
  generalize run (init cfg tbl) ops = s at *
  have hf : s.files = [] := List.eq_nil_of_length_eq_zero h0
  have hq : s.queue = [] := by
    cases hql : s.queue with
    | nil => rfl
    | cons t r =>
      have := hw.queueFiles t (by rw [hql]; simp)
      rw [hf] at this; cases this
  exact (idle_run ops' s ⟨hf, hq, allNone_of_held_nil _ hh⟩ hna).2 pre now ticks post hs

/-- a removed or finished object is not listed by any LATER PUBLICATION (FDT instance created afterwards): a
    publication that lists `toi` implies the object is still in the sender (not removed, count not reached).
    Reading of "later FDTs": instances published later.  The instance published BEFORE keeps being repeated by the
    FDT carousel with its old content until the next publication (in FullFDT mode the application decides when to
    publish; `fdt.rs transfer_done` deliberately does not republish: `//self.publish(now).ok()`). -/
theorem later_publications_exclude (cfg : Cfg) (tbl : List Nat) (ops : List Op) (toi : Nat)
    (post pre : List Ev) (now k : Nat) (files : List Nat)
    (hs : trace cfg tbl ops = post ++ Ev.pub now k files :: pre) (hin : toi ∈ files) :
    (LM.run toi pre).removed = none ∧
    ∃ a, (LM.run toi pre).args = some a ∧ (a.carousel = none → (LM.run toi pre).stops < burst a) := by
  have h := checked_at post (Ev.pub now k files) pre (hs ▸ lifecycle_checked cfg tbl ops toi)
  exact h hin

/-- Reads terminate, with an explicit decreasing measure.  For EVERY `fdt_duration` (also 0: since the repair of F24
    `current_fdt_will_expire` does not republish at the very instant of a publication), after EVERY operation history and
    for EVERY sequence of reads at one fixed instant `N` (any tick tables), the number of reads that return something
    (object or FDT packet) is at most `mu N tbl s` (`Lemmas/SchedMeasure*.lean`):
      `phiA` = per object in a slot: packets left in its transfer + `nPk` x the transfers it can still start at `N`
               once that one is done; per waiting object: `nPk` x the transfers it can start at `N`
               (no carousel: `max(1,max_transfer_count) - total`; carousel: the rest of the round, or one new round
               if the gap test passes at `N`; after a transfer AT `N` the gap test fails: `now - N > d` is false);
      `phiB` = packets left in the FDT transfer in progress + transfers the current instance can start at `N` + one
               transfer per queued instance + one per instance that can still be published at `N` (one republication
               at expiry - afterwards `last_publish = N` -, one per object transfer start in ObjectsBeingTransferred mode).
    Proof: `phiA + #object packets` and `phiB + #FDT packets` are invariant upper bounds along reads at `N`
    (every primitive transition of `read` shown once), and every non-empty `read` appends exactly one packet entry
    (`read_returns_newest_entry`). -/
theorem read_terminates (cfg : Cfg) (tbl : List Nat) (ops : List Op) (N : Nat)
    (tks : List (List (Nat × Nat))) :
    busyReads N (run (init cfg tbl) ops) tks ≤ mu N tbl (run (init cfg tbl) ops) :=
  busy_reads_bounded cfg tbl ops N tks

/-- ... hence: polling at a fixed instant, `None` is returned after at most `mu` packets -/
theorem read_returns_none_within_mu (cfg : Cfg) (tbl : List Nat) (ops : List Op) (N : Nat)
    (tk : List (Nat × Nat)) :
    ∃ k, k ≤ mu N tbl (run (init cfg tbl) ops) ∧ (reads (run (init cfg tbl) ops) N tk (k + 1)).2 = Out.none :=
  reads_reach_none cfg tbl ops N tk

/-- per call: the two `loop`s of `SenderSession::run` need at most two iterations; the model's fuel of 4 is never
    exhausted - for EVERY state, reachable or not -/
theorem read_never_hangs (s : State) (now : Nat) (ticks : List (Nat × Nat)) :
    (read s now ticks).2 ≠ Out.hang :=
  read_no_hang s now ticks

/-- The boundary of the polling hypothesis of the liveness statements, in general form (the reviewer's starvation):
    after EVERY history, a `read(now)` made when the expiry test of `current_fdt_will_expire` holds for the time since
    the last publication (`Expired`: `fdt_duration ≤ now - last_publish` for durations up to 10 s; 1 s resp. 5 s
    earlier for longer ones; always, if nothing was published yet) returns a packet of an FDT instance - a fresh one
    is published if none is pending - and never an object packet.  A caller that polls ONCE per instant, with
    instants at least `fdt_duration` apart, makes every call under this condition: the objects are never started
    (`slowPoll` below: `fdt_duration` = 1 s, one call per second, zero StartTransfer; six calls at ONE instant
    complete the transfer).  "Polled until `None`" in the liveness statements is therefore necessary.
    (`Expired` includes: not at the very instant of the last publication - there the repaired code does not
    republish, which is what makes `read` terminate for `fdt_duration = 0`, former finding F24.) -/
theorem poll_at_fdt_expiry_returns_fdt (cfg : Cfg) (tbl : List Nat) (ops : List Op) (hfit : cfg.fdtFits = true)
    (now : Nat) (ticks : List (Nat × Nat)) (hexp : Expired cfg (run (init cfg tbl) ops).lastPublish now) :
    ∃ k id i, (read (run (init cfg tbl) ops) now ticks).2 = Out.fdt k id i :=
  read_expired cfg tbl ops hfit now ticks hexp

/-- FDT-only starvation under real-time polling (finding sched-11), the per-call statement: after every history, a
    `read(now)` returns an FDT packet - never an object packet - (1) while the FDT session holds an unfinished
    transfer (its next packet), and (2) when the expiry test holds (`poll_at_fdt_expiry_returns_fdt`: a fresh instance
    is published).  So when one instance has `n` packets and the application polls every `step`, with
    `n * step ≥ fdt_duration - lead`: every call falls under (1) or (2) - during the `n` calls that send the instance
    it is (1), and when its last packet is out `fdt_duration - lead` has elapsed since its publication: (2), a
    successor is published, (1) again ... the objects never get a packet (generated: family `fdtstarve-*`;
    `slowPoll` is the case `n = 1`). -/
theorem fdt_first_while_busy_or_expired (cfg : Cfg) (tbl : List Nat) (ops : List Op) (hfit : cfg.fdtFits = true)
    (now : Nat) (ticks : List (Nat × Nat))
    (h : (∃ c f, (run (init cfg tbl) ops).fdtSess = some c ∧ getF (run (init cfg tbl) ops).fdts c.key = some f ∧
            c.enc.sent < f.nPk) ∨
         Expired cfg (run (init cfg tbl) ops).lastPublish now) :
    ∃ k id i, (read (run (init cfg tbl) ops) now ticks).2 = Out.fdt k id i := by
  rcases h with ⟨c, f, h1, h2, h3⟩ | h
  · exact read_fdt_busy cfg tbl ops now ticks c f h1 h2 h3
  · exact read_expired cfg tbl ops hfit now ticks h

/-! non-vacuity: a 3-packet object sent twice, removed during the second transfer: one more packet with B -/
def cfg1 : Cfg := { mode := .full, fdtCarousel := .delay 1000, fdtDuration := 3600000000000, fdtStartId := 1, queues := [(0, 1)] }
def obj3 : AddArgs := { prio := 0, nSym := 3, maxCount := 2, carousel := none, start := none, target := none, allowStop := false }
def hist : List Op :=
  [.add obj3, .publish 5, .read 5 [], .read 5 [], .read 5 [], .read 5 [], .read 5 [], .remove 1, .read 5 [], .read 5 []]

example : (LM.run 1 (trace cfg1 [1] hist)).removed = some (true, true) := by decide
example : Ev.pkt 5 0 1 1 true ∈ trace cfg1 [1] hist := by decide
example : (LM.run 1 (trace cfg1 [1] hist)).stops = 2 ∧ (LM.run 1 (trace cfg1 [1] hist)).full = 1 := by decide
example : nbTransfers (run (init cfg1 [1]) (hist.take 7)) 1 = some 1 := by decide
example : (LM.run 1 (trace cfg1 [1] (hist.take 6))).full = 1 ∧ nbTransfers (run (init cfg1 [1]) (hist.take 6)) 1 = some 0 := by
  decide

example : nbObjects (run (init cfg1 [1]) hist) = 0 ∧ heldOf (run (init cfg1 [1]) hist) = [] := by decide

/-! liveness needs a polling hypothesis: with `fdt_duration = 1 s` and exactly ONE `read` per second every poll finds
    the FDT expired, republishes and returns the new FDT packet - the published object is never started.
    (The application is expected to poll until `None`; then the FDT session answers `None` after its packet and the
    object goes out: second example.)  This is why `exact_transfer_count` is proved as safety + disappearance only. -/
def cfgS : Cfg := { mode := .full, fdtCarousel := .delay 1000, fdtDuration := 1000000000, fdtStartId := 1, queues := [(0, 1)] }
def obj1 : AddArgs := { prio := 0, nSym := 1, maxCount := 1, carousel := none, start := none, target := none, allowStop := false }
def slowPoll : List Op := [.add obj1, .publish 0] ++ (List.range 6).map (fun i => Op.read ((i + 1) * 1000000000) [])

example : (LM.run 1 (trace cfgS [] slowPoll)).starts = 0 := by decide

set_option maxRecDepth 20000 in
/-- **F24 is repaired for ONE instant only**: `fdt_duration = 0` with an ADVANCING clock (one read per nanosecond, 24
    reads after the publication) still never starts the object - every poll finds the current instance expired
    (`0 ≤ elapsed`, `last_publish ≠ now`) and republishes: the instance of finding sched-11 with threshold 0.  At one
    fixed instant the same history sends the object (`read_terminates`, repair 78a5fe7). -/
theorem dur0_advancing_clock_starves :
    (LM.run 1 (trace { cfgS with fdtDuration := 0 } []
      ([.add obj1, .publish 7] ++ (List.range 24).map (fun i => Op.read (8 + i) [])))).starts = 0 ∧
    (LM.run 1 (trace { cfgS with fdtDuration := 0 } []
      ([.add obj1, .publish 7] ++ List.replicate 12 (Op.read 7 [])))).stops = 1 := by
  constructor <;> decide

set_option maxRecDepth 20000 in
/-- **sched-11 beyond n = 1**: 3-packet FDT instances, `fdt_duration` = 1 s, one read every 0.34 s (3 × 0.34 s ≥ 1 s):
    over 24 reads (8 instances) no transfer ever starts; one read every 0.30 s (3 × 0.30 s < 1 s): the object is sent. -/
theorem slow_poll_three_packet_instances_starve :
    (LM.run 1 (trace cfgS (List.replicate 40 3)
      ([.add obj1, .publish 0] ++ (List.range 24).map (fun i => Op.read ((i + 1) * 340000000) [])))).starts = 0 ∧
    (LM.run 1 (trace cfgS (List.replicate 40 3)
      ([.add obj1, .publish 0] ++ (List.range 24).map (fun i => Op.read ((i + 1) * 300000000) [])))).stops = 1 := by
  constructor <;> decide
example : (LM.run 1 (trace cfgS [] ([.add obj1, .publish 0] ++ (List.replicate 6 (Op.read 1000000000 []))))).stops = 1 := by
  decide

/-! the measure on a concrete state: one 3-packet object waiting (max_transfer_count 2), one FDT instance queued -/
example : mu 5 [1] (run (init cfg1 [1]) [.add obj3, .publish 5]) = 3 * 2 + 1 + (1 + 1) := by decide

/-- non-vacuity of `poll_at_fdt_expiry_returns_fdt`: in `slowPoll` the third call (t = 3 s, last publication at 2 s,
    `fdt_duration` = 1 s) is made under `Expired` -/
example : Expired cfgS (run (init cfgS []) (slowPoll.take 4)).lastPublish 3000000000 := by
  intro lp h
  have : (run (init cfgS []) (slowPoll.take 4)).lastPublish = some 2000000000 := by decide
  rw [this] at h; cases h
  exact ⟨by decide, by decide⟩

/-- non-vacuity of `exact_transfer_count_eventually`: the hypotheses hold for `obj3` (3 packets, 2 transfers) after
    add + publish; `mu` = 9 there (example above), so the object is gone within 11 calls - in fact after 9 -/
example : ∃ f, Unpaced (run (init cfg1 [1]) [.add obj3, .publish 5]) 1 5 f ∧ f.prio ∈ cfg1.queues.map (fun x => x.1) := by
  have hobj : ∃ f, getF (run (init cfg1 [1]) [.add obj3, .publish 5]).objs 1 = some f ∧ f.carousel = none ∧
      f.published = true ∧ f.info.startTime = none ∧ f.prio = 0 := by
    refine ⟨_, rfl, ?_, ?_, ?_, ?_⟩ <;> decide
  obtain ⟨f, h1, h2, h3, h4, h5⟩ := hobj
  have hall : ∀ g ∈ (run (init cfg1 [1]) [.add obj3, .publish 5]).objs, wantsTick g = false := by decide
  exact ⟨f, Unpaced.mk h1 h2 (fun _ => h3) (fun st h => by rw [h4] at h; cases h) (fun k g h => hall g (getF_mem h))
    (faultfree_run cfg1 [1] [.add obj3, .publish 5] (by intro a ha; simp at ha; rw [ha]; rfl)),
    by rw [h5]; decide⟩
example : isAdded (reads (run (init cfg1 [1]) [.add obj3, .publish 5]) 5 [] 9).1 1 = false := by decide

/-- non-vacuity of `waiting_object_starts`: `obj3` after add + publish waits and may transfer at instant 5; the second
    call of a polling sequence appends its StartTransfer -/
example : ∃ f, WaitsEligible (run (init cfg1 [1]) [.add obj3, .publish 5]) 1 5 f ∧ f.prio ∈ cfg1.queues.map (fun x => x.1) := by
  have hobj : ∃ f, getF (run (init cfg1 [1]) [.add obj3, .publish 5]).objs 1 = some f ∧ f.maxCount > f.info.count ∧
      f.published = true ∧ f.info.startTime = none ∧ f.prio = 0 := by
    refine ⟨_, rfl, ?_, ?_, ?_, ?_⟩ <;> decide
  obtain ⟨f, h1, h2, h3, h4, h5⟩ := hobj
  have hall : ∀ g ∈ (run (init cfg1 [1]) [.add obj3, .publish 5]).objs, wantsTick g = false := by decide
  have hq : 1 ∈ (run (init cfg1 [1]) [.add obj3, .publish 5]).queue := by decide
  exact ⟨f, WaitsEligible.mk (And.intro hq (Exists.intro f (And.intro h1 (PView.refl f)))) (Or.inl h2) (fun _ => h3)
    (fun st h => by rw [h4] at h; cases h) (fun k g h => hall g (getF_mem h))
    (faultfree_run cfg1 [1] [.add obj3, .publish 5] (by intro a ha; simp at ha; rw [ha]; rfl)), by rw [h5]; decide⟩
example : (read (read (run (init cfg1 [1]) [.add obj3, .publish 5]) 5 []).1 5 []).1.log.any (badEv2 1) = true := by decide

/-- non-vacuity of `exact_transfer_count_good_polls_bound`: a paced object (3 packets, target 30 ns -> tick 10, 2
    transfers): the poll at instant 75, after the last packet of the second transfer (instant 60, next due time 70),
    is good: gates open, `None`, and it releases the transfer -/
def pacedObj : AddArgs := { prio := 0, nSym := 3, maxCount := 2, carousel := none, start := none, target := some (.dur 30), allowStop := false }
example : ∃ f, getF (run (init cfg1 [1]) [.add pacedObj, .publish 5]).objs 1 = some f ∧
    goodNones f (run (init cfg1 [1]) [.add pacedObj, .publish 5])
      [(5, [(1, 10)]), (5, [(1, 10)]), (15, [(1, 10)]), (25, [(1, 10)]), (40, [(1, 10)]), (50, [(1, 10)]), (60, [(1, 10)]),
       (75, [(1, 10)])] = 1 :=
  ⟨_, rfl, by decide⟩

end Flute.Props.C12
