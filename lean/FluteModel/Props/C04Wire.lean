import FluteModel.Lemmas.Total
import FluteModel.Legacy
/-
  C04 (parser part): no byte string can make the packet parser panic or hang.

  `Out.panic` is the model's rendering of every Rust panic on the parsing path (slice / index out of
  range, checked-arithmetic overflow, shift overflow, `unwrap`, `debug_assert!`) and of a loop running out
  of fuel (`hang`).  The theorems quantify over EVERY datagram `d : List UInt8`.
  They hold for the repaired code (D1 `data[3]` on a 3-byte datagram, D2 RS-GF(2^8) `max_n - B`,
  D34 RS-GF(2^m) shift by `m ≥ 32`): the model mirrors the tree after those `fix:` commits.
-/
namespace Flute.Props.C04.Wire
open Flute Flute.Bytes Flute.Lct Flute.Fti Flute.Alc

/-- the datagram as the model sees it -/
def bytes (d : List UInt8) : List Nat := d.map UInt8.toNat

/-- `parse_lct_header` returns `Ok` or `Err` on every byte string -/
theorem parse_lct_total (d : List UInt8) : (parseLctHeader (bytes d)).isPanic = false :=
  parseLctHeader_total _

/-- `get_ext` after a successful `parse_lct_header`, for every extension type asked for: no panic,
    and the extension walk terminates (the fuel `len - offset` is never exhausted) -/
theorem get_ext_total (d : List UInt8) (l : LctHeader) (het : Nat) (h : parseLctHeader (bytes d) = .ok l) :
    (getExt (bytes d) l het).isPanic = false := by
  rcases parseLctHeader_cases (bytes d) with h' | ⟨l', h', hinv⟩
  · rw [h'] at h; cases h
  · rw [h'] at h; cases h; exact getExt_total _ _ _ hinv

/-- every per-scheme EXT_FTI decoder on every byte string handed to it -/
theorem get_fti_total (fec : Nat) (fti : List UInt8) (hk : knownFec fec = true) :
    (getFtiBytes fec (bytes fti)).isPanic = false :=
  getFtiBytes_total fec _ hk

/-- **parse_total**: `parse_alc_pkt` returns `Ok` or `Err` on every byte string -/
theorem parse_total (d : List UInt8) : (parseAlcPkt (bytes d)).isPanic = false := by
  rcases parseAlcPkt_cases (bytes d) with h | ⟨p, h, _⟩ <;> rw [h] <;> rfl

/-- `get_sender_current_time` on every accepted packet -/
theorem sender_current_time_total (d : List UInt8) (p : AlcPkt) (h : parseAlcPkt (bytes d) = .ok p) :
    (getSenderCurrentTime (bytes d) p).isPanic = false := by
  rcases parseAlcPkt_cases (bytes d) with h' | ⟨p', h', hinv⟩
  · rw [h'] at h; cases h
  · rw [h'] at h; cases h
    exact getSenderCurrentTime_total _ (wf_map_toNat d) _ hinv

/-- `parse_payload_id` on every accepted packet, with EVERY `oti` of a known scheme (in particular
    the one decoded from the packet's own EXT_FTI, or one taken from an FDT: any `m`, any field value) -/
theorem parse_payload_id_total (d : List UInt8) (p : AlcPkt) (oti : Oti) (h : parseAlcPkt (bytes d) = .ok p)
    (hk : knownFec oti.fecId = true) : (parsePayloadId (bytes d) p oti).isPanic = false := by
  rcases parseAlcPkt_cases (bytes d) with h' | ⟨p', h', hinv⟩
  · rw [h'] at h; cases h
  · rw [h'] at h; cases h
    exact getPayloadId_total oti _ _ _ hinv.off_le hinv.pay_le hk

/-- **parse_alc_pkt_offsets_in_range**: for every accepted datagram the four offsets the receiver later slices
    with are ordered and inside the datagram:
    `header_ext_offset ≤ lct.len = data_alc_header_offset ≤ data_payload_offset ≤ data.len()`
    (and the payload-id window is exactly the scheme's payload-id length, the header at least 4 bytes and a
    whole number of words).  Hence `pkt.data[pkt.data_payload_offset..]` and
    `pkt.data[data_alc_header_offset..data_payload_offset]` cannot panic. -/
theorem parse_alc_pkt_offsets_in_range (d : List UInt8) (p : AlcPkt) (h : parseAlcPkt (bytes d) = .ok p) :
    p.lct.headerExtOffset ≤ p.lct.len ∧ p.lct.len = p.alcHeaderOffset ∧
    p.alcHeaderOffset ≤ p.payloadOffset ∧ p.payloadOffset ≤ d.length ∧
    p.payloadOffset = p.alcHeaderOffset + payloadIdLen p.lct.cp ∧
    4 ≤ p.lct.headerExtOffset ∧ p.lct.len % 4 = 0 ∧ knownFec p.lct.cp = true := by
  rcases parseAlcPkt_cases (bytes d) with h' | ⟨p', h', hinv⟩
  · rw [h'] at h; cases h
  · rw [h'] at h; cases h
    have hl : (bytes d).length = d.length := by simp [bytes]
    refine ⟨hinv.hdr.ext_le_len, hinv.alc_eq.symm, hinv.off_le, hl ▸ hinv.pay_le, ?_, hinv.hdr.ext_ge, hinv.hdr.len_mod,
      hinv.known⟩
    rw [hinv.pay_eq, hinv.alc_eq]; omega

/-- the three together, as the receiver calls them -/
theorem wire_total (d : List UInt8) :
    (parseAlcPkt (bytes d)).isPanic = false ∧
    ∀ p, parseAlcPkt (bytes d) = .ok p →
      (getSenderCurrentTime (bytes d) p).isPanic = false ∧
      ∀ oti, knownFec oti.fecId = true → (parsePayloadId (bytes d) p oti).isPanic = false :=
  ⟨parse_total d, fun p h => ⟨sender_current_time_total d p h, fun oti hk => parse_payload_id_total d p oti h hk⟩⟩

/-- D1 witness (pre-repair code): the 3-byte datagram `10 00 00` passed the length check (HDR_LEN = 0) and
    panicked on `data[3]` -/
theorem legacy_parse_panics : (Legacy.parseLctHeaderHead (bytes [0x10, 0, 0])).isPanic = true := by decide

/-- non-vacuity: the D1 witness `[0x10, 0, 0]` is now rejected, a well-formed packet is accepted -/
example : parseAlcPkt (bytes [0x10, 0, 0]) = .err := by decide
example : (parseAlcPkt (bytes [0x10, 0x10, 3, 0, 0, 0, 0, 1, 0, 1, 0, 5, 0, 2, 0, 7])).isOk = true := by decide

end Flute.Props.C04.Wire
