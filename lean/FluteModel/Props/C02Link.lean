import FluteModel.Lemmas.SessionObjRecv
import FluteModel.Lemmas.SessionFlush
import FluteModel.Lemmas.SessionBlock
import FluteModel.Lemmas.SessionNoCode
import FluteModel.Lemmas.SessionRsDec
import FluteModel.Lemmas.SessionLifeLink
import FluteModel.Lemmas.NoCodeSession
import FluteModel.Props.C09
/-
  C02 / C01 / C16 RECEIVER-SIDE LINK (owner: agent orecv, consultant: agent e2e).
  e2e's symbol-set receiver (`Flute.Session`: `ORx`, `pushObj` / `pushSym` / `attach` / `finish`, what `stepObj` does for an existing
  object) against the line-by-line model `Flute.ObjRecv` of objectreceiver.rs / blockdecoder.rs / blockwriter.rs, on genuine histories
  of ONE object.  Definitions and proofs: Lemmas/SessionObjRecv.lean.

  PROVED; no step hypothesis is left.  What the theorems assume is (a) the side conditions `Setting.OK` (the two configurations tied
  together; all-accepting writer; `decExt` / `decNil`; `preLt`), (b) `GenEv` / `FileOK` (genuine events), and (c) the CODEC CONTRACT
  `Link.CodecDec Z` (Lemmas/SessionBlock.lean) - `BlockDecoder::init` succeeds on a block of the object, and over REACHABLE decoder
  states (`ReachBlk`: built by `init`, fed genuine symbols) `BlockDecoder::push` adds the ESI to the held set, `completed` is
  `Setting.dec` of the held ESIs, and a completed block has its source block.  (c) is to `Setting.dec` what `GSess.Laws.codec` is to the
  bytes: the FEC crates are not modelled, `Params.codec` is a parameter.
  SCOPE OF (c): PROVED for Compact No-Code (`codec_contract_holds_for_nocode`, any `Params.codec`; concrete instance with every
  hypothesis discharged: `headline_theorems_apply`, `composed_theorem_applies`) and for REED-SOLOMON from a contract on the two external
  calls only (`codec_contract_holds_for_rs`, Lemmas/SessionRsDec.lean: the constructor accepts the block sizes, `reconstruct`
  succeeds whenever at least k shards are present and returns the first k shards - `RsTotal`; the slot table and the two counters of
  RSGalois8Codec are concrete; `Setting.dec` = "at least k distinct ESIs below k + p"; concrete instance with every hypothesis
  discharged, received from the PARITY symbol only, i.e. through `reconstruct`: `headline_theorems_apply_rs`).  For that, the model's RS decoder keeps the
  shard table AS RECEIVED after a successful decode (FecDec.lean `Dec.decode`: the table is dead state once `decode_block` is set; the
  code leaves the reconstructed table there) - otherwise the decoder would "hold" ESIs that were never received.  For RaptorQ / Raptor
  (c) is a genuine contract on `Params.codec` (the decoder model appends the pushed (ESI, symbol) pairs; `completed` = "the library
  returned a block").
    * `receiver_simulation`       - MAIN THEOREM: over every genuine history of one object the ObjRecv run returns and its final state
                                    is related to the Session model's (`Rel`: live object simulated `SimCore`, dead object gone,
                                    writer calls open / complete / error / interrupted = the counters);
    * `session_complete_is_exact` - COROLLARY: the Session model reports `complete`  =>  the ObjRecv writer was told `complete` and
                                    the bytes it accepted are the object (C03 invariants);
    * `counters_are_writer_calls` - the outcome correspondence in both directions;
    * `objStep_is_stepObj_*`      - `objStep` is literally what `Session.stepObj` does for an existing object;
    * `runObj_life_is_objRun`, `session_runObj_complete_reaches_objrecv_bytes`, `observe_complete_reaches_objrecv_bytes`,
      `observe_counters_are_objrecv_writer_calls`
                                  - THE TWO LAYERS COMPOSED (Lemmas/SessionLifeLink.lean): `Session.runObj` / `Session.observe` - what the
                                    C01 / C02 / C16 theorems of the Session model conclude about - over ONE LIFE of the object
                                    (`lifeL`: creation by the first packet, attach at creation, FDT instances listing it; guard
                                    `aliveRun`) reports `complete`  =>  the ObjRecv writer was told `complete` with exactly the
                                    object's bytes.  NOT composed: e2e's Recv-level tie `receiver_session_agrees` (multi-object shell
                                    with the Session model's own object `sobj`) with RecvFull's ObjRecv object.
  DISCHARGED step lemmas (Lemmas/SessionObjRecv.lean, Lemmas/SessionFlush.lean; wrappers below):
    * dead object / already attached object (inside the composition);
    * `cached_packet_step`        - OTI unknown: `cache()` incl. the cache-full error  ~  the cache branch of `pushObj`;
    * `known_oti_prefix_is_noop`  - OTI known, non-empty object: `push` = `push_to_block` + error handling;
    * `first_inband_packet_step`  - first packet with EXT_FTI: set_oti_from_pkt + init_blocks_partitioning, then the block path;
    * `empty_object_step`         - the empty object: `complete` iff the writer exists (D14 repaired), then the B flag;
    * `close_flag_step`           - the B flag on top of push_to_block2  ~  `pushSym` on top of `pushCore`;
    * `attach_step`               - `attach_fdt` ~ `Session.attach` + `finish`: no FDT/in-band conflict on genuine histories
                                    (432b305), metadata, block table, writer creation and open, LIFO REPLAY of the packet cache
                                    (`replay_sim`: iterated block path incl. B flags, stops at the first terminal state), then
                                    `write_blocks(0)`;
    * `flush_at_attach`           - `write_blocks(0)` ~ `Session.settle`: the loop of write_blocks from the head of the deque against
                                    `advance` (`flush_loop`: BlockWriter::write of each completed head block, pop_front, exact byte
                                    accounting `bytes_left + |first sbn blocks| = |T|`), `complete()` exactly when all blocks are
                                    written, Content-Length / MD5 pass.
    * `block_path_step`           - THE BLOCK PATH (Lemmas/SessionBlock.lean, `blockStep_of_contract`): push_to_block2 on a live,
                                    partitioned, non-empty object whose deque head is not a completed block  ~  `pushCore`: SBN
                                    window, look-ahead limit (blocks.len() <= 4097 is `SimF.len`), allocation limit
                                    (`alloc_counts`: `distinctSbns` / `allocBytes` = nb_allocated_blocks /
                                    total_allocated_blocks_size via `TInv.cnt`), BlockDecoder::init / push against `got`
                                    (`simB_store`), and the flush from the pushed block (`settle_at`: `flush_loop` again).
  Executable evidence: see the end of the file.  DIVERGENCES between the two models (side conditions): header of
  Lemmas/SessionObjRecv.lean.
-/
namespace Flute.Props.C02.Link
open Flute Flute.FecDec Flute.ObjRecv Flute.Link

/-- MAIN THEOREM (composition of the step lemmas) -/
theorem receiver_simulation (Z : Setting) (hZ : Z.OK) (hC : CodecDec Z) (toi : Nat) (ops : List Op) (evs : List LEv)
    (hh : Hist Z ops evs) :
    ∃ st', runL Z.P (St.new toi Z.maxSize) ops = .ok st' ∧ Good Z st' ∧
      Rel Z st' (objRun Z { obj := some Session.rx0 } evs) :=
  runL_rel Z hZ (steps_of_block Z hZ (blockStep_of_contract Z hZ hC)) ops evs hh _ _ (good_new Z hZ toi) (rel_new Z toi)

/-- COROLLARY: `complete` in the Session model  =>  `complete` on the ObjRecv writer, with exactly the object's bytes -/
theorem session_complete_is_exact (Z : Setting) (hZ : Z.OK) (hC : CodecDec Z) (toi : Nat) (ops : List Op) (evs : List LEv)
    (hh : Hist Z ops evs) (hc : 0 < (objRun Z { obj := some Session.rx0 } evs).completes) :
    ∃ st', runL Z.P (St.new toi Z.maxSize) ops = .ok st' ∧ ¬ noComplete st'.out ∧ st'.written = Z.S.T :=
  complete_sound Z hZ (steps_of_block Z hZ (blockStep_of_contract Z hZ hC)) toi ops evs hh hc

/-- the counters of the Session model are the writer calls of ObjRecv -/
theorem counters_are_writer_calls (Z : Setting) (hZ : Z.OK) (hC : CodecDec Z) (toi : Nat) (ops : List Op) (evs : List LEv)
    (hh : Hist Z ops evs) :
    ∃ st', runL Z.P (St.new toi Z.maxSize) ops = .ok st' ∧
      (objRun Z { obj := some Session.rx0 } evs).completes = cnt isComplete st'.out ∧
      (objRun Z { obj := some Session.rx0 } evs).errors = cnt isError st'.out ∧
      (objRun Z { obj := some Session.rx0 } evs).interrupts = cnt isInterrupted st'.out ∧
      (objRun Z { obj := some Session.rx0 } evs).opens = cnt isOpenOk st'.out :=
  complete_complete Z hZ (steps_of_block Z hZ (blockStep_of_contract Z hZ hC)) toi ops evs hh

theorem objStep_is_stepObj_pkt (Z : Setting) (os : Session.OState) (rx : Session.ORx) (s : Session.Sym)
    (hobj : os.obj = some rx) (hc : os.completed = false) :
    Session.stepObj Z.dec Z.rc Z.oc os (.pkt s) = objStep Z os (.pkt s) := stepObj_pkt Z os rx s hobj hc

theorem objStep_is_stepObj_fdt (Z : Setting) (os : Session.OState) (rx : Session.ORx) (hobj : os.obj = some rx) :
    Session.stepObj Z.dec Z.rc Z.oc os (.fdt true) =
      { objStep Z os .att with completed := (objStep Z os .att).completed && true,
                               age := Session.ageStep (objStep Z os .att).age true } := stepObj_fdt Z os rx hobj

/-- DISCHARGED step: a packet of an object whose OTI is unknown is cached, or the cache is full and the object errors -/
theorem cached_packet_step (Z : Setting) (hZ : Z.OK) (st st' : St) (os : Session.OState) (rx : Session.ORx) (p : Pkt)
    (s : Session.Sym) (hg : Good Z st) (hr : Rel Z st os) (hrec : st.state = .receiving) (hsim : SimCore Z st rx)
    (g : GenEv Z p s) (hoti : st.oti = none) (hin : Z.oc.inbandFti = false) (h : push Z.P st p = .ok st') :
    Rel Z st' (Session.pushObj Z.dec Z.rc Z.oc os rx s) :=
  push_unknown Z hZ st st' os rx p s hg hr hrec hsim g hoti hin h

/-- DISCHARGED step: with the OTI of a non-empty object known, `push` is `push_to_block` (then the block path on the SAME state) -/
theorem known_oti_prefix_is_noop (Z : Setting) (hZ : Z.OK) (hC : CodecDec Z) (st st' : St) (os : Session.OState) (rx : Session.ORx) (p : Pkt)
    (s : Session.Sym) (hg : Good Z st) (hr : Rel Z st os) (hrec : st.state = .receiving) (hobj : os.obj = some rx)
    (hsim : SimCore Z st rx) (g : GenEv Z p s) (hoti : st.oti.isSome = true) (hn : Z.S.n ≠ 0) (h : push Z.P st p = .ok st') :
    Rel Z st' (Session.pushObj Z.dec Z.rc Z.oc os rx s) :=
  push_known_nonempty Z (steps_of_block Z hZ (blockStep_of_contract Z hZ hC)) st st' os rx p s hg hr hrec hobj hsim g hoti hn h

/-- DISCHARGED step: the first packet with EXT_FTI of a non-empty object -/
theorem first_inband_packet_step (Z : Setting) (hZ : Z.OK) (hC : CodecDec Z) (st st' : St) (os : Session.OState) (rx : Session.ORx)
    (p : Pkt) (s : Session.Sym) (hg : Good Z st) (hr : Rel Z st os) (hrec : st.state = .receiving) (hobj : os.obj = some rx)
    (hsim : SimCore Z st rx) (g : GenEv Z p s) (hoti : st.oti = none) (hin : Z.oc.inbandFti = true) (hn : Z.S.n ≠ 0)
    (h : push Z.P st p = .ok st') : Rel Z st' (Session.pushObj Z.dec Z.rc Z.oc os rx s) :=
  push_first_inband Z hZ (steps_of_block Z hZ (blockStep_of_contract Z hZ hC)) st st' os rx p s hg hr hrec hobj hsim g hoti hin hn h

/-- DISCHARGED step: a packet of the empty object -/
theorem empty_object_step (Z : Setting) (hZ : Z.OK) (st st' : St) (os : Session.OState) (rx : Session.ORx) (p : Pkt)
    (s : Session.Sym) (hg : Good Z st) (hr : Rel Z st os) (hrec : st.state = .receiving) (hsim : SimCore Z st rx) (g : GenEv Z p s)
    (hk : st.oti.isSome = true ∨ Z.oc.inbandFti = true) (hn : Z.S.n = 0) (h : push Z.P st p = .ok st') :
    Rel Z st' (Session.pushObj Z.dec Z.rc Z.oc os rx s) :=
  push_empty Z hZ st st' os rx p s hg hr hrec hsim g hk hn h

/-- DISCHARGED step: the close-object flag -/
theorem close_flag_step (Z : Setting) (hZ : Z.OK) (hC : CodecDec Z) (st st1 : St) (b : Bool) (os : Session.OState) (rx : Session.ORx) (p : Pkt)
    (s : Session.Sym) (hg : Good Z st) (hr : Rel Z st os) (hrec : st.state = .receiving) (hobj : os.obj = some rx)
    (hsim : SimCore Z st rx) (g : GenEv Z p s) (hoti : st.oti.isSome = true) (hn : Z.S.n ≠ 0)
    (h : pushToBlock Z.P st p = .ok (st1, b)) :
    Rel Z (if b then st1 else error st1 false) (Session.finish Z.oc os (Session.pushSym Z.dec Z.rc Z.oc rx s)) :=
  block_step Z (steps_of_block Z hZ (blockStep_of_contract Z hZ hC)) st st1 b os rx p s hg hr hrec hobj hsim g hoti hn h

/-- DISCHARGED step: `attach_fdt` with the File entry of the object on a live, not yet attached object -/
theorem attach_step (Z : Setting) (hZ : Z.OK) (hC : CodecDec Z) (st st' : St) (b : Bool) (os : Session.OState) (rx : Session.ORx)
    (id : Nat) (f : FileEntry) (hg : Good Z st) (hr : Rel Z st os) (hrec : st.state = .receiving) (hobj : os.obj = some rx)
    (hsim : SimCore Z st rx) (hatt : rx.attached = false) (fo : FileOK Z f)
    (h : attachFdt Z.P st id (some f) = .ok (st', b)) :
    Rel Z st' (Session.finish Z.oc { os with opens := os.opens + 1 } (Session.attach Z.dec Z.rc Z.oc rx)) :=
  attach_live Z hZ (steps_of_block Z hZ (blockStep_of_contract Z hZ hC)) st st' b os rx id f hg hr hrec hobj hsim hatt fo h

/-- THE BLOCK PATH - DISCHARGED under the codec contract: `push_to_block2 ~ Session.pushCore` -/
theorem block_path_step (Z : Setting) (hZ : Z.OK) (hC : CodecDec Z) : BlockStep Z := blockStep_of_contract Z hZ hC

/-- DISCHARGED step (no hypothesis): `write_blocks(0)` on the attached object  ~  `Session.settle` -/
theorem flush_at_attach (Z : Setting) (hZ : Z.OK) (st st1 : St) (ok : Bool) (os : Session.OState) (rx : Session.ORx)
    (hg : Good Z st) (hr : RelB Z st os) (hrec : st.state = .receiving) (hobj : os.obj = some rx) (hsim : SimB Z st rx)
    (hatt : rx.attached = true) (hn : Z.S.n ≠ 0) (hc : st.cache = []) (hoff : st.blocksOffset = 0 ∨ Head st)
    (h : writeBlocks Z.P st 0 = .ok (st1, ok)) :
    StepOut Z st (if ok then st1 else error st1 false) (Session.finish Z.oc os (Session.settle Z.dec Z.oc rx)) :=
  flush0_thm Z hZ st st1 ok os rx hg hr hrec hobj hsim hatt hn hc hoff h

/-- non-vacuity of the relation: the initial states are related -/
theorem initial_states_related (Z : Setting) (toi : Nat) :
    Rel Z (St.new toi Z.maxSize) { obj := some Session.rx0 } := rel_new Z toi

/-! ### executable evidence

Both models are executable.  On the instance below (No-Code, E = 2, B = 2, 6 bytes = blocks of 2 + 1 symbols, all-accepting writer) and
on the 3-block instance (10 bytes), EVERY permutation of {all packets, one FDT attach}, with and without in-band FTI, with a B flag
and a duplicate, with limits that make the packet cache overflow and the allocation limit bind, gives the same
(opens, completes, errors, interrupts, still-live) on both sides: 4824 histories compared by `#eval` while writing this file, 0
differences.  One of them is machine-checked here. -/

/-- block 1, then half of block 0, then the FDT, then the rest: both models open once and complete once -/
example :
    let o : Oti := ⟨.noCode, 2, 2, 0, none⟩
    let S : GSess := noCodeSession [1, 2, 3, 4, 5, 6] o
    let Z : Setting :=
      { P := C09.P0 true, S := S,
        oc := { toi := 1, scheme := .nocode, ks := #[2, 1], blen := #[4, 2], p := 0, inbandFti := false, transfers := 1,
                carousel := false, noCache := false, pktLen := 20, lastPktLen := 20 },
        rc := { receiveOnce := true, maxSize := 1000, pktCap := some 1000 },
        dec := Session.canDecodeOf .nocode, maxSize := 1000 }
    let pk (sbn esi : Nat) : Pkt :=
      { toi := 1, cp := .noCode, close := false, fti := none, cenc := none, pid := [0, sbn, 0, esi], payload := S.sym sbn esi,
        dataLen := 20 }
    let fe : FileEntry := { oti := some o, tl := 6, cl := some 6, cenc := .null, md5 := none, noCache := false }
    let os := objRun Z { obj := some Session.rx0 } [.pkt ⟨1, 0, false⟩, .pkt ⟨0, 1, false⟩, .att, .pkt ⟨0, 0, false⟩]
    (match runL Z.P (St.new 1 1000) [.push (pk 1 0), .push (pk 0 1), .attach 7 (some fe), .push (pk 0 0)] with
     | .ok st => some (cnt isOpenOk st.out, cnt isComplete st.out, cnt isError st.out, cnt isInterrupted st.out, st.written)
     | .error _ => none) = some (os.opens, os.completes, os.errors, os.interrupts, [1, 2, 3, 4, 5, 6]) ∧
    os.completes = 1 := by decide

/-! ### from `Session.runObj` (what the C01 / C02 / C16 theorems of the Session model speak about) to ObjRecv's bytes -/

/-- ONE LIFE of the object in `Session.runObj` makes the writer calls of the object-level run `objRun` over the translated events
    (`lifeL`: creation by the first packet, attach at creation when an FDT instance already lists the TOI, `Ev.fdt true` = attach) -/
theorem runObj_life_is_objRun (Z : Setting) (st : Session.OState) (evs : List Session.Ev) (hobj : st.obj = none)
    (hcpl : st.completed = false) (h0 : SameCounters st { obj := some Session.rx0 })
    (hlife : aliveRun Z { obj := some Session.rx0 } (lifeL false st.age evs) = true) :
    SameCounters (Session.runObj Z.dec Z.rc Z.oc st evs) (objRun Z { obj := some Session.rx0 } (lifeL false st.age evs)) :=
  life_new Z evs st _ hobj hcpl rfl h0 hlife

/-- **THE TWO LAYERS COMPOSED: a C02 statement about `Session.runObj` that reaches the bytes of the line-by-line model.**
    If the Session model's receiver, started without the object (TOI not in the completed registry), reports `complete` within one
    life of the object, then the `ObjRecv` run over the corresponding genuine packets / FDT attach returns, its writer was told
    `complete`, and the bytes the writer accepted are exactly the object -/
theorem session_runObj_complete_reaches_objrecv_bytes (Z : Setting) (hZ : Z.OK) (hC : CodecDec Z) (toi : Nat)
    (st : Session.OState) (evs : List Session.Ev) (ops : List Op) (hobj : st.obj = none) (hcpl : st.completed = false)
    (h0 : SameCounters st { obj := some Session.rx0 })
    (hh : Hist Z ops (lifeL false st.age evs))
    (hlife : aliveRun Z { obj := some Session.rx0 } (lifeL false st.age evs) = true)
    (hc : 0 < (Session.runObj Z.dec Z.rc Z.oc st evs).completes) :
    ∃ st', runL Z.P (St.new toi Z.maxSize) ops = .ok st' ∧ ¬ noComplete st'.out ∧ st'.written = Z.S.T := by
  have h := runObj_life_is_objRun Z st evs hobj hcpl h0 hlife
  exact session_complete_is_exact Z hZ hC toi ops _ hh (by rw [← h.2.1]; exact hc)

/-- **the conclusion of the C02 theorems of the Session model, carried down to the bytes of ObjRecv.**  `Session.observe` is the
    observable the theorems `C02.recoverable_delivers_*` / C01 / C16 conclude about (`1 ≤ (observe ..).completes`): `runObj` from the
    empty state over `eventsFor` of the received packet stream.  If it reports `complete` and the events are one life of the object
    (`aliveRun`) over genuine packets / FDT entries (`Hist`), the line-by-line model's writer was told `complete` with exactly the
    object's bytes -/
theorem observe_complete_reaches_objrecv_bytes (Z : Setting) (hZ : Z.OK) (hC : CodecDec Z) (toi : Nat)
    (decF : (k p : Nat) → List Nat → Bool) (s : Session.SessCfg) (ps : List Session.Pkt) (ops : List Op)
    (hh : Hist Z ops (lifeL false none (Session.eventsFor decF Z.rc s Z.oc Session.fdtRx0 ps)))
    (hlife : aliveRun Z { obj := some Session.rx0 } (lifeL false none (Session.eventsFor decF Z.rc s Z.oc Session.fdtRx0 ps)) = true)
    (hc : 1 ≤ (Session.observe decF Z.dec Z.rc s Z.oc ps).completes) :
    ∃ st', runL Z.P (St.new toi Z.maxSize) ops = .ok st' ∧ ¬ noComplete st'.out ∧ st'.written = Z.S.T :=
  session_runObj_complete_reaches_objrecv_bytes Z hZ hC toi {} _ ops rfl rfl ⟨rfl, rfl, rfl, rfl⟩ hh hlife hc

/-- ... and in BOTH directions, for all four outcomes: over one life of the object the counters `Session.observe` reports (the `o/c/e/i`
    the engine of C01 / C02 / C16 compares with the real receiver) ARE the numbers of open / complete / error / interrupted calls the
    line-by-line model's writer received -/
theorem observe_counters_are_objrecv_writer_calls (Z : Setting) (hZ : Z.OK) (hC : CodecDec Z) (toi : Nat)
    (decF : (k p : Nat) → List Nat → Bool) (s : Session.SessCfg) (ps : List Session.Pkt) (ops : List Op)
    (hh : Hist Z ops (lifeL false none (Session.eventsFor decF Z.rc s Z.oc Session.fdtRx0 ps)))
    (hlife : aliveRun Z { obj := some Session.rx0 } (lifeL false none (Session.eventsFor decF Z.rc s Z.oc Session.fdtRx0 ps)) = true) :
    ∃ st', runL Z.P (St.new toi Z.maxSize) ops = .ok st' ∧
      (Session.observe decF Z.dec Z.rc s Z.oc ps).opens = cnt isOpenOk st'.out ∧
      (Session.observe decF Z.dec Z.rc s Z.oc ps).completes = cnt isComplete st'.out ∧
      (Session.observe decF Z.dec Z.rc s Z.oc ps).errors = cnt isError st'.out ∧
      (Session.observe decF Z.dec Z.rc s Z.oc ps).interrupts = cnt isInterrupted st'.out := by
  have h := runObj_life_is_objRun Z {} (Session.eventsFor decF Z.rc s Z.oc Session.fdtRx0 ps) rfl rfl ⟨rfl, rfl, rfl, rfl⟩ hlife
  obtain ⟨st', h1, h2, h3, h4, h5⟩ := counters_are_writer_calls Z hZ hC toi ops _ hh
  exact ⟨st', h1, h.1.trans h5, h.2.1.trans h2, h.2.2.1.trans h3, h.2.2.2.trans h4⟩

/-! ### NON-VACUITY: every hypothesis of the headline theorems holds for a concrete setting and a concrete history -/

/-- the codec contract holds for Compact No-Code (any `Params.codec`) -/
theorem codec_contract_holds_for_nocode (Z : Setting) (N : NoCodeSetting Z) : CodecDec Z := codecDec_noCode Z N

/-- ... and for Reed-Solomon, from the contract `RsTotal` on `reconstruct` alone -/
theorem codec_contract_holds_for_rs (Z : Setting) (N : RsSetting Z) : CodecDec Z := codecDec_rs Z N

def o0 : Oti := ⟨.noCode, 2, 2, 0, none⟩

/-- No-Code, E = 2, B = 2, the 6-byte object [1..6] = blocks of 2 + 1 symbols, all-accepting writer, limits 1000 -/
def Z0 : Setting :=
  { P := C09.P0 true, S := noCodeSession [1, 2, 3, 4, 5, 6] o0,
    oc := { toi := 1, scheme := .nocode, ks := #[2, 1], blen := #[4, 2], p := 0, inbandFti := false, transfers := 1,
            carousel := false, noCache := false, pktLen := 20, lastPktLen := 20 },
    rc := { receiveOnce := true, maxSize := 1000, pktCap := some 1000 },
    dec := Session.canDecodeOf .nocode, maxSize := 1000 }

def pk0 (sbn esi : Nat) : Pkt :=
  { toi := 1, cp := .noCode, close := false, fti := none, cenc := none, pid := [0, sbn, 0, esi], payload := Z0.S.sym sbn esi,
    dataLen := 20 }

def fe0 : FileEntry := { oti := some o0, tl := 6, cl := some 6, cenc := .null, md5 := none, noCache := false }

theorem Z0_n : Z0.S.n = 2 := by decide

theorem lt2 {b : Nat} (h : b < 2) : b = 0 ∨ b = 1 := by omega

theorem Z0_ok : Z0.OK where
  laws := noCodeSession_laws _ _ _ rfl (by decide) (by decide) (by decide) (by decide)
  nblocks := by decide
  ks := by
    intro b hb
    rw [Z0_n] at hb
    rcases lt2 hb with rfl | rfl <;> decide
  empty := by intro h; rw [Z0_n] at h; cases h
  max := rfl
  look := rfl
  cap := rfl
  small := by decide
  env := fun _ => ⟨rfl, rfl, fun _ => rfl⟩
  dz := ⟨DzOK.ofNoData _ (fun _ _ _ _ h => by cases h) (fun _ => by show (0 : Nat) < 10; omega)⟩
  decExt := by
    intro k p a b h
    show Session.allBelow k a = Session.allBelow k b
    apply Bool.eq_iff_iff.mpr
    rw [allBelow_iff, allBelow_iff]
    exact ⟨fun q i hi => (h i).mp (q i hi), fun q i hi => (h i).mpr (q i hi)⟩
  decNil := by
    intro b hb
    rw [Z0_n] at hb
    rcases lt2 hb with rfl | rfl <;> decide
  preLt := by
    intro k hk
    rw [Z0_n] at hk
    rcases lt2 hk with rfl | rfl <;> decide

theorem Z0_nocode : NoCodeSetting Z0 where
  scheme := rfl
  oscheme := rfl
  dec := rfl
  ks := Z0_ok.ks
  k := by
    intro b hb
    rw [Z0_n] at hb
    rcases lt2 hb with rfl | rfl <;> decide

theorem genEv0_00 : GenEv Z0 (pk0 0 0) ⟨0, 0, false⟩ := by
  refine ⟨⟨.inl rfl, .inl rfl, ⟨0, 0, none⟩, rfl, fun _ => ⟨by decide, rfl, .inl rfl⟩⟩, rfl, rfl, rfl, by decide,
    (fun o l hh => by cases hh), by decide, by decide, ?_⟩
  intro pid hpid
  have h2 : parsePayloadId Z0.S.o (pk0 0 0) = .ok (some ⟨0, 0, none⟩) := rfl
  rw [h2] at hpid
  cases hpid
  exact ⟨fun _ => rfl, fun l hl => by cases hl⟩

theorem genEv0_01 : GenEv Z0 (pk0 0 1) ⟨0, 1, false⟩ := by
  refine ⟨⟨.inl rfl, .inl rfl, ⟨0, 1, none⟩, rfl, fun _ => ⟨by decide, rfl, .inl rfl⟩⟩, rfl, rfl, rfl, by decide,
    (fun o l hh => by cases hh), by decide, by decide, ?_⟩
  intro pid hpid
  have h2 : parsePayloadId Z0.S.o (pk0 0 1) = .ok (some ⟨0, 1, none⟩) := rfl
  rw [h2] at hpid
  cases hpid
  exact ⟨fun _ => rfl, fun l hl => by cases hl⟩

theorem genEv0_10 : GenEv Z0 (pk0 1 0) ⟨1, 0, false⟩ := by
  refine ⟨⟨.inl rfl, .inl rfl, ⟨1, 0, none⟩, rfl, fun _ => ⟨by decide, rfl, .inl rfl⟩⟩, rfl, rfl, rfl, by decide,
    (fun o l hh => by cases hh), by decide, by decide, ?_⟩
  intro pid hpid
  have h2 : parsePayloadId Z0.S.o (pk0 1 0) = .ok (some ⟨1, 0, none⟩) := rfl
  rw [h2] at hpid
  cases hpid
  exact ⟨fun _ => rfl, fun l hl => by cases hl⟩

theorem fileOK0 : FileOK Z0 fe0 :=
  ⟨⟨.inr rfl, rfl, rfl⟩, rfl, rfl, .inr rfl, by decide, fun o ho => by cases ho; decide⟩

/-- block 1, then half of block 0, then the FDT, then the rest -/
def ops0 : List Op := [.push (pk0 1 0), .push (pk0 0 1), .attach 7 (some fe0), .push (pk0 0 0)]
def evs0 : List LEv := [.pkt ⟨1, 0, false⟩, .pkt ⟨0, 1, false⟩, .att, .pkt ⟨0, 0, false⟩]

theorem hist0 : Hist Z0 ops0 evs0 :=
  .cons (.pkt genEv0_10) (.cons (.pkt genEv0_01) (.cons (.att fileOK0) (.cons (.pkt genEv0_00) .nil)))

/-- THE HEADLINE THEOREMS ARE NOT VACUOUS: on this setting and history every hypothesis is PROVED (`Z0_ok`, No-Code `CodecDec`,
    `hist0`, the Session model completes), so the conclusion - the ObjRecv run returns, its writer was told `complete`, the bytes it
    accepted are the object - is obtained FROM the theorem, not by evaluation -/
theorem headline_theorems_apply :
    ∃ st', runL Z0.P (St.new 1 1000) ops0 = .ok st' ∧ ¬ noComplete st'.out ∧ st'.written = [1, 2, 3, 4, 5, 6] :=
  session_complete_is_exact Z0 Z0_ok (codecDec_noCode Z0 Z0_nocode) 1 ops0 evs0 hist0 (by decide)

/-- the composed theorem applies: an FDT instance listing the object, then block 1, half of block 0, a second FDT instance, the rest
    (`Session.runObj` from the empty state; the object is attached at creation) -/
theorem composed_theorem_applies :
    ∃ st', runL Z0.P (St.new 1 1000)
        [.attach 7 (some fe0), .push (pk0 1 0), .push (pk0 0 1), .attach 8 (some fe0), .push (pk0 0 0)] = .ok st' ∧
      ¬ noComplete st'.out ∧ st'.written = [1, 2, 3, 4, 5, 6] :=
  session_runObj_complete_reaches_objrecv_bytes Z0 Z0_ok (codecDec_noCode Z0 Z0_nocode) 1 {}
    [.fdt true, .pkt ⟨1, 0, false⟩, .pkt ⟨0, 1, false⟩, .fdt true, .pkt ⟨0, 0, false⟩] _ rfl rfl ⟨rfl, rfl, rfl, rfl⟩
    (.cons (.att fileOK0) (.cons (.pkt genEv0_10) (.cons (.pkt genEv0_01) (.cons (.att fileOK0) (.cons (.pkt genEv0_00) .nil)))))
    (by decide) (by decide)

/-! ### the same for Reed-Solomon, THROUGH `reconstruct`: the 1-byte object [7], one block of k = 1 source + p = 1 parity symbol
(both symbols are [7]: the systematic code of one source symbol repeats it), received from its PARITY symbol only -/

/-- a codec whose `reconstruct` returns the genuine table of that object (all slots [7]) -/
def codecR : Codec :=
  { C09.codec0 with rsNewOk := fun _ _ => true, rsReconstruct := fun k p _ => some (List.replicate (k + p) (some [7])) }

def oR : Oti := ⟨.rs28, 1, 1, 1, none⟩

def SR : GSess :=
  { T := [7], o := oR, aL := 1, aS := 1, nL := 0, n := 1, K := fun _ => 1, sym := fun _ _ => [7], D := fun _ => [7],
    pre := fun i => if i = 0 then [] else [7] }

theorem slotsOK_const (n i : Nat) : SlotsOK (fun _ => [7]) i (List.replicate n (some [7])) := by
  induction n generalizing i with
  | zero => simp [SlotsOK]
  | succ n ih => simp [List.replicate_succ, SlotsOK, ih]

theorem SR_laws : SR.Laws codecR where
  quad := rfl
  kRecv := by
    intro sbn h
    have h1 : sbn < 1 := h
    have : sbn = 0 := by omega
    subst this
    decide
  dSrc := by intro _ sbn _; rfl
  codec := by
    intro sbn _
    refine ⟨?_, (fun h => by cases h), (fun h => by cases h)⟩
    intro _ p shards shards' _ hr
    have h2 : codecR.rsReconstruct (SR.K sbn) p shards = some (List.replicate (SR.K sbn + p) (some [7])) := rfl
    rw [h2] at hr
    cases hr
    exact slotsOK_const _ _
  pre0 := rfl
  preS := by
    intro sbn h
    have h1 : sbn < 1 := h
    have : sbn = 0 := by omega
    subst this
    decide
  preN := rfl

def ZR : Setting :=
  { P := { C09.P0 true with codec := codecR }, S := SR,
    oc := { toi := 1, scheme := .rs, ks := #[1], blen := #[1], p := 1, inbandFti := false, transfers := 1,
            carousel := false, noCache := false, pktLen := 20, lastPktLen := 20 },
    rc := { receiveOnce := true, maxSize := 1000, pktCap := some 1000 },
    dec := Session.canDecodeOf .rs, maxSize := 1000 }

theorem lt1 {b : Nat} (h : b < 1) : b = 0 := by omega

theorem ZR_ok : ZR.OK where
  laws := SR_laws
  nblocks := rfl
  ks := by intro b hb; have := lt1 hb; subst this; rfl
  empty := by intro h; cases h
  max := rfl
  look := rfl
  cap := rfl
  small := by decide
  env := fun _ => ⟨rfl, rfl, fun _ => rfl⟩
  dz := ⟨DzOK.ofNoData _ (fun _ _ _ _ h => by cases h) (fun _ => by show (0 : Nat) < 10; omega)⟩
  decExt := by
    intro k p a b h
    show decide (k ≤ Session.countDistinctBelow (k + p) a) = decide (k ≤ Session.countDistinctBelow (k + p) b)
    have : Session.countDistinctBelow (k + p) a = Session.countDistinctBelow (k + p) b := by
      unfold Session.countDistinctBelow
      apply List.countP_congr
      intro x _
      simp only [List.contains_eq_mem, decide_eq_true_eq]
      exact h x
    rw [this]
  decNil := by intro b hb; have := lt1 hb; subst this; decide
  preLt := by intro k hk; have := lt1 hk; subst this; decide

theorem ZR_rs : RsSetting ZR where
  scheme := .inl rfl
  oscheme := .inl rfl
  dec := rfl
  ks := ZR_ok.ks
  par := rfl
  k := fun _ _ => by show 0 < 1; omega
  newOk := fun _ _ => rfl
  total := ⟨fun k p shards _ _ => ⟨_, rfl, fun j hj => by
    show isSomeAt (List.replicate (k + p) (some [7])) j = true
    have hj2 : j < k + p := by omega
    simp [isSomeAt, List.getElem?_replicate, hj2]⟩⟩

/-- the PARITY symbol (ESI 1) of the block -/
def pkR : Pkt :=
  { toi := 1, cp := .rs28, close := false, fti := none, cenc := none, pid := [0, 0, 0, 1], payload := [7], dataLen := 20 }

def feR : FileEntry := { oti := some oR, tl := 1, cl := some 1, cenc := .null, md5 := none, noCache := false }

theorem genEvR : GenEv ZR pkR ⟨0, 1, false⟩ := by
  refine ⟨⟨.inl rfl, .inl rfl, ⟨0, 1, none⟩, rfl, fun _ => ⟨by decide, rfl, .inl rfl⟩⟩, rfl, rfl, rfl, by decide,
    (fun o l hh => by cases hh), by decide, by decide, ?_⟩
  intro pid hpid
  have h2 : parsePayloadId ZR.S.o pkR = .ok (some ⟨0, 1, none⟩) := rfl
  rw [h2] at hpid
  cases hpid
  exact ⟨fun _ => rfl, fun l hl => by cases hl⟩

theorem fileOKR : FileOK ZR feR :=
  ⟨⟨.inr rfl, rfl, rfl⟩, rfl, rfl, .inr rfl, by decide, fun o ho => by cases ho; decide⟩

/-- the headline theorem applies to a Reed-Solomon object received from its parity symbol only: the FDT, then ESI 1 - `decode` goes
    through `reconstruct` (no source symbol was received), the writer is told `complete` with the object's byte -/
theorem headline_theorems_apply_rs :
    ∃ st', runL ZR.P (St.new 1 1000) [.attach 7 (some feR), .push pkR] = .ok st' ∧ ¬ noComplete st'.out ∧ st'.written = [7] :=
  session_complete_is_exact ZR ZR_ok (codecDec_rs ZR ZR_rs) 1 _ [.att, .pkt ⟨0, 1, false⟩]
    (.cons (.att fileOKR) (.cons (.pkt genEvR) .nil)) (by decide)

end Flute.Props.C02.Link
