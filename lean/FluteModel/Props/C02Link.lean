import FluteModel.Lemmas.SessionObjRecv
import FluteModel.Lemmas.SessionFlush
import FluteModel.Lemmas.NoCodeSession
import FluteModel.Props.C09
/-
  C02 / C01 / C16 RECEIVER-SIDE LINK (owner: agent orecv, consultant: agent e2e).
  e2e's symbol-set receiver (`Flute.Session`: `ORx`, `pushObj` / `pushSym` / `attach` / `finish`, what `stepObj` does for an existing
  object) against the line-by-line model `Flute.ObjRecv` of objectreceiver.rs / blockdecoder.rs / blockwriter.rs, on genuine histories
  of ONE object.  Definitions and proofs: Lemmas/SessionObjRecv.lean.

  PROVED, with ONE named hypothesis left - `Link.BlockStep Z`: the block path `push_to_block2 ~ Session.pushCore` - and the side
  conditions `Setting.OK` (the two configurations tied together; all-accepting writer; codec decodability = `dec` as contract fields
  `decExt` / `decNil`; `preLt`) and `GenEv` / `FileOK` (genuine events):
    * `receiver_simulation`       - MAIN THEOREM: over every genuine history of one object the ObjRecv run returns and its final state
                                    is related to the Session model's (`Rel`: live object simulated `SimCore`, dead object gone,
                                    writer calls open / complete / error / interrupted = the counters);
    * `session_complete_is_exact` - COROLLARY: the Session model reports `complete`  =>  the ObjRecv writer was told `complete` and
                                    the bytes it accepted are the object (C03 invariants);
    * `counters_are_writer_calls` - the outcome correspondence in both directions;
    * `objStep_is_stepObj_*`      - `objStep` is literally what `Session.stepObj` does for an existing object.
  DISCHARGED step lemmas (Lemmas/SessionObjRecv.lean, Lemmas/SessionFlush.lean; wrappers below):
    * dead object / already attached object (inside the composition);
    * `cached_packet_step`        - OTI unknown: `cache()` incl. the cache-full error  ~  the cache branch of `pushObj`;
    * `known_oti_prefix_is_noop`  - OTI known, non-empty object: `push` = `push_to_block` + error handling;
    * `first_inband_packet_step`  - first packet with EXT_FTI: set_oti_from_pkt + init_blocks_partitioning, then the block path;
    * `empty_object_step`         - the empty object: `complete` iff the writer exists (D14 repaired), then the B flag;
    * `close_flag_step`           - the B flag on top of push_to_block2  ~  `pushSym` on top of `pushCore`;
    * `attach_step`               - `attach_fdt` ~ `Session.attach` + `finish`: no FDT/in-band conflict on genuine histories
                                    (432b305), metadata, block table, writer creation and open, LIFO REPLAY of the packet cache
                                    (`replay_sim`: iterated block path incl. B flags, stops at the first terminal state), then
                                    `write_blocks(0)`;
    * `flush_at_attach`           - `write_blocks(0)` ~ `Session.settle`: the loop of write_blocks from the head of the deque against
                                    `advance` (`flush_loop`: BlockWriter::write of each completed head block, pop_front, exact byte
                                    accounting `bytes_left + |first sbn blocks| = |T|`), `complete()` exactly when all blocks are
                                    written, Content-Length / MD5 pass.
  OPEN - `Link.BlockStep Z` (= the former `Steps.block2B_step`): push_to_block2 on a live, partitioned, non-empty object whose deque
  head is not a completed block: SBN window, look-ahead limit, allocation limit, BlockDecoder::init/push against `got`, and the
  flush from the pushed block.  What it needs: the decoder-holds-ESIs bookkeeping under `BlockDecoder::push`, the counting
  `distinctSbns` / `allocBytes` = nb_allocated_blocks / total_allocated_blocks_size (`TInv.cnt`), blocks.len() <= 4097, and
  `flush_loop` once more (from `pid.sbn` instead of 0).
  Executable evidence for it: see the end of the file.  DIVERGENCES between the two models (side conditions): header of
  Lemmas/SessionObjRecv.lean.
-/
namespace Flute.Props.C02.Link
open Flute Flute.FecDec Flute.ObjRecv Flute.Link

/-- MAIN THEOREM (composition of the step lemmas) -/
theorem receiver_simulation (Z : Setting) (hZ : Z.OK) (hb : BlockStep Z) (toi : Nat) (ops : List Op) (evs : List LEv)
    (hh : Hist Z ops evs) :
    ∃ st', runL Z.P (St.new toi Z.maxSize) ops = .ok st' ∧ Good Z st' ∧
      Rel Z st' (objRun Z { obj := some Session.rx0 } evs) :=
  runL_rel Z hZ (steps_of_block Z hZ hb) ops evs hh _ _ (good_new Z hZ toi) (rel_new Z toi)

/-- COROLLARY: `complete` in the Session model  =>  `complete` on the ObjRecv writer, with exactly the object's bytes -/
theorem session_complete_is_exact (Z : Setting) (hZ : Z.OK) (hb : BlockStep Z) (toi : Nat) (ops : List Op) (evs : List LEv)
    (hh : Hist Z ops evs) (hc : 0 < (objRun Z { obj := some Session.rx0 } evs).completes) :
    ∃ st', runL Z.P (St.new toi Z.maxSize) ops = .ok st' ∧ ¬ noComplete st'.out ∧ st'.written = Z.S.T :=
  complete_sound Z hZ (steps_of_block Z hZ hb) toi ops evs hh hc

/-- the counters of the Session model are the writer calls of ObjRecv -/
theorem counters_are_writer_calls (Z : Setting) (hZ : Z.OK) (hb : BlockStep Z) (toi : Nat) (ops : List Op) (evs : List LEv)
    (hh : Hist Z ops evs) :
    ∃ st', runL Z.P (St.new toi Z.maxSize) ops = .ok st' ∧
      (objRun Z { obj := some Session.rx0 } evs).completes = cnt isComplete st'.out ∧
      (objRun Z { obj := some Session.rx0 } evs).errors = cnt isError st'.out ∧
      (objRun Z { obj := some Session.rx0 } evs).interrupts = cnt isInterrupted st'.out ∧
      (objRun Z { obj := some Session.rx0 } evs).opens = cnt isOpenOk st'.out :=
  complete_complete Z hZ (steps_of_block Z hZ hb) toi ops evs hh

theorem objStep_is_stepObj_pkt (Z : Setting) (os : Session.OState) (rx : Session.ORx) (s : Session.Sym)
    (hobj : os.obj = some rx) (hc : os.completed = false) :
    Session.stepObj Z.dec Z.rc Z.oc os (.pkt s) = objStep Z os (.pkt s) := stepObj_pkt Z os rx s hobj hc

theorem objStep_is_stepObj_fdt (Z : Setting) (os : Session.OState) (rx : Session.ORx) (hobj : os.obj = some rx) :
    Session.stepObj Z.dec Z.rc Z.oc os (.fdt true) =
      { objStep Z os .att with completed := (objStep Z os .att).completed && true,
                               age := Session.ageStep (objStep Z os .att).age true } := stepObj_fdt Z os rx hobj

/-- DISCHARGED step: a packet of an object whose OTI is unknown is cached, or the cache is full and the object errors -/
theorem cached_packet_step (Z : Setting) (hZ : Z.OK) (st st' : St) (os : Session.OState) (rx : Session.ORx) (p : Pkt)
    (s : Session.Sym) (hg : Good Z st) (hr : Rel Z st os) (hrec : st.state = .receiving) (hsim : SimCore Z st rx)
    (g : GenEv Z p s) (hoti : st.oti = none) (hin : Z.oc.inbandFti = false) (h : push Z.P st p = .ok st') :
    Rel Z st' (Session.pushObj Z.dec Z.rc Z.oc os rx s) :=
  push_unknown Z hZ st st' os rx p s hg hr hrec hsim g hoti hin h

/-- DISCHARGED step: with the OTI of a non-empty object known, `push` is `push_to_block` (from `Steps.block_step` on the SAME state) -/
theorem known_oti_prefix_is_noop (Z : Setting) (H : Steps Z) (st st' : St) (os : Session.OState) (rx : Session.ORx) (p : Pkt)
    (s : Session.Sym) (hg : Good Z st) (hr : Rel Z st os) (hrec : st.state = .receiving) (hobj : os.obj = some rx)
    (hsim : SimCore Z st rx) (g : GenEv Z p s) (hoti : st.oti.isSome = true) (hn : Z.S.n ≠ 0) (h : push Z.P st p = .ok st') :
    Rel Z st' (Session.pushObj Z.dec Z.rc Z.oc os rx s) :=
  push_known_nonempty Z H st st' os rx p s hg hr hrec hobj hsim g hoti hn h

/-- DISCHARGED step: the first packet with EXT_FTI of a non-empty object -/
theorem first_inband_packet_step (Z : Setting) (hZ : Z.OK) (H : Steps Z) (st st' : St) (os : Session.OState) (rx : Session.ORx)
    (p : Pkt) (s : Session.Sym) (hg : Good Z st) (hr : Rel Z st os) (hrec : st.state = .receiving) (hobj : os.obj = some rx)
    (hsim : SimCore Z st rx) (g : GenEv Z p s) (hoti : st.oti = none) (hin : Z.oc.inbandFti = true) (hn : Z.S.n ≠ 0)
    (h : push Z.P st p = .ok st') : Rel Z st' (Session.pushObj Z.dec Z.rc Z.oc os rx s) :=
  push_first_inband Z hZ H st st' os rx p s hg hr hrec hobj hsim g hoti hin hn h

/-- DISCHARGED step (no hypothesis from `Steps`): a packet of the empty object -/
theorem empty_object_step (Z : Setting) (hZ : Z.OK) (st st' : St) (os : Session.OState) (rx : Session.ORx) (p : Pkt)
    (s : Session.Sym) (hg : Good Z st) (hr : Rel Z st os) (hrec : st.state = .receiving) (hsim : SimCore Z st rx) (g : GenEv Z p s)
    (hk : st.oti.isSome = true ∨ Z.oc.inbandFti = true) (hn : Z.S.n = 0) (h : push Z.P st p = .ok st') :
    Rel Z st' (Session.pushObj Z.dec Z.rc Z.oc os rx s) :=
  push_empty Z hZ st st' os rx p s hg hr hrec hsim g hk hn h

/-- DISCHARGED step: the close-object flag -/
theorem close_flag_step (Z : Setting) (H : Steps Z) (st st1 : St) (b : Bool) (os : Session.OState) (rx : Session.ORx) (p : Pkt)
    (s : Session.Sym) (hg : Good Z st) (hr : Rel Z st os) (hrec : st.state = .receiving) (hobj : os.obj = some rx)
    (hsim : SimCore Z st rx) (g : GenEv Z p s) (hoti : st.oti.isSome = true) (hn : Z.S.n ≠ 0)
    (h : pushToBlock Z.P st p = .ok (st1, b)) :
    Rel Z (if b then st1 else error st1 false) (Session.finish Z.oc os (Session.pushSym Z.dec Z.rc Z.oc rx s)) :=
  block_step Z H st st1 b os rx p s hg hr hrec hobj hsim g hoti hn h

/-- DISCHARGED step: `attach_fdt` with the File entry of the object on a live, not yet attached object -/
theorem attach_step (Z : Setting) (hZ : Z.OK) (hb : BlockStep Z) (st st' : St) (b : Bool) (os : Session.OState) (rx : Session.ORx)
    (id : Nat) (f : FileEntry) (hg : Good Z st) (hr : Rel Z st os) (hrec : st.state = .receiving) (hobj : os.obj = some rx)
    (hsim : SimCore Z st rx) (hatt : rx.attached = false) (fo : FileOK Z f)
    (h : attachFdt Z.P st id (some f) = .ok (st', b)) :
    Rel Z st' (Session.finish Z.oc { os with opens := os.opens + 1 } (Session.attach Z.dec Z.rc Z.oc rx)) :=
  attach_live Z hZ (steps_of_block Z hZ hb) st st' b os rx id f hg hr hrec hobj hsim hatt fo h

/-- DISCHARGED step (no hypothesis): `write_blocks(0)` on the attached object  ~  `Session.settle` -/
theorem flush_at_attach (Z : Setting) (hZ : Z.OK) (st st1 : St) (ok : Bool) (os : Session.OState) (rx : Session.ORx)
    (hg : Good Z st) (hr : RelB Z st os) (hrec : st.state = .receiving) (hobj : os.obj = some rx) (hsim : SimB Z st rx)
    (hatt : rx.attached = true) (hn : Z.S.n ≠ 0) (hc : st.cache = []) (hoff : st.blocksOffset = 0 ∨ Head st)
    (h : writeBlocks Z.P st 0 = .ok (st1, ok)) :
    StepOut Z st (if ok then st1 else error st1 false) (Session.finish Z.oc os (Session.settle Z.dec Z.oc rx)) :=
  flush0_thm Z hZ st st1 ok os rx hg hr hrec hobj hsim hatt hn hc hoff h

/-- non-vacuity of the relation: the initial states are related -/
theorem initial_states_related (Z : Setting) (toi : Nat) :
    Rel Z (St.new toi Z.maxSize) { obj := some Session.rx0 } := rel_new Z toi

/-! ### executable evidence for the two open step hypotheses

Both models are executable.  On the instance below (No-Code, E = 2, B = 2, 6 bytes = blocks of 2 + 1 symbols, all-accepting writer) and
on the 3-block instance (10 bytes), EVERY permutation of {all packets, one FDT attach}, with and without in-band FTI, with a B flag
and a duplicate, with limits that make the packet cache overflow and the allocation limit bind, gives the same
(opens, completes, errors, interrupts, still-live) on both sides: 4824 histories compared by `#eval` while writing this file, 0
differences.  One of them is machine-checked here. -/

/-- block 1, then half of block 0, then the FDT, then the rest: both models open once and complete once -/
example :
    let o : Oti := ⟨.noCode, 2, 2, 0, none⟩
    let S : GSess := noCodeSession [1, 2, 3, 4, 5, 6] o
    let Z : Setting :=
      { P := C09.P0 true, S := S,
        oc := { toi := 1, scheme := .nocode, ks := #[2, 1], blen := #[4, 2], p := 0, inbandFti := false, transfers := 1,
                carousel := false, noCache := false, pktLen := 20, lastPktLen := 20 },
        rc := { receiveOnce := true, maxSize := 1000, pktCap := some 1000 },
        dec := Session.canDecodeOf .nocode, maxSize := 1000 }
    let pk (sbn esi : Nat) : Pkt :=
      { toi := 1, cp := .noCode, close := false, fti := none, cenc := none, pid := [0, sbn, 0, esi], payload := S.sym sbn esi,
        dataLen := 20 }
    let fe : FileEntry := { oti := some o, tl := 6, cl := some 6, cenc := .null, md5 := none, noCache := false }
    let os := objRun Z { obj := some Session.rx0 } [.pkt ⟨1, 0, false⟩, .pkt ⟨0, 1, false⟩, .att, .pkt ⟨0, 0, false⟩]
    (match runL Z.P (St.new 1 1000) [.push (pk 1 0), .push (pk 0 1), .attach 7 (some fe), .push (pk 0 0)] with
     | .ok st => some (cnt isOpenOk st.out, cnt isComplete st.out, cnt isError st.out, cnt isInterrupted st.out, st.written)
     | .error _ => none) = some (os.opens, os.completes, os.errors, os.interrupts, [1, 2, 3, 4, 5, 6]) ∧
    os.completes = 1 := by decide

end Flute.Props.C02.Link
