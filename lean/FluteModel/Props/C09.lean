import FluteModel.Lemmas.ObjRecvPanicFree
import FluteModel.Lemmas.ObjRecvProto
import FluteModel.Lemmas.ObjRecvWritten
/-
  C09  Object-writer protocol: open, writes, exactly one terminal call, nothing after.

  All theorems quantify over
    * `P : Params`  - the whole environment: every answer of the writer builder (StoreObject / ObjectAlreadyReceived / Abort),
      of `enable_md5_check`, `open` and of each `write`, the FEC codecs, the decompressor, the digest function;
    * `ops : List Op` - every history of ARBITRARY parsed packets (`Op.push`) and FDT attachments (`Op.attach`) applied to a
      fresh ObjectReceiver (not only genuine packets, and a superset of what `receiver.rs` does: it drops an object as soon
      as it left `Receiving`);
    * the drop point: `ops` is any list, `drop` (= `impl Drop for ObjectReceiver`) is applied after it, so every prefix of every
      history is covered.
  `run .. = .ok st'` : the theorems speak about histories the model executes to the end.  That the model never leaves `.ok`
  (no Rust panic, no hang) is NOT proved (`push_total` does not exist; Props/C04Obj.lean has building blocks only); it is what
  the correspondence compares on every run (`PANIC` / `TIMEOUT` observations).  Since every prefix of a history is a history,
  a violation that precedes a panic inside a LATER op is covered; one inside the panicking op itself is not.
-/
namespace Flute.Props.C09
open Flute Flute.FecDec Flute.ObjRecv Flute.Spec Flute.Spec.WriterProto

/-- The calls seen by the writer form a word of the protocol automaton
    `Idle -open ok-> Opened -write*-> Opened -complete|error|interrupted-> Done`, `Idle -open err-> Failed -error-> Done`,
    nothing after `Done` - before the object is dropped and after it. -/
theorem OfRun.writer_trace_in_language (P : Params) (toi maxSize : Nat) (ops : List Op) (st' : St)
    (h : run P (St.new toi maxSize) ops = .ok st') :
    Accepts st'.wtrace ∧ Accepts (drop st').wtrace := by
  have hi := inv_run P _ ops (inv_new toi maxSize) h
  have hd := (inv_drop st' hi).1
  have h1 := hi.ps
  have h2 := hd.ps
  unfold pstateOf at h1 h2
  exact ⟨by simp [Accepts, St.wtrace, h1], by simp [Accepts, St.wtrace, h2]⟩

/-- `open` is the first call the writer sees, and it sees it at most once. -/
theorem OfRun.open_first_and_once (P : Params) (toi maxSize : Nat) (ops : List Op) (st' : St)
    (h : run P (St.new toi maxSize) ops = .ok st') :
    (∀ e r, (drop st').wtrace = e :: r → (e = .openOk ∨ e = .openErr) ∧ r.filter Ev.isOpen = []) := by
  have hacc := (writer_trace_in_language P toi maxSize ops st' h).2
  intro e r htr
  unfold Accepts at hacc
  rw [htr] at hacc
  cases hrun : WriterProto.run .idle (e :: r) with
  | none => simp [hrun] at hacc
  | some s' =>
    have h1 := run_idle_head e r hrun
    refine ⟨h1, ?_⟩
    simp only [WriterProto.run] at hrun
    split at hrun
    · simp at hrun
    · rename_i s1 hs1
      apply run_no_open_after s1 _ r hrun
      cases h1 with
      | inl he => subst he; simp [WriterProto.step] at hs1; subst hs1; simp
      | inr he => subst he; simp [WriterProto.step] at hs1; subst hs1; simp

/-- At most one of complete / error / interrupted is ever called on a writer, and nothing is called after it
    (in particular never both `complete` and a failure). -/
theorem OfRun.terminal_at_most_once (P : Params) (toi maxSize : Nat) (ops : List Op) (st' : St)
    (h : run P (St.new toi maxSize) ops = .ok st') :
    ((drop st').wtrace.filter Ev.isTerminal).length ≤ 1 ∧
    (∀ a e b, (drop st').wtrace = a ++ e :: b → e.isTerminal = true → b = []) := by
  have hacc := (writer_trace_in_language P toi maxSize ops st' h).2
  unfold Accepts at hacc
  cases hrun : WriterProto.run .idle (drop st').wtrace with
  | none => simp [hrun] at hacc
  | some s' =>
    refine ⟨run_terminals_le_one _ _ hrun, ?_⟩
    intro a e b htr ht
    rw [htr] at hrun
    exact run_nothing_after_terminal _ a b e hrun ht

/-- By the time the ObjectReceiver is dropped (explicitly by `check_object_state`, by a time-out, or with the Receiver),
    a writer that was created has received its terminal call: the trace is empty (no writer was ever opened)
    or ends in `Done`. -/
theorem OfRun.terminal_by_drop (P : Params) (toi maxSize : Nat) (ops : List Op) (st' : St)
    (h : run P (St.new toi maxSize) ops = .ok st') :
    Closed (drop st').wtrace := by
  have hi := inv_run P _ ops (inv_new toi maxSize) h
  have hd := inv_drop st' hi
  have hps := hd.1.ps
  unfold Closed
  unfold pstateOf at hps
  simp only [St.wtrace]
  rw [hps]
  cases hw : (drop st').writer with
  | none => left; simp [absW]
  | some ws =>
    cases ws with
    | idle => exact absurd hw hd.1.noIdle
    | opened => exact absurd hw hd.2
    | closed => right; simp [absW]
    | error => right; simp [absW]

/-- `complete` is issued only when exactly the announced content has been written and its MD5 matched when checked:
    if a `complete` call was recorded then, with `s` the final state (after Drop),
    * content encoding null: the bytes accepted by the writer (`s.written` = concatenation of the data of the `write` calls
      that returned Ok) are exactly `transfer_length` many (= the announced content length for cenc null);
    * a Content-MD5 `m` is announced, the writer answered `enable_md5_check() = true` and the object is not empty:
      the digest of the written bytes equals `m` (any cenc: the digest is taken over what was written).
    * a Content-Length `n` is announced and the transfer is not empty: exactly `n` bytes were written - ANY content encoding
      (repaired e19fa2b: before, a Content-Length that disagreed with the decoded content still ended in `complete`).
    `s.tl`, `s.cenc`, `s.md5`, `s.cl` are the values the writer was given in `new_object_writer(meta)`.
    What is NOT guaranteed: for cenc ≠ null without Content-Length and without MD5 nothing ties the decoded bytes to an
    announced size; a zero-length transfer is completed without MD5 / Content-Length comparison (finding D33). -/
theorem OfRun.complete_only_when_all_written (P : Params) (toi maxSize : Nat) (ops : List Op) (st' : St)
    (h : run P (St.new toi maxSize) ops = .ok st') (hc : ¬ noComplete (drop st').out) :
    ((drop st').cenc = some .null → ∃ T, (drop st').tl = some T ∧ (drop st').written.length = T) ∧
    (∀ m, (drop st').md5 = some m → (drop st').md5Check = true → P.md5 (drop st').written = m) ∧
    (∀ n, (drop st').cl = some n → (drop st').tl ≠ some 0 → (drop st').written.length = n) := by
  have hi := inv_run P _ ops (inv_new toi maxSize) h
  have hj := jinv_drop st' hi (jinv_run P _ ops (inv_new toi maxSize) (jinv_new P toi maxSize) h)
  have hid := (inv_drop st' hi).1
  cases hw : (drop st').writer with
  | none => exact absurd (hj.none_ hw).2 hc
  | some ws =>
    cases ws with
    | idle => exact absurd hw hid.noIdle
    | opened => exact absurd (hj.opened hw).nc hc
    | error => exact absurd (hj.error hw) hc
    | closed => exact ⟨(hj.closed hw).len, (hj.closed hw).md5, (hj.closed hw).cl⟩

/-! ### non-vacuity: concrete histories that execute (`run = .ok`) and exercise the three shapes of the language -/

def codec0 : Codec := ⟨fun _ _ => false, fun _ _ _ => none, fun _ _ _ _ _ => none, fun _ _ _ => false, fun _ _ _ => none⟩

def P0 (openOk : Bool) : Params :=
  { codec := codec0, dzRead := fun _ _ _ => ⟨0, .err⟩, dzFuel := fun _ => 10, md5 := fun _ => "",
    env := ⟨fun _ => ⟨.store, true, openOk, fun _ => true⟩⟩ }

def e0 : FileEntry :=
  { oti := some ⟨.noCode, 4, 2, 0, none⟩, tl := 3, cl := some 3, cenc := .null, md5 := none, noCache := false }

def p0 : Pkt :=
  { toi := 5, cp := .noCode, close := false, fti := none, cenc := none, pid := [0, 0, 0, 0], payload := [1, 2, 3], dataLen := 20 }

def traceAfterDrop (P : Params) (ops : List Op) : Option (List Ev) :=
  match run P (St.new 5 1000) ops with
  | .ok st => some (drop st).wtrace
  | .error _ => none

example : traceAfterDrop (P0 true) [.attach 1 (some e0), .push p0] = some [.openOk, .write true, .complete] := by decide
example : traceAfterDrop (P0 false) [.attach 1 (some e0), .push p0] = some [.openErr, .error] := by decide
example : traceAfterDrop (P0 true) [.attach 1 (some e0)] = some [.openOk, .error] := by decide
example : traceAfterDrop (P0 true) [.push p0] = some [] := by decide

/-- the hypothesis of `complete_only_when_all_written` is met by a concrete history: 3 bytes announced, 3 written -/
example :
    (match run (P0 true) (St.new 5 1000) [.attach 1 (some e0), .push p0] with
     | .ok st => ((drop st).wtrace, (drop st).written, (drop st).tl)
     | .error _ => ([], [], none)) = ([.openOk, .write true, .complete], [1, 2, 3], some 3) := by decide

/-! ### The theorems, with NO hypothesis on the outcome of the run

`OfRun.*` above are stated for a run that returned (`run = .ok st'`).  `C04.Obj.run_total` shows that every history returns - no Rust
panic, no hang - under input-side assumptions only (`Feasible`: the decompressor contract `DzOK`, `max_size_allocated < 2^63`, the
parser ranges `WfOp`: transfer length < 2^48, E < 2^16).  Hence, for EVERY such history the run returns some `st'` and the property
holds for it; nothing can be violated "inside an op that panics", because no op panics. -/

theorem writer_trace_in_language (P : Params) (toi maxSize : Nat) (ops : List Op)
    (F : Feasible P maxSize ops) :
    ∃ st', run P (St.new toi maxSize) ops = .ok st' ∧
     ((Accepts st'.wtrace ∧ Accepts (drop st').wtrace)) :=
  F.elim toi (fun st' h  => OfRun.writer_trace_in_language P toi maxSize ops st' h)

theorem open_first_and_once (P : Params) (toi maxSize : Nat) (ops : List Op)
    (F : Feasible P maxSize ops) :
    ∃ st', run P (St.new toi maxSize) ops = .ok st' ∧
     (((∀ e r, (drop st').wtrace = e :: r → (e = .openOk ∨ e = .openErr) ∧ r.filter Ev.isOpen = []))) :=
  F.elim toi (fun st' h  => OfRun.open_first_and_once P toi maxSize ops st' h)

theorem terminal_at_most_once (P : Params) (toi maxSize : Nat) (ops : List Op)
    (F : Feasible P maxSize ops) :
    ∃ st', run P (St.new toi maxSize) ops = .ok st' ∧
     ((((drop st').wtrace.filter Ev.isTerminal).length ≤ 1 ∧
    (∀ a e b, (drop st').wtrace = a ++ e :: b → e.isTerminal = true → b = []))) :=
  F.elim toi (fun st' h  => OfRun.terminal_at_most_once P toi maxSize ops st' h)

theorem terminal_by_drop (P : Params) (toi maxSize : Nat) (ops : List Op)
    (F : Feasible P maxSize ops) :
    ∃ st', run P (St.new toi maxSize) ops = .ok st' ∧
     ((Closed (drop st').wtrace)) :=
  F.elim toi (fun st' h  => OfRun.terminal_by_drop P toi maxSize ops st' h)

theorem complete_only_when_all_written (P : Params) (toi maxSize : Nat) (ops : List Op)
    (F : Feasible P maxSize ops) :
    ∃ st', run P (St.new toi maxSize) ops = .ok st' ∧
     ((¬ noComplete (drop st').out) →
      (((drop st').cenc = some .null → ∃ T, (drop st').tl = some T ∧ (drop st').written.length = T) ∧
    (∀ m, (drop st').md5 = some m → (drop st').md5Check = true → P.md5 (drop st').written = m) ∧
    (∀ n, (drop st').cl = some n → (drop st').tl ≠ some 0 → (drop st').written.length = n))) :=
  F.elim toi (fun st' h hc => OfRun.complete_only_when_all_written P toi maxSize ops st' h hc)

end Flute.Props.C09
