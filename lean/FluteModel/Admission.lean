/-
  ONE reference model of the admission of an object by the sender:
      `Sender::add_object` (src/sender/sender.rs)  →  `Fdt::add_object` (src/sender/fdt.rs)  →
      `FileDesc::new` (src/sender/filedesc.rs)  with `Oti::max_transfer_length` (src/common/oti.rs)
  transcribed line by line from the current tree, the ORDER of the checks included (the refusal
  reason is observable: it is the text of the `FluteError`).  Other models of (parts of) this decision
  - `FdtAbs.add/effectiveOti`, `Session.refused`, the `Accepts` hypotheses of the block encoder proofs,
  `Toi.Op.addEarlyErr / add k false` - are related to this one in `Props/AdmissionLink.lean`.

  Integers are `Nat` within the range of their Rust type (see `Oti.wf`, `Obj.wf`); `usize` = `u64`.
  Panics (`todo!()`) are `.error` of `Rs`.
  No imports outside FluteModel (linked into the `toi` driver).
-/
import FluteModel.Partition
namespace Flute.Admission
open Flute

/-- `FECEncodingID` -/
inductive Fec where
  | noCode | raptor | rs2m | rs28 | raptorq | rs28us
  deriving DecidableEq, Repr, Inhabited

/-- the `#[repr(u8)]` value -/
def Fec.id : Fec → Nat
  | .noCode => 0 | .raptor => 1 | .rs2m => 2 | .rs28 => 5 | .raptorq => 6 | .rs28us => 129

def Fec.ofId? : Nat → Option Fec
  | 0 => some .noCode | 1 => some .raptor | 2 => some .rs2m | 5 => some .rs28 | 6 => some .raptorq
  | 129 => some .rs28us | _ => none

/-- `SchemeSpecific` (first component of the Raptor variants = `source_blocks_length`, Z) -/
inductive SchemeSpecific where
  | reedSolomon (m g : Nat)
  | raptorq (z n al : Nat)
  | raptor (z n al : Nat)
  deriving DecidableEq, Repr, Inhabited

/-- `oti::Oti` (all fields are `pub`: every combination can be built by the application) -/
structure Oti where
  fec : Fec
  inst : Nat                    -- fec_instance_id : u16
  maxSbl : Nat                  -- maximum_source_block_length : u32
  esl : Nat                     -- encoding_symbol_length : u16
  parity : Nat                  -- max_number_of_parity_symbols : u32
  scheme : Option SchemeSpecific
  deriving DecidableEq, Repr, Inhabited

def Oti.wf (o : Oti) : Prop := o.inst < 2 ^ 16 ∧ o.maxSbl < 2 ^ 32 ∧ o.esl < 2 ^ 16 ∧ o.parity < 2 ^ 32

/-- `obj.config.toi` as `Fdt::add_object` sees it -/
inductive ToiArg where
  | none        -- no handle: `add_object` allocates
  | own         -- a handle of this sender's allocator
  | foreign     -- a handle of another allocator (`!toi.is_allocated_by(&self.toi_allocator)`)
  deriving DecidableEq, Repr, Inhabited

/-- what `add_object` looks at in the `ObjectDesc`; strings are lists of Unicode scalar values -/
structure Obj where
  transferLength : Nat                     -- object.transfer_length : u64
  oti : Option Oti                         -- object.config.oti
  location : List Nat                      -- content_location.as_str()
  contentType : List Nat
  md5 : Option (List Nat)
  etag : Option (List Nat)                 -- config.e_tag
  groups : Option (List (List Nat))        -- config.groups
  toi : ToiArg
  deriving Repr, Inhabited

/-- what it looks at in the sender -/
structure Cfg where
  queues : List Nat                        -- keys of `Sender.sessions` (configured priority queues)
  complete : Bool                          -- `Fdt.complete == Some(true)` (after `set_complete`)
  oti : Oti                                -- the session's default OTI
  deriving Repr, Inhabited

inductive Refuse where
  -- `Sender::add_object`
  | noPriorityQueue
  -- `Fdt::add_object`, before a TOI is allocated
  | fdtComplete
  | xmlMetadata
  | foreignToi
  -- `FileDesc::new`; a TOI has been allocated before if the object had none (it is released again)
  | notImplemented          -- Reed Solomon GF(2^m): no encoder
  | tooLong
  | rsNoParity
  | rsFtiFields             -- FEC 5: B + parity > 255, FEC 129: B + parity > 65535 (FTI field widths)
  | rsBlockOver255
  | blockOverKmax
  | raptorBlockLt4          -- Raptor: the partition uses a block of 2 or 3 source symbols
  | noSchemeSpecific
  | tooManyBlocks
  deriving DecidableEq, Repr, Inhabited

/-- does this refusal come after the implicit TOI allocation (for an object without handle)? -/
def Refuse.afterAllocation : Refuse → Bool
  | .noPriorityQueue | .fdtComplete | .xmlMetadata | .foreignToi => false
  | _ => true

/-- an admitted object: the OTI its `FileDesc` carries (override or default, Z set for Raptor(Q)) -/
structure Admitted where
  oti : Oti
  allocates : Bool        -- the TOI was allocated by `add_object` (object without handle)
  deriving DecidableEq, Repr, Inhabited

/-! ### `is_xml_str` (fdt.rs) -/

/-- `matches!(c, '\u{9}' | '\u{A}' | '\u{D}' | '\u{20}'..='\u{D7FF}' | '\u{E000}'..='\u{FFFD}' | '\u{10000}'..='\u{10FFFF}')` -/
def isXmlChar (c : Nat) : Bool :=
  c = 0x9 || c = 0xA || c = 0xD || (0x20 ≤ c && c ≤ 0xD7FF) || (0xE000 ≤ c && c ≤ 0xFFFD) ||
    (0x10000 ≤ c && c ≤ 0x10FFFF)

def isXmlStr (s : List Nat) : Bool := s.all isXmlChar

/-- the condition of the second `if` of `Fdt::add_object` (negated: `true` = all strings can be carried) -/
def metaOk (o : Obj) : Bool :=
  isXmlStr o.location && isXmlStr o.contentType &&
    (match o.md5 with | some s => isXmlStr s | none => true) &&
    (match o.etag with | some s => isXmlStr s | none => true) &&
    (match o.groups with | some gs => gs.all isXmlStr | none => true)

/-! ### `Oti::max_transfer_length`, `Oti::max_source_blocks_number` (oti.rs) -/

/-- `max_source_blocks_number`; `ReedSolomonGF2M => todo!()` -/
def maxSourceBlocksNumber : Fec → Rs Nat
  | .noCode => .ok 65535            -- u16::MAX
  | .rs2m => .error "not yet implemented"
  | .rs28 => .ok 255                -- u8::MAX
  | .rs28us => .ok 4294967295       -- u32::MAX
  | .raptorq => .ok 255             -- u8::MAX
  | .raptor => .ok 65535            -- u16::MAX

/-- the scheme's cap on the transfer length: 48 bits, RaptorQ 40 bits -/
def lengthCap : Fec → Nat
  | .raptorq => 0xFFFFFFFFFF
  | _ => 0xFFFFFFFFFFFF

/-- `usize::saturating_mul` (`usize` = `u64`) -/
def satMul64 (a b : Nat) : Nat := if a * b < 2 ^ 64 then a * b else 2 ^ 64 - 1

/-- `max_transfer_length`:
    `let max_sbn = ..; let block_size = (esl as usize).saturating_mul(maxSbl as usize);
     let size = block_size.saturating_mul(max_sbn); if size > transfer_length { transfer_length } else { size }`
    (saturating since /repo "fix: Oti::max_transfer_length saturates": the products exceeded `usize` for large
    `maximum_source_block_length`, a public `u32` - dev: panic inside `add_object`, release: wrapped limit) -/
def maxTransferLength (o : Oti) : Rs Nat :=
  match maxSourceBlocksNumber o.fec with
  | .error w => .error w
  | .ok maxSbn =>
    let size := satMul64 (satMul64 o.esl o.maxSbl) maxSbn
    .ok (if size > lengthCap o.fec then lengthCap o.fec else size)

/-! ### `FileDesc::new` (filedesc.rs) -/

/-- K_max = 8192 (RFC 5053 5.1.2), K'_max = 56403 (RFC 6330 5.1.2) -/
def maxBlockSymbols : Fec → Nat
  | .raptorq => 56403
  | _ => 8192

/-- `if let SchemeSpecific::RaptorQ(scheme) = .. { scheme.source_blocks_length = nb_blocks.max(1) }`
    (nothing happens when the variant is not the one of the encoding id) -/
def setZ (o : Oti) (nb : Nat) : Oti :=
  match o.fec, o.scheme with
  | .raptorq, some (.raptorq _ n al) => { o with scheme := some (.raptorq (max nb 1) n al) }
  | .raptor, some (.raptor _ n al) => { o with scheme := some (.raptor (max nb 1) n al) }
  | _, _ => o

/-- the Reed-Solomon GF(2^8) checks of `FileDesc::new` (FEC Encoding ID 5 and 129): `some r` = `Err` -/
def rsChecks (oti : Oti) (transferLength : Nat) : Rs (Option Refuse) :=
  if oti.fec = .rs28 ∨ oti.fec = .rs28us then
    -- FEC 5: `B as u64 + parity as u64 > 255` (8-bit FTI fields, since /repo "fix: add_object refuses Reed Solomon
    -- GF(2^8) parameters that do not fit the FEC OTI")
    if oti.fec = .rs28 ∧ oti.maxSbl + oti.parity > 255 then .ok (some .rsFtiFields) else
    -- FEC 129: `B as u64 + parity as u64 > 0xFFFF` (16-bit FTI fields)
    if oti.fec = .rs28us ∧ oti.maxSbl + oti.parity > 65535 then .ok (some .rsFtiFields) else
    match Partition.blockPartitioning oti.maxSbl transferLength oti.esl with
    | .error w => .error w
    | .ok q =>
      -- `a_large + parity as u64 > 255` (n ≤ 2^m - 1; was 256): a_large ≤ T ≤ L ≤ 2^48 after the length check and
      -- parity < 2^32, the u64 addition cannot overflow
      .ok (if q.1 + oti.parity > 255 then some .rsBlockOver255 else none)
  else .ok none

/-- the Raptor / RaptorQ part of `FileDesc::new` (after the Reed-Solomon part), in source order -/
def raptorTail (oti : Oti) (transferLength : Nat) : Rs (Except Refuse Oti) :=
  -- if RaptorQ || Raptor { .. }
  if oti.fec = .raptorq ∨ oti.fec = .raptor then
    match Partition.blockPartitioning oti.maxSbl transferLength oti.esl with
    | .error w => .error w
    | .ok q =>
      let aLarge := q.1
      let aSmall := q.2.1
      let nbALarge := q.2.2.1
      let nbBlocks := q.2.2.2
      -- if a_large > max_block_symbols { return Err(..) }
      if aLarge > maxBlockSymbols oti.fec then .ok (.error .blockOverKmax) else
      -- if Raptor && ((nb_a_large > 0 && small_block(a_large)) || (nb_blocks > nb_a_large && small_block(a_small)))
      --   { return Err(..) }      with small_block(k) = k == 2 || k == 3
      if oti.fec = .raptor ∧ ((nbALarge > 0 ∧ (aLarge = 2 ∨ aLarge = 3)) ∨
                              (nbBlocks > nbALarge ∧ (aSmall = 2 ∨ aSmall = 3))) then
        .ok (.error .raptorBlockLt4) else
      -- if oti.scheme_specific.is_none() { return Err(..) }
      if oti.scheme.isNone then .ok (.error .noSchemeSpecific) else
      -- let nb_blocks: u8 / u16 = nb_blocks.try_into().map_err(..)?;
      if nbBlocks > (if oti.fec = .raptorq then 255 else 65535) then .ok (.error .tooManyBlocks) else
      -- scheme.source_blocks_length = nb_blocks.max(1)
      .ok (.ok (setZ oti nbBlocks))
  else .ok (.ok oti)

/-- `FileDesc::new` after the transfer-length check, in source order -/
def fileDescTail (oti : Oti) (transferLength : Nat) : Rs (Except Refuse Oti) :=
  -- if (RS28 || RS28US) && oti.max_number_of_parity_symbols == 0 { return Err(..) }
  if (oti.fec = .rs28 ∨ oti.fec = .rs28us) ∧ oti.parity = 0 then .ok (.error .rsNoParity) else
  -- if RS28 || RS28US { field checks; let (a_large, ..) = block_partitioning(..); if a_large + parity > 255 { Err } }
  match rsChecks oti transferLength with
  | .error w => .error w
  | .ok (some r) => .ok (.error r)
  | .ok none => raptorTail oti transferLength

/-- `FileDesc::new(priority, object, default_oti, ..)`: the checks in source order.
    Outer `Rs`: panic; inner `Except`: `Err(FluteError)` / the OTI of the `FileDesc`. -/
def fileDescNew (dflt : Oti) (override : Option Oti) (transferLength : Nat) : Rs (Except Refuse Oti) :=
  -- let mut oti = match &object.config.oti { Some(res) => res.clone(), None => default_oti.clone() };
  let oti := match override with | some o => o | none => dflt
  -- if oti.fec_encoding_id == ReedSolomonGF2M { return Err("FEC Reed Solomon GF(2^m) is not implemented") }
  if oti.fec = .rs2m then .ok (.error .notImplemented) else
  -- let max_transfer_length = oti.max_transfer_length();
  match maxTransferLength oti with
  | .error w => .error w
  | .ok mtl =>
  -- if object.transfer_length as usize > max_transfer_length { return Err(..) }
  if transferLength > mtl then .ok (.error .tooLong) else
  fileDescTail oti transferLength

/-! ### `Sender::add_object` / `Fdt::add_object` -/

/-- the whole decision.  `priority` = the queue the application names. -/
def accepts (cfg : Cfg) (priority : Nat) (obj : Obj) : Rs (Except Refuse Admitted) :=
  -- Sender::add_object: if !self.sessions.contains_key(&priority) { return Err(..) }
  if ¬ priority ∈ cfg.queues then .ok (.error .noPriorityQueue) else
  -- Fdt::add_object: if self.complete == Some(true) { return Err(..) }
  if cfg.complete then .ok (.error .fdtComplete) else
  -- if !is_xml_str(..) || .. { return Err(..) }
  if metaOk obj = false then .ok (.error .xmlMetadata) else
  -- if let Some(toi) = obj.config.toi.as_ref() { if !toi.is_allocated_by(..) { return Err(..) } }
  if obj.toi = .foreign then .ok (.error .foreignToi) else
  -- if obj.config.toi.is_none() { obj.set_toi(self.allocate_toi()); }
  -- let filedesc = Arc::new(FileDesc::new(priority, obj, &self.oti, None, false)?);
  match fileDescNew cfg.oti obj.oti obj.transferLength with
  | .error w => .error w
  | .ok (.error r) => .ok (.error r)
  | .ok (.ok o) => .ok (.ok { oti := o, allocates := decide (obj.toi = .none) })

/-- number of TOIs the call takes from the allocator and does not give back / takes and releases -/
def consumesToi (cfg : Cfg) (priority : Nat) (obj : Obj) : Bool :=
  obj.toi = .none &&
  match accepts cfg priority obj with
  | .error _ => true                       -- the panic happens inside `FileDesc::new`, after the allocation
  | .ok (.ok _) => true
  | .ok (.error r) => r.afterAllocation

end Flute.Admission
