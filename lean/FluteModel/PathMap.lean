import FluteModel.Prim
/-
  Model of src/receiver/writer/objectwriterfs.rs (ObjectWriterFSBuilder::new, ObjectWriterFS::open / write /
  complete / error / interrupted) together with the pieces of `std::path` / `std::fs` / the kernel it relies on.

  * strings are byte lists (`List Nat`; '/' = 47, '.' = 46) — the Content-Location, the URL path, `dest`;
  * `url::Url::parse(loc)` is NOT modelled: its answer is the parameter `ans : UrlAns` (every theorem is for all answers);
  * `Path::components`, `Path::is_absolute`, `PathBuf::join`, `Path::parent` follow library/std/src/path.rs (Unix);
  * `DirBuilder::create_dir_all` follows library/std/src/fs.rs (Rust 1.95: ancestors loop, then the uncreated ones);
  * the kernel is a partial map `FS : resolved path → dir | file` with a symlink-free path walk (`walk`),
    `mkdir`, `open(O_WRONLY|O_CREAT|O_TRUNC)` (`fileCreate`) and `unlink`;
  * `resolve` is the independent POSIX *lexical* resolution of '.', '..' and empty segments.

  `openV0` is the code before the repair of D9 (kept for the negation witness), `open` is the code as it is now.
-/
namespace Flute.PathMap

/-- byte strings -/
abbrev Str := List Nat
/-- one path segment (bytes, no '/') -/
abbrev Seg := List Nat
/-- resolved absolute path: the normal segments from the filesystem root -/
abbrev RPath := List Seg

/-- what `url::Url::parse(content_location)` answered (the match in `open`, lines 100-118) -/
inductive UrlAns where
  | ok (path : Str)                       -- `Ok(url)`, `url.path()`
  | relativeUrlWithoutBase                -- `Err(ParseError::RelativeUrlWithoutBase)`
  | relativeUrlWithCannotBeABaseBase      -- `Err(ParseError::RelativeUrlWithCannotBeABaseBase)`
  | other                                 -- any other `ParseError`
  deriving DecidableEq, Repr

/-- `content_location_path` (lines 101-118); `none` = the function returns `Err` -/
def contentLocationPath (loc : Str) : UrlAns → Option Str
  | .ok path => some path
  | .relativeUrlWithoutBase => some loc
  | .relativeUrlWithCannotBeABaseBase => some loc
  | .other => none

/-- `s.strip_prefix('/').unwrap_or(s)` : strips ONE leading '/' -/
def stripSlash : Str → Str
  | [] => []
  | c :: r => if c = 47 then r else c :: r

/-! ### std::path (Unix) -/

/-- `str::split('/')` : always at least one segment -/
def splitSlash : Str → List Seg
  | [] => [[]]
  | c :: r =>
    if c = 47 then [] :: splitSlash r
    else match splitSlash r with
      | [] => [[c]]
      | s :: t => (c :: s) :: t

inductive Comp where
  | root | cur | parent
  | normal (s : Seg)
  deriving DecidableEq, Repr

def Comp.isNormal : Comp → Bool
  | .normal _ => true
  | _ => false

/-- `Components::parse_single_component` -/
def parseSingle (s : Seg) : Option Comp :=
  if s = [] then none
  else if s = [46] then none
  else if s = [46, 46] then some .parent
  else some (.normal s)

/-- `Path::has_root` = `Path::is_absolute` on Unix -/
def hasRoot (s : Str) : Bool := s.head? = some 47

/-- `Path::components().collect()` : RootDir if rooted, a leading CurDir if the path starts with "." / "./",
    then the non-empty, non-"." segments -/
def components (s : Str) : List Comp :=
  if hasRoot s then .root :: (splitSlash s).filterMap parseSingle
  else if (splitSlash s).head? = some [46] then .cur :: (splitSlash s).filterMap parseSingle
  else (splitSlash s).filterMap parseSingle

/-- `PathBuf::push` / `Path::join` : an absolute right operand REPLACES the base -/
def join (base p : Str) : Str :=
  if hasRoot p then p
  else match base.getLast? with
    | none => p
    | some c => if c = 47 then base ++ p else base ++ 47 :: p

/-- `Path::parent` on the component list (`p.parent().components() = p.components()` without the last one) -/
def parentC (cs : List Comp) : Option (List Comp) :=
  match cs.getLast? with
  | some (.normal _) => some cs.dropLast
  | some .cur => some cs.dropLast
  | some .parent => some cs.dropLast
  | _ => none

/-! ### kernel (no symlinks) -/

inductive Kind where
  | dir | file
  deriving DecidableEq, Repr

inductive Errno where
  | enoent | enotdir | eexist | eisdir
  deriving DecidableEq, Repr

/-- the filesystem: which resolved paths exist, and as what -/
abbrev FS := RPath → Option Kind

def FS.set (fs : FS) (p : RPath) (k : Option Kind) : FS := fun q => if q = p then k else fs q

/-- path walk where EVERY component must be a directory -/
def walk (fs : FS) : RPath → List Comp → Except Errno RPath
  | c, [] => .ok c
  | _, .root :: r => walk fs [] r
  | c, .cur :: r => walk fs c r
  | c, .parent :: r => walk fs c.dropLast r
  | c, .normal s :: r =>
    match fs (c ++ [s]) with
    | some .dir => walk fs (c ++ [s]) r
    | some .file => .error .enotdir
    | none => .error .enoent

/-- `Path::is_dir` of a path with components `cs` (`Path::new("").is_dir()` is false) -/
def isDirC (fs : FS) (cwd : RPath) (cs : List Comp) : Bool :=
  match cs with
  | [] => false
  | _ => match walk fs cwd cs with
    | .ok _ => true
    | .error _ => false

/-- mkdir(2) -/
def mkdir (fs : FS) (cwd : RPath) (cs : List Comp) : Except Errno (FS × RPath) :=
  match cs.getLast? with
  | none => .error .enoent
  | some last =>
    match walk fs cwd cs.dropLast with
    | .error e => .error e
    | .ok d =>
      match last with
      | .normal s =>
        match fs (d ++ [s]) with
        | some _ => .error .eexist
        | none => .ok (fs.set (d ++ [s]) (some .dir), d ++ [s])
      | _ => .error .eexist

/-- the path ends in '/', "/." or "/.." (or is such a segment / empty): it can only name a directory -/
def trailingDir (p : Str) : Bool :=
  match (splitSlash p).getLast? with
  | none => true
  | some l => l = [] || l = [46] || l = [46, 46]

/-- resolution of the final component for open(O_CREAT)/unlink: directory of the entry and its name -/
def lookupParent (fs : FS) (cwd : RPath) (p : Str) : Except Errno RPath :=
  if trailingDir p then .error .eisdir
  else match (components p).getLast? with
    | some (.normal s) =>
      match walk fs cwd (components p).dropLast with
      | .error e => .error e
      | .ok d => .ok (d ++ [s])
    | _ => .error .eisdir

/-- `File::create` = open(O_WRONLY|O_CREAT|O_TRUNC): new fs, resolved file, `true` if it did not exist -/
def fileCreate (fs : FS) (cwd : RPath) (p : Str) : Except Errno (FS × RPath × Bool) :=
  match lookupParent fs cwd p with
  | .error e => .error e
  | .ok f =>
    match fs f with
    | some .dir => .error .eisdir
    | some .file => .ok (fs, f, false)
    | none => .ok (fs.set f (some .file), f, true)

/-- `remove_file` = unlink(2) -/
def unlink (fs : FS) (cwd : RPath) (p : Str) : Except Errno (FS × RPath) :=
  match lookupParent fs cwd p with
  | .error e => .error e
  | .ok f =>
    match fs f with
    | some .file => .ok (fs.set f none, f)
    | some .dir => .error .eisdir
    | none => .error .enoent

/-! ### DirBuilder::create_dir_all (library/std/src/fs.rs) -/

/-- first loop: walk the ancestors upward until one can be created or exists; `pend` collects the
    ancestors that answered NotFound (nearest the root first). Result: fs, dirs created, pending. -/
def cdaUp (fs : FS) (cwd : RPath) : (n : Nat) → List Comp → List (List Comp) →
    Except Errno (FS × List RPath × List (List Comp))
  | 0, _, pend => .ok (fs, [], pend)
  | n + 1, cs, pend =>
    match cs with
    | [] => .ok (fs, [], pend)                                 -- ancestor == ""
    | _ =>
      match parentC cs with
      | none => .ok (fs, [], pend)                             -- ancestor.parent() == None ("/")
      | some par =>
        match mkdir fs cwd cs with
        | .ok (fs', p) => .ok (fs', [p], pend)
        | .error .enoent => cdaUp fs cwd n par (cs :: pend)
        | .error .eexist => if isDirC fs cwd cs then .ok (fs, [], pend) else .error .eexist
        | .error e => .error e

/-- outcome of an operation that may have changed the filesystem before failing -/
structure Partial where
  fs : FS
  dirs : List RPath
  err : Option Errno

/-- second loop: create the pending ancestors, nearest the root first (keeps what was created before a failure) -/
def cdaDown (cwd : RPath) : FS → List (List Comp) → List RPath → Partial
  | fs, [], acc => ⟨fs, acc, none⟩
  | fs, cs :: rest, acc =>
    match mkdir fs cwd cs with
    | .ok (fs', p) => cdaDown cwd fs' rest (acc ++ [p])
    | .error .eexist => if isDirC fs cwd cs then cdaDown cwd fs rest acc else ⟨fs, acc, some .eexist⟩
    | .error e => ⟨fs, acc, some e⟩

/-- `std::fs::create_dir_all(path)`, `cs = path.components()` -/
def createDirAll (fs : FS) (cwd : RPath) (cs : List Comp) : Partial :=
  match cs with
  | [] => ⟨fs, [], none⟩
  | _ =>
    match parentC cs with
    | none => ⟨fs, [], none⟩
    | some _ =>
      match cdaUp fs cwd (cs.length + 1) cs [] with
      | .error e => ⟨fs, [], some e⟩
      | .ok (fs1, d1, pend) => cdaDown cwd fs1 pend d1

/-! ### the writer -/

/-- `ObjectWriterFSBuilder::new(dest, _)` : `Err` unless `dest.is_dir()` -/
def builderNew (fs : FS) (cwd : RPath) (dest : Str) : Bool := isDirC fs cwd (components dest)

/-- result of `open`: the filesystem afterwards, the directories created, and — iff `open` returned `Ok` —
    `inner.destination` (the string), the resolved file it created/truncated and whether it was new -/
structure OpenRes where
  fs : FS
  dirs : List RPath
  opened : Option (Str × RPath × Bool)

/-- lines 122-141: `destination = dest.join(relative_path)`, parent / `create_dir_all`, `File::create` -/
def openAt (fs : FS) (cwd : RPath) (dest rel : Str) : OpenRes :=
  let destination := join dest rel
  let cs := components destination
  let made : Partial :=
    match parentC cs with
    | none => ⟨fs, [], none⟩
    | some par => if isDirC fs cwd par then ⟨fs, [], none⟩ else createDirAll fs cwd par
  match made.err with
  | some _ => ⟨made.fs, made.dirs, none⟩                          -- `create_dir_all(parent)?`
  | none =>
    match fileCreate made.fs cwd destination with
    | .error _ => ⟨made.fs, made.dirs, none⟩                      -- `File::create(&destination)?`
    | .ok (fs', f, fresh) => ⟨fs', made.dirs, some (destination, f, fresh)⟩

/-- `ObjectWriterFS::open` BEFORE the repair of D9 (i.e. before /repo commit f1ea0e4) -/
def openV0 (fs : FS) (cwd : RPath) (dest loc : Str) (ans : UrlAns) : OpenRes :=
  match contentLocationPath loc ans with
  | none => ⟨fs, [], none⟩
  | some clp => openAt fs cwd dest (stripSlash clp)

/-- the check added by the repair: the relative path must have at least one component and every component
    must be `Component::Normal` (no RootDir, no `.`, no `..`) -/
def relOk (rel : Str) : Bool :=
  match components rel with
  | [] => false
  | cs => cs.all Comp.isNormal

/-- the lexical part of `open`: Content-Location ↦ relative path below `dest`; `none` = unmappable -/
def mapLoc (loc : Str) (ans : UrlAns) : Option Str :=
  match contentLocationPath loc ans with
  | none => none
  | some clp => if relOk (stripSlash clp) then some (stripSlash clp) else none

/-- `ObjectWriterFS::open` as it is now -/
def «open» (fs : FS) (cwd : RPath) (dest loc : Str) (ans : UrlAns) : OpenRes :=
  match mapLoc loc ans with
  | none => ⟨fs, [], none⟩
  | some rel => openAt fs cwd dest rel

/-- how the receiver ends the object -/
inductive Outcome where
  | complete | error | interrupted
  deriving DecidableEq, Repr

/-- one observable filesystem effect -/
inductive Effect where
  | mkdir (p : RPath)
  | create (p : RPath)        -- file that did not exist
  | truncate (p : RPath)      -- existing file opened with O_TRUNC (then written)
  | remove (p : RPath)
  deriving DecidableEq, Repr

def Effect.path : Effect → RPath
  | .mkdir p => p
  | .create p => p
  | .truncate p => p
  | .remove p => p

/-- `complete` flushes and forgets the destination; `error` / `interrupted` remove `inner.destination` -/
def finish (fs : FS) (cwd : RPath) (o : OpenRes) : Outcome → FS × List Effect
  | .complete => (fs, [])
  | _ =>
    match o.opened with
    | none => (fs, [])
    | some (destination, _, _) =>
      match unlink fs cwd destination with
      | .ok (fs', f) => (fs', [.remove f])
      | .error _ => (fs, [])                                       -- `.ok()` : ignored

def openEffects (o : OpenRes) : List Effect :=
  o.dirs.map .mkdir ++
    (match o.opened with
     | none => []
     | some (_, f, fresh) => [if fresh then .create f else .truncate f])

/-- the whole life of one writer as the receiver drives it: `new_object_writer`, `open`, (on failure `error`),
    `write`, then `complete` | `error` | `interrupted`.  Returns: did `open` succeed, effects of `open`,
    effects of the end call, final filesystem. -/
def run (v0 : Bool) (fs : FS) (cwd : RPath) (dest loc : Str) (ans : UrlAns) (oc : Outcome) :
    Bool × List Effect × List Effect × FS :=
  let o := if v0 then openV0 fs cwd dest loc ans else «open» fs cwd dest loc ans
  match o.opened with
  | none => (false, openEffects o, [], o.fs)                       -- receiver calls `error`: destination is None
  | some _ =>
    let (fs', e) := finish o.fs cwd o oc
    (true, openEffects o, e, fs')

/-! ### POSIX lexical resolution (independent of the filesystem) -/

def resolveC : RPath → List Comp → RPath
  | c, [] => c
  | _, .root :: r => resolveC [] r
  | c, .cur :: r => resolveC c r
  | c, .parent :: r => resolveC c.dropLast r
  | c, .normal s :: r => resolveC (c ++ [s]) r

/-- lexical resolution of a path string against the working directory `cwd` -/
def resolve (cwd : RPath) (p : Str) : RPath := resolveC cwd (components p)

/-- `d` is a proper prefix of `p` : `p` lies strictly inside directory `d` -/
def Under (d p : RPath) : Prop := ∃ l, l ≠ [] ∧ p = d ++ l


/-! ### histories: many writers of one builder on one filesystem, calls in ANY order

  The writer's own state is `inner.destination : Option PathBuf` (`inner.writer` is `Some` exactly when it is):
  set by a successful `open` (lines 155-158), cleared by `complete` (189-190) and by `error` / `interrupted`
  (194-199).  `write` goes to the file descriptor obtained by `open`; it has no effect on any PATH. -/

structure Writer where
  loc : Str                         -- `meta.content_location`
  ans : UrlAns                      -- what `Url::parse(loc)` answers
  destination : Option Str          -- `inner.destination`

inductive Call where
  | «open» | write | complete | error | interrupted
  deriving DecidableEq, Repr

/-- one call on one writer, in the filesystem as it is at that moment:
    new filesystem, new writer state, path effects, and whether the call returned `Ok` -/
def callWriter (fs : FS) (cwd : RPath) (dest : Str) (w : Writer) : Call → FS × Writer × List Effect × Bool
  | .open =>
    let o := PathMap.open fs cwd dest w.loc w.ans
    match o.opened with
    | none => (o.fs, w, openEffects o, false)                        -- `?` returns before `inner` is touched
    | some (dst, _, _) => (o.fs, { w with destination := some dst }, openEffects o, true)
  | .write => (fs, w, [], true)
  | .complete => (fs, { w with destination := none }, [], true)
  | .error | .interrupted =>
    match w.destination with
    | none => (fs, w, [], true)
    | some dst =>
      match unlink fs cwd dst with
      | .ok (fs', g) => (fs', { w with destination := none }, [.remove g], true)
      | .error _ => (fs, { w with destination := none }, [], true)    -- `.ok()` : ignored

/-- operations of a history: `new_object_writer(meta)` of the builder, or a call on the i-th writer made so far -/
inductive HOp where
  | new (loc : Str) (ans : UrlAns)
  | call (i : Nat) (c : Call)

structure Sys where
  fs : FS
  writers : List Writer

def hstep (cwd : RPath) (dest : Str) (s : Sys) : HOp → Sys × List Effect
  | .new loc ans => ({ s with writers := s.writers ++ [⟨loc, ans, none⟩] }, [])
  | .call i c =>
    match s.writers[i]? with
    | none => (s, [])
    | some w =>
      let r := callWriter s.fs cwd dest w c
      (⟨r.1, s.writers.set i r.2.1⟩, r.2.2.1)

def hrun (cwd : RPath) (dest : Str) : Sys → List HOp → Sys × List Effect
  | s, [] => (s, [])
  | s, op :: rest =>
    let r := hstep cwd dest s op
    let r' := hrun cwd dest r.1 rest
    (r'.1, r.2 ++ r'.2)

end Flute.PathMap
