import FluteModel.Lct
/-
  Model of src/common/alccodec/*.rs (the six `AlcCodec` implementations) and of the parts of
  src/common/oti.rs they use.  `a | b` on disjoint bit ranges is written `a + b`.
-/
namespace Flute.Fti
open Flute Flute.Bytes Flute.Lct

/-- `oti::SchemeSpecific` (`none` = `Option::None`) -/
inductive SchemeSpecific where
  | none
  | rs (m g : Nat)              -- ReedSolomonGF2MSchemeSpecific { m, g } : u8, u8
  | raptorq (z n al : Nat)      -- RaptorQSchemeSpecific { Z : u8, N : u16, Al : u8 }
  | raptor (z n al : Nat)       -- RaptorSchemeSpecific { Z : u16, N : u8, Al : u8 }
deriving Repr, DecidableEq

/-- `oti::Oti`; `fecId` is the `FECEncodingID` discriminant (0, 1, 2, 5, 6, 129) -/
structure Oti where
  fecId : Nat
  inst : Nat                    -- fec_instance_id : u16
  maxSbl : Nat                  -- maximum_source_block_length : u32
  esl : Nat                     -- encoding_symbol_length : u16
  parity : Nat                  -- max_number_of_parity_symbols : u32
  ss : SchemeSpecific
  inbandFti : Bool
deriving Repr, DecidableEq

/-- `alc::PayloadID` -/
structure PayloadId where
  sbn : Nat
  esi : Nat
  sbl : Option Nat
deriving Repr, DecidableEq

def NOCODE : Nat := 0
def RAPTOR : Nat := 1
def RS2M : Nat := 2
def RS28 : Nat := 5
def RAPTORQ : Nat := 6
def RS28US : Nat := 129

/-- `FECEncodingID::try_from(u8)` succeeds -/
def knownFec (cp : Nat) : Bool := cp = 0 ∨ cp = 1 ∨ cp = 2 ∨ cp = 5 ∨ cp = 6 ∨ cp = 129

/-- checked u32 addition -/
def u32add (a b : Nat) : Rs Nat := if a + b < 2^32 then .ok (a + b) else .error "attempt to add with overflow"

/-- `fec_payload_id_block_length()` -/
def payloadIdLen (fec : Nat) : Nat := if fec = RS28US then 8 else 4

/-! ### add_fti: returns the extension bytes and the HDR_LEN increment -/

def addFtiNoCode (oti : Oti) (tl : Nat) : Rs (List Nat × Nat) :=
  .ok ([64, 4] ++ beBytes 8 ((tl * 2^16) % 2^64) ++ beBytes 2 oti.esl
        ++ beBytes 2 (oti.maxSbl / 2^16 % 2^16) ++ beBytes 2 (oti.maxSbl % 2^16), 4)

def addFtiRs28 (oti : Oti) (tl : Nat) : Rs (List Nat × Nat) :=
  match u32add oti.parity oti.maxSbl with
  | .error w => .error w
  | .ok sum =>
    let maxN := sum % 256
    .ok (beBytes 8 (64 * 2^56 + 3 * 2^48 + tl % 2^48)
          ++ beBytes 4 (oti.esl * 2^16 + (oti.maxSbl % 256) * 2^8 + maxN), 3)

def addFtiRs28Us (oti : Oti) (tl : Nat) : Rs (List Nat × Nat) :=
  match u32add oti.parity oti.maxSbl with
  | .error w => .error w
  | .ok sum =>
    .ok ([64, 4] ++ beBytes 8 ((tl * 2^16) % 2^64 + oti.inst) ++ beBytes 2 oti.esl
          ++ beBytes 2 (oti.maxSbl % 2^16) ++ beBytes 2 (sum % 2^16), 4)

def addFtiRs2m (oti : Oti) (tl : Nat) : Rs (List Nat × Nat) :=
  match oti.ss with
  | .none => .error "called `Option::unwrap()` on a `None` value"
  | .rs m g =>
    match u32add oti.parity oti.maxSbl with
    | .error w => .error w
    | .ok sum =>
      .ok (beBytes 8 (64 * 2^56 + 4 * 2^48 + tl % 2^48) ++ [m, g] ++ beBytes 2 oti.esl
            ++ beBytes 2 (oti.maxSbl % 2^16) ++ beBytes 2 (sum % 2^16), 4)
  | _ => .error "debug_assert!(false)"

def addFtiRaptorQ (oti : Oti) (tl : Nat) : Rs (List Nat × Nat) :=
  match oti.ss with
  | .none => .error "debug_assert!(oti.scheme_specific.is_some())"
  | .raptorq z n al =>
    .ok ([64, 4] ++ beBytes 8 ((tl * 2^24) % 2^64 + oti.esl % 2^16) ++ [z] ++ beBytes 2 n ++ [al]
          ++ beBytes 2 0, 4)
  | _ => .error "debug_assert!(false)"

def addFtiRaptor (oti : Oti) (tl : Nat) : Rs (List Nat × Nat) :=
  match oti.ss with
  | .none => .error "debug_assert!(oti.scheme_specific.is_some())"
  | .raptor z n al =>
    -- RFC 5053 layout (repair of D35; was the RaptorQ layout with a 40-bit transfer length)
    .ok ([64, 4] ++ beBytes 8 ((tl * 2^16) % 2^64) ++ beBytes 2 oti.esl ++ beBytes 2 z ++ [n] ++ [al], 4)
  | _ => .error "debug_assert!(false)"

/-- `codec.add_fti` dispatched on `oti.fec_encoding_id` -/
def addFti (oti : Oti) (tl : Nat) : Rs (List Nat × Nat) :=
  if oti.fecId = NOCODE then addFtiNoCode oti tl
  else if oti.fecId = RS28 then addFtiRs28 oti tl
  else if oti.fecId = RS28US then addFtiRs28Us oti tl
  else if oti.fecId = RS2M then addFtiRs2m oti tl
  else if oti.fecId = RAPTORQ then addFtiRaptorQ oti tl
  else if oti.fecId = RAPTOR then addFtiRaptor oti tl
  else .error "not a FECEncodingID"

/-! ### get_fti on the bytes returned by `get_ext(.., Ext::Fti)` -/

/-- `fti[i..j]` converted with `from_be_bytes` -/
def fld (fti : List Nat) (i j : Nat) : Out Nat := (slice fti i j).bind fun s => .ok (beVal s)

def getFtiNoCode (fti : List Nat) : Out (Oti × Nat) :=
  if fti.length ≠ 16 then .err else
  (idx fti 1).bind fun l =>
  if l ≠ 4 then .err else
  (fld fti 2 10).bind fun t =>
  (fld fti 10 12).bind fun esl =>
  (fld fti 12 16).bind fun msbl =>
  .ok ({ fecId := NOCODE, inst := 0, maxSbl := msbl, esl := esl, parity := 0, ss := .none, inbandFti := true },
       t / 2^16)

def getFtiRs28 (fti : List Nat) : Out (Oti × Nat) :=
  if fti.length ≠ 12 then .err else
  (idx fti 1).bind fun l =>
  if l ≠ 3 then .err else
  (fld fti 0 8).bind fun t =>
  (fld fti 8 10).bind fun esl =>
  (idx fti 10).bind fun msbl =>
  (idx fti 11).bind fun nes =>
  -- `(num_encoding_symbols as u32).saturating_sub(maximum_source_block_length as u32)`: repair of D2 (was a checked `-`)
  .ok ({ fecId := RS28, inst := 0, maxSbl := msbl, esl := esl, parity := nes - msbl, ss := .none, inbandFti := true },
       t % 2^48)

def getFtiRs28Us (fti : List Nat) : Out (Oti × Nat) :=
  if fti.length ≠ 16 then .err else
  (idx fti 1).bind fun l =>
  if l ≠ 4 then .err else
  (fld fti 2 10).bind fun t =>
  (fld fti 8 10).bind fun inst =>
  (fld fti 10 12).bind fun esl =>
  (fld fti 12 14).bind fun msbl =>
  (fld fti 14 16).bind fun nes =>
  .ok ({ fecId := RS28US, inst := inst, maxSbl := msbl, esl := esl, parity := nes - msbl,  -- checked_sub(..).unwrap_or_default()
         ss := .none, inbandFti := true }, t / 2^16)

def getFtiRs2m (fti : List Nat) : Out (Oti × Nat) :=
  if fti.length ≠ 16 then .err else
  (idx fti 1).bind fun l =>
  if l ≠ 4 then .err else
  (fld fti 0 8).bind fun t =>
  (idx fti 8).bind fun m =>
  (idx fti 9).bind fun g =>
  (fld fti 10 12).bind fun esl =>
  (fld fti 12 14).bind fun b =>
  (fld fti 14 16).bind fun maxN =>
  .ok ({ fecId := RS2M, inst := 0, maxSbl := b, esl := esl, parity := maxN - b,     -- saturating_sub
         ss := .rs (if m = 0 then 8 else m) (if g = 0 then 1 else g), inbandFti := true }, t % 2^48)

def getFtiRaptorQ (fti : List Nat) : Out (Oti × Nat) :=
  if fti.length ≠ 16 then .err else
  (fld fti 2 10).bind fun t =>
  let tl := t / 2^24
  (fld fti 8 10).bind fun sym =>
  (idx fti 10).bind fun z =>
  (fld fti 11 13).bind fun n =>
  (idx fti 13).bind fun al =>
  if sym = 0 then .err else
  if z = 0 then .err else
  if al = 0 then .err else
  if sym % al ≠ 0 then .err else
  let blockSize := divCeil tl z
  let msbl := divCeil blockSize sym
  .ok ({ fecId := RAPTORQ, inst := 0, maxSbl := msbl % 2^32, esl := sym, parity := 0,
         ss := .raptorq z n al, inbandFti := true }, tl)

def getFtiRaptor (fti : List Nat) : Out (Oti × Nat) :=
  if fti.length ≠ 16 then .err else
  (fld fti 2 10).bind fun t =>
  let tl := t / 2^16
  (fld fti 10 12).bind fun sym =>
  (fld fti 12 14).bind fun z =>
  (idx fti 14).bind fun n =>
  (idx fti 15).bind fun al =>
  if sym = 0 then .err else
  if z = 0 then .err else
  if al = 0 then .err else
  if sym % al ≠ 0 then .err else
  let blockSize := divCeil tl z
  let msbl := divCeil blockSize sym
  .ok ({ fecId := RAPTOR, inst := 0, maxSbl := msbl % 2^32, esl := sym, parity := 0,
         ss := .raptor z n al, inbandFti := true }, tl)

/-- the per-codec decoding of a found EXT_FTI -/
def getFtiBytes (fec : Nat) (fti : List Nat) : Out (Oti × Nat) :=
  if fec = NOCODE then getFtiNoCode fti
  else if fec = RS28 then getFtiRs28 fti
  else if fec = RS28US then getFtiRs28Us fti
  else if fec = RS2M then getFtiRs2m fti
  else if fec = RAPTORQ then getFtiRaptorQ fti
  else if fec = RAPTOR then getFtiRaptor fti
  else .panic "not a FECEncodingID"

/-- `codec.get_fti(data, lct_header)` -/
def getFti (fec : Nat) (d : List Nat) (lct : LctHeader) : Out (Option (Oti × Nat)) :=
  (getExt d lct EXT_FTI).bind fun r =>
  match r with
  | none => .ok none
  | some fti => (getFtiBytes fec fti).bind fun v => .ok (some v)

/-! ### FEC payload id -/

/-- the `m` used by the RS GF(2^m) payload-id codec -/
def rsM (oti : Oti) : Nat :=
  match oti.ss with
  | .rs m _ => m
  | _ => 8

/-- `codec.add_fec_payload_id` (`sbn`, `esi`, `source_block_length` : u32) -/
def addPayloadId (oti : Oti) (sbn esi sbl : Nat) : Rs (List Nat) :=
  if oti.fecId = NOCODE then .ok (beBytes 4 ((sbn % 2^16) * 2^16 + esi % 2^16))
  else if oti.fecId = RS28 then .ok (beBytes 4 ((sbn % 2^24) * 2^8 + esi % 2^8))
  else if oti.fecId = RS28US then .ok (beBytes 4 sbn ++ beBytes 2 sbl ++ beBytes 2 esi)
  else if oti.fecId = RS2M then
    let m := rsM oti
    if m ≥ 32 then .error "attempt to shift left with overflow"
    else .ok (beBytes 4 ((sbn * 2^m) % 2^32 + esi % 2^m))   -- `(sbn << m) | esi & ((1 << m) - 1)`: repair of D36 (mask was 0xFF)
  else if oti.fecId = RAPTORQ then .ok (beBytes 4 ((sbn % 2^8) * 2^24 + esi % 2^24))
  else if oti.fecId = RAPTOR then .ok (beBytes 4 ((sbn % 2^16) * 2^16 + esi % 2^16))
  else .error "not a FECEncodingID"

/-- the per-codec decoding of the payload-id bytes `p` (`data.try_into()` + field extraction) -/
def pidOfBytes (oti : Oti) (p : List Nat) : Out PayloadId :=
  if oti.fecId = RS28US then
    if p.length ≠ 8 then .err else
    let v := beVal p
    .ok { sbn := v / 2^32 % 2^32, esi := v % 2^16, sbl := some (v / 2^16 % 2^16) }
  else
    if p.length ≠ 4 then .err else
    let v := beVal p
    if oti.fecId = NOCODE then .ok { sbn := v / 2^16, esi := v % 2^16, sbl := none }
    else if oti.fecId = RS28 then .ok { sbn := v / 2^8, esi := v % 2^8, sbl := none }
    else if oti.fecId = RS2M then
      let m := rsM oti
      if m ≥ 32 then .err                        -- repair of D34 (was a shift-overflow panic)
      else .ok { sbn := v / 2^m, esi := v % 2^m, sbl := none }       -- `v & ((1 << m) - 1)`
    else if oti.fecId = RAPTORQ then .ok { sbn := v / 2^24, esi := v % 2^24, sbl := none }
    else if oti.fecId = RAPTOR then .ok { sbn := v / 2^16, esi := v % 2^16, sbl := none }
    else .panic "not a FECEncodingID"

/-- `codec.get_fec_payload_id(pkt, oti)` on `pkt.data[alc_header_offset..payload_offset]` -/
def getPayloadId (oti : Oti) (d : List Nat) (alcOff payOff : Nat) : Out PayloadId :=
  (slice d alcOff payOff).bind (pidOfBytes oti)

end Flute.Fti
