/-
  Rust-arithmetic layer.  Model functions that mirror Rust code with partial
  operations (checked arithmetic in the dev profile, slice indexing, unwrap)
  are written in the outcome monad `Rs α = Except String α`, where
  `.error why` stands for a *panic* (not for a `FluteError`, which is an
  ordinary value of the model).  Integers are plain `Nat` with explicit range
  checks.  No imports: this file is linked into the `flute_model` driver.
-/
namespace Flute

abbrev Rs (α : Type) := Except String α

def U8  : Nat := 2^8
def U16 : Nat := 2^16
def U32 : Nat := 2^32
def U64 : Nat := 2^64
def U128 : Nat := 2^128

/-- checked `u64` addition (dev profile: `attempt to add with overflow`) -/
def u64add (a b : Nat) : Rs Nat :=
  if a + b < 2^64 then .ok (a + b) else .error "add overflow"
/-- checked `u64` subtraction -/
def u64sub (a b : Nat) : Rs Nat :=
  if b ≤ a then .ok (a - b) else .error "sub overflow"
/-- checked `u64` multiplication -/
def u64mul (a b : Nat) : Rs Nat :=
  if a * b < 2^64 then .ok (a * b) else .error "mul overflow"

/-- `num_integer::div_ceil` on unsigned integers: `(q, r) = div_rem; if r == 0 {q} else {q+1}`.
    Division by zero panics in Rust; callers below guard it, the model returns `a / 0 = 0` there
    and every theorem carries the guard. -/
def divCeil (a b : Nat) : Nat := if a % b = 0 then a / b else a / b + 1

def Rs.isOk {α} : Rs α → Bool
  | .ok _ => true
  | .error _ => false

end Flute
