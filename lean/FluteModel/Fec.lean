import FluteModel.Prim
/-
  FEC encoders as seen by the sender (src/fec/*.rs, src/sender/block.rs `create_shards_*`).

  A `Codec` is an explicit parameter of the block-encoder model.  What flute's own code does (how the
  block buffer is cut into source symbols, whether the last one is zero-padded, in which order shards
  are emitted, which ESIs they get, when encoder creation fails) is modelled concretely; what the
  third-party crates compute (the *bytes* of repair symbols) is the opaque field `repair`, about
  which nothing is assumed.  The two facts every theorem needs are contract *fields* of the
  structure (never axioms): the number of source symbols and the bound on the number of repair
  symbols; every concrete codec below proves them.
-/
namespace Flute.Fec

abbrev Bytes := List Nat

/-- `Box<dyn FecShard>`: `esi()` and `data()` -/
structure Shard where
  esi : Nat
  data : Bytes
deriving Repr, DecidableEq

/-- i-th `e`-byte chunk of `d` (`slice.chunks(e)`), the last one possibly short -/
def chunkAt (e : Nat) (d : Bytes) (i : Nat) : Bytes := (d.drop (i * e)).take e

/-- `d.chunks(e).collect()`; `⌈len/e⌉` chunks -/
def chunks (e : Nat) (d : Bytes) : List Bytes := (List.range (divCeil d.length e)).map (chunkAt e d)

/-- `last.resize(e, 0)` -/
def padTo (e : Nat) (c : Bytes) : Bytes := c ++ List.replicate (e - c.length) 0

/-- chunks with every chunk zero-padded to `e` bytes (only the last one can be short):
    `RSCodecParam::create_shards`, `RaptorQEncoder::encode` (pads the buffer, then the crate cuts) -/
def chunksPadded (e : Nat) (d : Bytes) : List Bytes := (chunks e d).map (padTo e)

/-- ESIs `n, n+1, …` in shard order -/
def number : Nat → List Bytes → List Shard
  | _, [] => []
  | n, d :: r => ⟨n, d⟩ :: number (n + 1) r

structure Codec where
  /-- how the block buffer is cut into source symbols (symbol size `e`) -/
  split : Nat → Bytes → List Bytes
  /-- encoder creation and encoding succeed for `k` source symbols of `e` bytes and `p` parity symbols -/
  accepts : (e k p : Nat) → Bool
  /-- number of repair symbols produced for `k` source symbols and `p` configured parity symbols -/
  nRepair : (k p : Nat) → Nat
  /-- bytes of the j-th repair symbol: library output, opaque -/
  repair : (e p : Nat) → List Bytes → Nat → Bytes
  /-- contract: one source symbol per started `e` bytes -/
  split_length : ∀ e d, 0 < e → (split e d).length = divCeil d.length e
  /-- contract: at most the configured number of repair symbols -/
  nRepair_le : ∀ k p, nRepair k p ≤ p

/-- `encoder.encode(buffer)`: the source shards in ESI order `0..k-1` followed by the repair shards with
    ESIs `k..k+r-1`; `none` = `FluteError` (encoder creation or encoding failed) -/
def Codec.encode (c : Codec) (e p : Nat) (buf : Bytes) : Option (List Shard) :=
  let k := divCeil buf.length e
  if c.accepts e k p then
    let src := c.split e buf
    some (number 0 src ++ (List.range (c.nRepair k p)).map (fun j => ⟨k + j, c.repair e p src j⟩))
  else none

/-- the codec cuts source symbols as RFC slices: consecutive `e`-byte slices, the last one short
    (`pad = false`) or zero-padded to `e` (`pad = true`) -/
def Codec.Slices (c : Codec) (pad : Bool) : Prop :=
  ∀ e d, 0 < e → c.split e d = if pad then chunksPadded e d else chunks e d

theorem chunks_length (e : Nat) (d : Bytes) : (chunks e d).length = divCeil d.length e := by
  simp [chunks]

theorem chunksPadded_length (e : Nat) (d : Bytes) : (chunksPadded e d).length = divCeil d.length e := by
  simp [chunksPadded, chunks]

/-- Compact No-Code (FEC ID 0): `Block::create_shards_no_code` - chunks, nothing else, never fails.
    (`max_number_of_parity_symbols` is ignored.) -/
def noCode : Codec where
  split := chunks
  accepts := fun _ _ _ => true
  nRepair := fun _ _ => 0
  repair := fun _ _ _ _ => []
  split_length := fun e d _ => chunks_length e d
  nRepair_le := fun _ _ => Nat.zero_le _

/-- Reed-Solomon GF(2^8) (FEC ID 5 and 129): `RSGalois8Codec::new(k, p, e)` fails unless
    `1 ≤ k`, `1 ≤ p`, `k + p ≤ 256` (`reed_solomon_erasure::ReedSolomon::new`); source symbols are the
    zero-padded chunks, followed by exactly `p` repair symbols whose bytes are the crate's. -/
def reedSolomon (rep : Nat → Nat → List Bytes → Nat → Bytes) : Codec where
  split := chunksPadded
  accepts := fun _ k p => decide (1 ≤ k ∧ 1 ≤ p ∧ k + p ≤ 256)
  nRepair := fun _ p => p
  repair := rep
  split_length := fun e d _ => chunksPadded_length e d
  nRepair_le := fun _ _ => Nat.le_refl _

/-- RaptorQ (FEC ID 6): `RaptorQEncoder::encode` pads the buffer to a multiple of `e`, the crate returns
    the `k` source packets and `p` repair packets; creation never fails (also for an empty buffer). -/
def raptorQ (rep : Nat → Nat → List Bytes → Nat → Bytes) : Codec where
  split := chunksPadded
  accepts := fun _ _ _ => true
  nRepair := fun _ p => p
  repair := rep
  split_length := fun e d _ => chunksPadded_length e d
  nRepair_le := fun _ _ => Nat.le_refl _

/-- `raptor_code::Partition::new(n, k)` + `create_source_block`: `k` semi-equal pieces
    (`n mod k` pieces of `⌈n/k⌉` bytes, then the others of `⌊n/k⌋` bytes) -/
def raptorPieces (n k : Nat) : List Nat :=
  List.replicate (n - (n / k) * k) (divCeil n k) ++ List.replicate (k - (n - (n / k) * k)) (n / k)

/-- cut `d` into consecutive pieces of the given sizes -/
def cutSizes : List Nat → Bytes → List Bytes
  | [], _ => []
  | s :: r, d => d.take s :: cutSizes r (d.drop s)

theorem cutSizes_length (ss : List Nat) (d : Bytes) : (cutSizes ss d).length = ss.length := by
  induction ss generalizing d with
  | nil => rfl
  | cons s r ih => simp [cutSizes, ih]

/-- Raptor (FEC ID 1) as the code is TODAY: the block buffer is handed unpadded to
    `raptor_code::SourceBlockEncoder::new(data, k)`, which cuts it into `k` semi-equal pieces - these
    are E-byte slices only when `e` divides the buffer length.  Creation fails for `k ∈ {2, 3}`
    ("Raptor matrix is not fully specified"). -/
def raptorLegacy (rep : Nat → Nat → List Bytes → Nat → Bytes) : Codec where
  split := fun e d => cutSizes (raptorPieces d.length (divCeil d.length e)) d
  accepts := fun _ k _ => decide (k ≠ 2 ∧ k ≠ 3)
  nRepair := fun _ p => p
  repair := rep
  split_length := by
    intro e d _
    rw [cutSizes_length]
    simp only [raptorPieces, List.length_append, List.length_replicate]
    have h : d.length - d.length / divCeil d.length e * divCeil d.length e ≤ divCeil d.length e := by
      by_cases hk : divCeil d.length e = 0
      · simp only [hk, Nat.mul_zero, Nat.sub_zero]
        unfold divCeil at hk
        have h1 := Nat.div_add_mod d.length e
        split at hk
        · rename_i h0
          rw [hk, Nat.mul_zero, h0] at h1
          omega
        · exact absurd hk (Nat.succ_ne_zero _)
      · have hpos : 0 < divCeil d.length e := Nat.pos_of_ne_zero hk
        have h1 := Nat.div_add_mod d.length (divCeil d.length e)
        have h2 := Nat.mod_lt d.length hpos
        rw [Nat.mul_comm] at h1
        omega
    omega
  nRepair_le := fun _ _ => Nat.le_refl _

theorem noCode_slices : noCode.Slices false := by intro e d _; rfl
theorem reedSolomon_slices (rep) : (reedSolomon rep).Slices true := by intro e d _; rfl
theorem raptorQ_slices (rep) : (raptorQ rep).Slices true := by intro e d _; rfl

end Flute.Fec
