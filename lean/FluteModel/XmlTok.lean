import FluteModel.Drv.Util
/-
  `is_xml_str` (src/sender/fdt.rs) on a metadata string that travels as a hex token of its UTF-8 bytes: the byte scan the
  `fdtabs` driver instantiates `FdtAbs.Cfg.xmlOk` with, and the UTF-8 decoding it is justified against
  (`Lemmas/XmlTok.lean`: the scan = "every code point is an XML 1.0 Char").
-/
namespace Flute.XmlTok
open Flute

/-- no C0 control other than TAB / LF / CR, not U+FFFE (ef bf be) / U+FFFF (ef bf bf); surrogates cannot occur in the UTF-8
    of a Rust string and everything else is an XML 1.0 Char -/
def xmlOkBytes : List Nat → Bool
  | 239 :: 191 :: 190 :: _ => false
  | 239 :: 191 :: 191 :: _ => false
  | b :: r => (b ≥ 32 || b = 9 || b = 10 || b = 13) && xmlOkBytes r
  | [] => true

def xmlOkTok (t : String) : Bool :=
  match Drv.unhex t with
  | some bs => xmlOkBytes bs
  | none => true

def cont (b : Nat) : Bool := decide (128 ≤ b) && decide (b ≤ 191)

/-- one code point of well-formed UTF-8 (RFC 3629: shortest form, no surrogates, at most U+10FFFF - what a Rust `str`
    holds) and the remaining bytes; `none` on anything else -/
def step1 : List Nat → Option (Nat × List Nat)
  | [] => none
  | b0 :: r =>
    if b0 < 128 then some (b0, r)
    else if 194 ≤ b0 ∧ b0 ≤ 223 then
      match r with
      | b1 :: r1 => if cont b1 then some ((b0 - 192) * 64 + (b1 - 128), r1) else none
      | _ => none
    else if 224 ≤ b0 ∧ b0 ≤ 239 then
      match r with
      | b1 :: b2 :: r2 =>
        if cont b1 && cont b2 && decide (b0 = 224 → 160 ≤ b1) && decide (b0 = 237 → b1 ≤ 159) then
          some ((b0 - 224) * 4096 + (b1 - 128) * 64 + (b2 - 128), r2)
        else none
      | _ => none
    else if 240 ≤ b0 ∧ b0 ≤ 244 then
      match r with
      | b1 :: b2 :: b3 :: r3 =>
        if cont b1 && cont b2 && cont b3 && decide (b0 = 240 → 144 ≤ b1) && decide (b0 = 244 → b1 ≤ 143) then
          some ((b0 - 240) * 262144 + (b1 - 128) * 4096 + (b2 - 128) * 64 + (b3 - 128), r3)
        else none
      | _ => none
    else none

def decodeFuel : Nat → List Nat → Option (List Nat)
  | _, [] => some []
  | 0, _ :: _ => none
  | n + 1, b :: r =>
    match step1 (b :: r) with
    | none => none
    | some (c, rest) => (decodeFuel n rest).map (fun t => c :: t)

/-- the code points of well-formed UTF-8 (every step consumes at least one byte, so the length is enough fuel) -/
def decodeUtf8 (bs : List Nat) : Option (List Nat) := decodeFuel bs.length bs

/-- the code points of a token.  For a token that is not the hex of well-formed UTF-8 (the harness never writes one: it
    hex-encodes Rust strings) a placeholder with the same verdict, so that the statement below is total. -/
def cpTok (t : String) : List Nat :=
  match Drv.unhex t with
  | some bs =>
    (match decodeUtf8 bs with
     | some cps => cps
     | none => if xmlOkBytes bs then [] else [0])
  | none => []

/-- quick-xml 0.39 `normalize_xml11_eols` on the UTF-8 bytes of an element's text: CR LF, CR NEL, CR, NEL (c2 85)
    and U+2028 (e2 80 a8) all become LF -/
def eol11 : List Nat → List Nat
  | 13 :: 10 :: r => 10 :: eol11 r
  | 13 :: 194 :: 133 :: r => 10 :: eol11 r
  | 13 :: r => 10 :: eol11 r
  | 194 :: 133 :: r => 10 :: eol11 r
  | 226 :: 128 :: 168 :: r => 10 :: eol11 r
  | b :: r => b :: eol11 r
  | [] => []

/-- no CR, no NEL (c2 85), no U+2028 (e2 80 a8) -/
def eolFree : List Nat → Bool
  | 13 :: _ => false
  | 194 :: 133 :: _ => false
  | 226 :: 128 :: 168 :: _ => false
  | _ :: r => eolFree r
  | [] => true

end Flute.XmlTok
