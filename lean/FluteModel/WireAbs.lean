import FluteModel.Alc
import FluteModel.Recv
import FluteModel.ObjRecv
/-
  Abstraction functions from the parser model (`Alc.parseAlcPkt`, `Alc.getSenderCurrentTime`,
  `Alc.getFecInlinePayloadId`) to the packet records the session model (`Recv.Pkt`, agent recv) and the object model
  (`ObjRecv.Pkt`, agent orecv) take as input - exactly the fields receiver.rs / fdtreceiver.rs / objectreceiver.rs read:

    receiver.rs   push_data : `alc.lct.tsi != self.tsi` → Ok (ignored);  `lct.close_session`, `lct.toi`
                  push_fdt_obj : `fdt_info` (instance id), `lct.close_object`
                  push_obj : `alc::get_fec_inline_payload_id(pkt)` (sbn, esi)
    fdtreceiver.rs  `alc::get_sender_current_time(pkt)` (`if let Ok(Some(t))`), `pkt.oti` + `pkt.transfer_length`
    objectreceiver.rs  `pkt.oti`, `pkt.transfer_length`, `pkt.cenc`, `pkt.lct.close_object`, `pkt.lct.cp` (via the
                  codec), `pkt.data[data_alc_header_offset..data_payload_offset]`, `pkt.data[data_payload_offset..]`,
                  `pkt.data.len()`
  The range facts these records satisfy are proved in Props/C04WireAbs.lean (`parsed_pkt_wf`).
-/
namespace Flute.WireAbs
open Flute Flute.Alc Flute.Fti

/-- `FECEncodingID` → the object model's `Scheme` (unknown codepoints never reach the objects: the parser rejects them) -/
def schemeOf (cp : Nat) : FecDec.Scheme :=
  if cp = 0 then .noCode else if cp = 1 then .raptor else if cp = 2 then .rs2m else if cp = 5 then .rs28
  else if cp = 6 then .raptorQ else .rs28us

def ssOf : SchemeSpecific → Option FecDec.SS
  | .none => none
  | .rs m g => some (.rs m g)
  | .raptorq z n al => some (.rq z n al)
  | .raptor z n al => some (.r z n al)

/-- `oti::Oti` as the object model reads it -/
def otiObj (o : Oti) : FecDec.Oti :=
  { scheme := schemeOf o.fecId, e := o.esl, b := o.maxSbl, parity := o.parity, ss := ssOf o.ss }

/-- `oti.scheme_specific` in the session model's encoding `(kind, a, b, c)` -/
def ssRecvOf : SchemeSpecific → Option (Nat × Nat × Nat × Nat)
  | .none => none
  | .rs m g => some (0, m, g, 0)
  | .raptorq z n al => some (1, z, n, al)
  | .raptor z n al => some (2, z, n, al)

/-- `oti::Oti` as the session model forwards it -/
def otiRecv (o : Oti) : Recv.Oti :=
  { fec := o.fecId, esl := o.esl, msbl := o.maxSbl, parity := o.parity, ss := ssRecvOf o.ss }

def cencObj (c : Nat) : ObjRecv.Cenc :=
  if c = 0 then .null else if c = 1 then .zlib else if c = 2 then .deflate else .gzip

/-- `(pkt.oti, pkt.transfer_length)`: both are `fti.map(..)` of one option in `parse_alc_pkt` -/
def ftiOf (p : AlcPkt) : Option (Oti × Nat) :=
  match p.oti, p.transferLength with
  | some o, some tl => some (o, tl)
  | _, _ => none

/-- the session-level view of an accepted datagram `d` parsed to `p` -/
def absRecv (d : List Nat) (p : AlcPkt) : Recv.Pkt :=
  { toi := p.lct.toi,
    closeObject := p.lct.closeObject,
    closeSession := p.lct.closeSession,
    fdtId := p.fdtInfo.map (fun (x : Nat × Nat) => x.2),
    sct := (match getSenderCurrentTime d p with
            | .ok (some t) => some (t : Int)          -- `if let Ok(Some(res))`
            | _ => none),
    fti := (ftiOf p).map (fun (x : Oti × Nat) => { oti := otiRecv x.1, len := x.2 }),
    pid := (match getFecInlinePayloadId d p with
            | .ok pid => some (pid.sbn, pid.esi)
            | _ => none),
    plen := d.length - p.payloadOffset,
    dlen := d.length,
    cenc := p.cenc,
    raw := d }

/-- `Receiver::push_data` up to the call of `push`: parse, then the TSI comparison -/
def absParsed (tsi : Nat) (d : List Nat) : Recv.Parsed :=
  match parseAlcPkt d with
  | .ok p => if p.lct.tsi ≠ tsi then .otherTsi else .pkt (absRecv d p)
  | _ => .reject

/-- the object-level view of an accepted datagram -/
def absObj (d : List Nat) (p : AlcPkt) : ObjRecv.Pkt :=
  { toi := p.lct.toi,
    cp := schemeOf p.lct.cp,
    close := p.lct.closeObject,
    fti := (ftiOf p).map (fun (x : Oti × Nat) => (otiObj x.1, x.2)),
    cenc := p.cenc.map cencObj,
    pid := (d.drop p.alcHeaderOffset).take (p.payloadOffset - p.alcHeaderOffset),
    payload := d.drop p.payloadOffset,
    dataLen := d.length }

/-- the object model's `PayloadId` of the parser model's -/
def pidObj (x : Fti.PayloadId) : ObjRecv.PayloadId := { sbn := x.sbn, esi := x.esi, sbl := x.sbl }

end Flute.WireAbs
