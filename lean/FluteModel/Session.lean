import FluteModel.Prim
/-
  Session-level model (engine `e2e`, properties C01 / C02 / C16) at the abstraction level of
  *symbol sets*:

  * sender: for one object (block source-symbol counts `ks`, `p` repair symbols per block,
    interleave window `w`, close-object permission) the sequence of `(sbn, esi, B)` that
    `sender/blockencoder.rs::read` + `block.rs::read` emit for one transfer (round robin over a
    window of at most `w` open blocks, drained blocks removed lazily, the B-flag rule as the code
    has it), transfers concatenated as `filedesc.rs::is_last_transfer` dictates;
  * channel: a multiplicity per packet (0 = lost, order preserved) or a join offset;
  * receiver: `receiver.rs::push_obj / push_fdt_obj / check_object_state / gc_object_completed /
    create_obj` and `objectreceiver.rs::push / attach_fdt / push_to_block / write_blocks /
    push_from_cache`, with a block represented by the set of ESIs received, bytes abstract.

  FEC decoders are a parameter (`Codec`, contract fields, no axiom); the concrete instances the
  driver runs are: No-Code = all k source symbols, Reed-Solomon = any k distinct symbols of the
  k+p, Raptor/RaptorQ = the k source symbols (the part of their behaviour the contract fixes).
  No imports outside FluteModel (linked into `drv_e2e`).
-/
namespace Flute.Session

inductive Scheme where
  | nocode | rs | rsus | raptorq | raptor
deriving DecidableEq, Repr, Inhabited

/-- one emitted symbol of one source (object or FDT instance) -/
structure Sym where
  sbn : Nat
  esi : Nat
  close : Bool
deriving DecidableEq, Repr, Inhabited

/-! ## Sender: one transfer (blockencoder.rs) -/

/-- largest number of source symbols of a block the FEC library can code: K_max = 8192 of RFC 5053
    (`raptor-code`), K'_max = 56403 of RFC 6330 (`raptorq`).  A larger block makes the encoder PANIC
    (raptor-code common.rs:183, raptorq base.rs:137); `add_object` refuses such objects since /repo 29615e2. -/
def kMax : Scheme → Nat
  | .raptor => 8192
  | .raptorq => 56403
  | _ => 0

/-- does `Block::new_from_buffer` fail for a block of `k` source symbols?  (`reed-solomon-erasure`
    refuses 0 parity shards - D21; `raptor-code` cannot encode k = 2 or 3 - D23/D26; the error is swallowed by
    `read_window`, `read_end = true`.  A Raptor / RaptorQ block above the library's K maximum does not
    return an error but panics: it counts as failing too.) -/
def blockFails (s : Scheme) (k p : Nat) : Bool :=
  match s with
  | .rs | .rsus => p == 0 || k == 0 || k + p > 256
  | .raptor => k == 2 || k == 3 || decide (k > kMax .raptor)
  | .raptorq => decide (k > kMax .raptorq)
  | _ => false

/-- number of shards `encode` returns for a block -/
def shardsOf (s : Scheme) (k p : Nat) : Nat :=
  match s with
  | .nocode => k
  | _ => k + p

structure Enc where
  scheme : Scheme
  ks : Array Nat
  p : Nat
  w : Nat
  /-- `closabled_object` = `FileDesc::is_last_transfer()` when the transfer started -/
  closable : Bool
  /-- `ObjectDataSource::Stream` (an empty stream creates no block at all) -/
  streamSrc : Bool := false
deriving Repr

/-- an open block of the window: its SBN, `nb_source_symbols`, and the ESIs not yet read -/
structure WBlk where
  sbn : Nat
  k : Nat
  rest : List Nat
deriving Repr

structure EncSt where
  next : Nat          -- curr_sbn
  readEnd : Bool
  win : List WBlk     -- blocks
  idx : Nat           -- block_multiplex_index
  srcSent : Nat       -- number of source symbols sent (source_size_transferred >= transfer_length
                      --  <=> every source symbol was sent: each symbol is at most E bytes long)
  sent : Nat          -- nb_pkt_sent
deriving Repr

/-- number of source symbols of the blocks `0 .. n-1` -/
def prefixSrc (ks : Array Nat) : Nat → Nat
  | 0 => 0
  | n+1 => prefixSrc ks n + ks.getD n 0

/-- number of source symbols of the object -/
def totalSrc (ks : Array Nat) : Nat := prefixSrc ks ks.size

/-- `read_window`: `while !read_end && blocks.len() < window { read_block() }` -/
def readWindow (e : Enc) : Nat → EncSt → EncSt
  | 0, st => st
  | fuel+1, st =>
    if st.readEnd || st.win.length ≥ e.w then st else
    match e.ks[st.next]? with
    | none =>
      -- empty object: `read_block` is still called once, with an empty buffer.  No-Code yields a block
      -- without shard, Reed-Solomon fails (0 source symbols); the `raptorq` and `raptor-code` crates
      -- return the `p` repair symbols of an empty source block (ESI 0..p-1), which are then sent
      if (e.scheme == .raptorq || e.scheme == .raptor) && !e.streamSrc && e.ks.isEmpty && st.next == 0 && e.p > 0 then
        { st with win := st.win ++ [{ sbn := 0, k := 0, rest := List.range e.p }], next := 1, readEnd := true }
      else { st with readEnd := true }
    | some k =>
      if blockFails e.scheme k e.p then { st with readEnd := true } else
      let blk : WBlk := { sbn := st.next, k := k, rest := List.range (shardsOf e.scheme k e.p) }
      readWindow e fuel
        { st with win := st.win ++ [blk], next := st.next + 1,
                  readEnd := st.next + 1 == e.ks.size }

/-- the emission loop of one transfer; `fuel` bounds the iterations (each iteration emits a
    symbol or removes a drained block).  Out of fuel = `none` (never happens, see `emitFuel`). -/
def emitLoop (e : Enc) (tot : Nat) : Nat → EncSt → Option (List Sym)
  | 0, _ => none
  | fuel+1, st =>
    let st := readWindow e (e.w + 1) st
    if st.win.isEmpty then
      if st.sent == 0 && tot == 0 then
        -- "Empty file ? Send a pkt containing close object flag" (B regardless of closabled_object)
        some [{ sbn := 0, esi := 0, close := true }]
      -- no block of a NON-empty object could be created (Raptor first block of 2 / 3 symbols): nothing is sent
      -- (/repo 6808824; before: debug_assert panic, in release the empty-object packet)
      else some []
    else
      let idx := if st.idx ≥ st.win.length then 0 else st.idx
      match st.win[idx]? with
      | none => none
      | some blk =>
        match blk.rest with
        | [] => emitLoop e tot fuel { st with win := st.win.eraseIdx idx, idx := idx }
        | esi :: rest =>
          let srcSent := if esi < blk.k then st.srcSent + 1 else st.srcSent
          let win' := st.win.set idx { blk with rest := rest }
          -- last packet of the transfer (after the D3 repair, /repo 76ef81b): every source symbol
          -- sent, this block drained and no block of the window still holds a symbol
          let isLastPacket := decide (srcSent ≥ tot) && rest.isEmpty && win'.all (·.rest.isEmpty)
          let sym : Sym := { sbn := blk.sbn, esi := esi, close := e.closable && isLastPacket }
          (emitLoop e tot fuel
            { st with win := win', idx := idx + 1, srcSent := srcSent, sent := st.sent + 1 }).map (sym :: ·)

/-- shards (+1 for the lazy removal) of the blocks `0 .. n-1` -/
def fuelOf (e : Enc) : Nat → Nat
  | 0 => 0
  | n+1 => fuelOf e n + shardsOf e.scheme (e.ks.getD n 0) e.p + 1

/-- iterations that suffice for one transfer (`emit_terminates`) -/
def emitFuel (e : Enc) : Nat := fuelOf e e.ks.size + e.p + 3

def encInit : EncSt := { next := 0, readEnd := false, win := [], idx := 0, srcSent := 0, sent := 0 }

/-- the `(sbn, esi, B)` sequence of one transfer -/
def emitTransfer (e : Enc) : Option (List Sym) := emitLoop e (totalSrc e.ks) (emitFuel e) encInit

/-- no block could be created although the object is not empty: the transfer emits NOTHING (since /repo 6808824;
    before, the very first `read` hit `debug_assert!(transfer_length == 0)`, blockencoder.rs:81 - hence the name). -/
def senderPanics (e : Enc) : Bool :=
  match e.ks[0]? with
  | none => false
  | some k => blockFails e.scheme k e.p || e.w == 0

/-! ## Objects, FDT instances, the session stream -/

structure ObjCfg where
  toi : Nat
  scheme : Scheme
  ks : Array Nat           -- source symbols per block (RFC 5052 partition of the transfer length)
  blen : Array Nat         -- byte length the receiver accounts per block (allocation limit)
  p : Nat
  inbandFti : Bool
  transfers : Nat          -- max_transfer_count
  carousel : Bool
  noCache : Bool
  streamSrc : Bool := false
  pktLen : Nat := 0        -- datagram length of the object's packets (the packet cache counts whole datagrams)
  lastPktLen : Nat := 0    -- ... of the packet carrying the last source symbol of the last block (No-Code: shorter)
deriving Repr

structure FdtCfg where
  id : Nat
  ks : Array Nat
  files : List Nat         -- TOIs listed
deriving Repr

structure Pkt where
  toi : Nat
  fdtId : Nat
  sbn : Nat
  esi : Nat
  close : Bool
deriving DecidableEq, Repr, Inhabited

structure SessCfg where
  fdtScheme : Scheme
  fdtP : Nat
  w : Nat
  objs : List ObjCfg
  fdts : List FdtCfg
deriving Repr

def objEnc (s : SessCfg) (o : ObjCfg) (closable : Bool) : Enc :=
  { scheme := o.scheme, ks := o.ks, p := o.p, w := s.w, closable := closable, streamSrc := o.streamSrc }

def fdtEnc (s : SessCfg) (f : FdtCfg) : Enc :=
  { scheme := s.fdtScheme, ks := f.ks, p := s.fdtP, w := s.w, closable := false }

/-- schedule entry: which source emits the next packet(s) -/
inductive Slot where
  | fdt (id : Nat)
  | obj (toi : Nat)
deriving DecidableEq, Repr

/-- a source of packets (an object or an FDT instance) during the session: the listing of an
    ordinary transfer, of the last transfer (close-object permitted), and where it stands -/
structure Src where
  slot : Slot
  tr : List Sym
  trLast : List Sym
  transfers : Nat       -- max_transfer_count
  carousel : Bool
  t : Nat               -- transfers begun so far
  rest : List Sym       -- what is left of the current transfer

/-- listing of the `t`-th transfer (0-based): `is_last_transfer` = no carousel and t + 1 = max_transfer_count.
    `max_transfer_count = 0` without carousel: `should_transfer_now` is true once, `is_last_transfer`
    never (0 ≠ 0 + 1): ONE ordinary transfer, no close-object flag, then the object expires. -/
def Src.listing (s : Src) (t : Nat) : Option (List Sym) :=
  if s.carousel then some s.tr
  else if t + 1 < s.transfers then some s.tr
  else if t + 1 = s.transfers then some s.trLast
  else if s.transfers = 0 ∧ t = 0 then some s.tr
  else none

/-- next packet of a source -/
def Src.pull (s : Src) : Option (Sym × Src) :=
  match s.rest with
  | x :: r => some (x, { s with rest := r })
  | [] =>
    match s.listing s.t with
    | some (x :: r) => some (x, { s with t := s.t + 1, rest := r })
    | _ => none

def mkSrcs (s : SessCfg) : Option (List Src) :=
  let objs := s.objs.mapM (fun o =>
    match emitTransfer (objEnc s o false), emitTransfer (objEnc s o true) with
    | some a, some b => some { slot := Slot.obj o.toi, tr := a, trLast := b, transfers := o.transfers, carousel := o.carousel, t := 0, rest := [] : Src }
    | _, _ => none)
  let fdts := s.fdts.mapM (fun f =>
    match emitTransfer (fdtEnc s f) with
    | some a => some { slot := Slot.fdt f.id, tr := a, trLast := a, transfers := 1, carousel := true, t := 0, rest := [] : Src }
    | none => none)
  match objs, fdts with
  | some a, some b => some (a ++ b)
  | _, _ => none

def pullFrom : List Src → Slot → Option (Sym × List Src)
  | [], _ => none
  | s :: ss, k =>
    if s.slot == k then
      match s.pull with
      | some (x, s') => some (x, s' :: ss)
      | none => none
    else
      match pullFrom ss k with
      | some (x, ss') => some (x, s :: ss')
      | none => none

def mkPkt (k : Slot) (sy : Sym) : Pkt :=
  match k with
  | .fdt id => { toi := 0, fdtId := id, sbn := sy.sbn, esi := sy.esi, close := sy.close }
  | .obj t => { toi := t, fdtId := 0, sbn := sy.sbn, esi := sy.esi, close := sy.close }

/-- merge the sources along the schedule; `none` = the schedule asks a source for more packets
    than it has (the model and the implementation disagree on a source's length) -/
def buildStream : List Src → List Slot → Option (List Pkt)
  | _, [] => some []
  | srcs, k :: rest =>
    match pullFrom srcs k with
    | none => none
    | some (sy, srcs') => (buildStream srcs' rest).map (mkPkt k sy :: ·)

/-! ## Channel -/

/-- loss / duplication, order preserved: packet `i` is delivered `mults[i]` times (0 = lost) -/
def applyMults : List Pkt → List Nat → List Pkt
  | p :: ps, m :: ms => List.replicate m p ++ applyMults ps ms
  | _, _ => []

/-! ## Receiver -/

/-- FEC decoder contract.  `canDecode k p esis` = the decoder, given exactly the distinct ESIs
    `esis` of a block of `k` source symbols (+ up to `p` repair symbols), reconstructs the block. -/
structure Codec where
  canDecode : (k p : Nat) → List Nat → Bool
  /-- adding symbols never hurts -/
  mono : ∀ k p a b, (∀ x, x ∈ a → x ∈ b) → canDecode k p a = true → canDecode k p b = true
  /-- the k source symbols always suffice -/
  sources : ∀ k p a, (∀ i, i < k → i ∈ a) → canDecode k p a = true

def countDistinctBelow (n : Nat) (l : List Nat) : Nat :=
  (List.range n).countP (fun i => l.contains i)

def allBelow (k : Nat) (l : List Nat) : Bool := (List.range k).all (fun i => l.contains i)

def canDecodeOf (s : Scheme) (k p : Nat) (esis : List Nat) : Bool :=
  match s with
  | .rs | .rsus => decide (k ≤ countDistinctBelow (k + p) esis)
  | _ => allBelow k esis

structure RxCfg where
  receiveOnce : Bool
  maxSize : Nat          -- object_max_cache_size (default 10 MiB)
  maxLook : Nat := 4096  -- 2 * MAX_PREALLOCATED_BLOCKS
  /-- byte limit of the packet cache (packets of an object whose OTI is not known yet); the code uses
      `object_max_cache_size` for it too.  `none`: no limit (the configuration the lemmas are proved for;
      `Lemmas/SessionCache.lean` transfers them to the limited receiver when the limit is not reached). -/
  pktCap : Option Nat := none
deriving Repr

/-- per-object receiver (`ObjectReceiver` in state Receiving) -/
structure ORx where
  otiKnown : Bool
  attached : Bool            -- fdt_instance_id.is_some()  <=>  the object writer exists (opened)
  cache : List Sym           -- packets kept until the OTI is known (a stack: `cache.pop()`)
  written : Nat              -- blocks_offset = blocks handed to the writer
  got : List (Nat × Nat)     -- (sbn, esi) stored in the decoders of the blocks >= written
deriving Repr

inductive Term where
  | receiving | completed | interrupted | error
deriving DecidableEq, Repr

/-- per-object slice of the `Receiver` state, with the writer-call counters -/
structure OState where
  obj : Option ORx := none
  completed : Bool := false       -- TOI ∈ objects_completed
  age : Option Nat := none        -- index in fdt_current of the newest complete instance listing the TOI
  opens : Nat := 0
  completes : Nat := 0
  errors : Nat := 0
  interrupts : Nat := 0
deriving Repr

def esisOf (got : List (Nat × Nat)) (b : Nat) : List Nat :=
  (got.filter (fun x => x.1 == b)).map (·.2)

def blockDone (dec : (k p : Nat) → List Nat → Bool) (ks : Array Nat) (p : Nat) (got : List (Nat × Nat)) (b : Nat) : Bool :=
  match ks[b]? with
  | none => false
  | some k => dec k p (esisOf got b)

/-- `write_blocks`: hand the leading completed blocks to the writer -/
def advance (dec : (k p : Nat) → List Nat → Bool) (ks : Array Nat) (p : Nat) (got : List (Nat × Nat)) : Nat → Nat → Nat
  | 0, w => w
  | fuel+1, w => if w < ks.size && blockDone dec ks p got w then advance dec ks p got fuel (w + 1) else w

/-- remove duplicates (keeps the last occurrence) -/
def dedup : List Nat → List Nat
  | [] => []
  | x :: xs => if xs.contains x then dedup xs else x :: dedup xs

/-- the blocks that hold a decoder (initialised and not yet written) -/
def distinctSbns (got : List (Nat × Nat)) : List Nat := dedup (got.map (·.1))

def sumOver (blen : Array Nat) : List Nat → Nat
  | [] => 0
  | b :: t => blen.getD b 0 + sumOver blen t

/-- `total_allocated_blocks_size` -/
def allocBytes (blen : Array Nat) (got : List (Nat × Nat)) : Nat := sumOver blen (distinctSbns got)

/-- outcome of pushing symbols into an `ORx` -/
structure PushRes where
  rx : ORx
  term : Term

/-- after a change: flush blocks to the writer (only when attached), detect completion -/
def settle (dec : (k p : Nat) → List Nat → Bool) (o : ObjCfg) (rx : ORx) : PushRes :=
  if rx.attached then
    let w := advance dec o.ks o.p rx.got (o.ks.size + 1) rx.written
    let rx' := { rx with written := w, got := rx.got.filter (fun x => w ≤ x.1) }
    { rx := rx', term := if w ≥ o.ks.size then .completed else .receiving }
  else { rx := rx, term := .receiving }

/-- `push_to_block2` for one symbol of an object whose OTI is known -/
def pushCore (dec : (k p : Nat) → List Nat → Bool) (rc : RxCfg) (o : ObjCfg) (rx : ORx) (s : Sym) : PushRes :=
  -- transfer_length == 0: complete(now), once the FDT is attached and the writer exists (D14 repaired, /repo 7ec1ac7)
  if o.ks.isEmpty then { rx := rx, term := if rx.attached then .completed else .receiving }
  else if s.sbn < rx.written then { rx := rx, term := .receiving } -- already completed
  else if s.sbn - rx.written > rc.maxLook then { rx := rx, term := .error }
  else if blockDone dec o.ks o.p rx.got s.sbn then { rx := rx, term := .receiving }
  else
    let fresh := !(rx.got.any (fun x => x.1 == s.sbn))
    if fresh && (distinctSbns rx.got).length ≥ 2 && allocBytes o.blen rx.got + o.blen.getD s.sbn 0 > rc.maxSize then
      { rx := rx, term := .error }
    else
      -- `push_symbol` ignores an ESI outside the decoder's table (never the case for a genuine packet)
      let stored := match o.ks[s.sbn]? with
        | none => false
        | some k => decide (s.esi < shardsOf o.scheme k o.p) || o.scheme == .raptorq
      let got' := if stored && !(rx.got.contains (s.sbn, s.esi)) then (s.sbn, s.esi) :: rx.got else rx.got
      settle dec o { rx with got := got' }

/-- `push_to_block`: the symbol, then the close-object flag: processed while the object is still
    incomplete it means Interrupted -/
def pushSym (dec : (k p : Nat) → List Nat → Bool) (rc : RxCfg) (o : ObjCfg) (rx : ORx) (s : Sym) : PushRes :=
  let r := pushCore dec rc o rx s
  if s.close && r.term == .receiving then { rx := r.rx, term := .interrupted } else r

/-- `push_from_cache`: LIFO replay (`cache.pop()`), stops at the first terminal state -/
def replay (dec : (k p : Nat) → List Nat → Bool) (rc : RxCfg) (o : ObjCfg) : List Sym → ORx → PushRes
  | [], rx => { rx := { rx with cache := [] }, term := .receiving }
  | s :: rest, rx =>
    let r := pushSym dec rc o { rx with cache := rest } s
    if r.term == .receiving then replay dec rc o rest r.rx else r

/-- `attach_fdt` (the FDT lists the TOI): OTI / length / CENC known, writer created and opened,
    cache replayed, completed blocks written -/
def attach (dec : (k p : Nat) → List Nat → Bool) (rc : RxCfg) (o : ObjCfg) (rx : ORx) : PushRes :=
  let rx := { rx with attached := true, otiKnown := true }
  -- push_from_cache returns at once when there is no block (empty object)
  let r := if o.ks.isEmpty then { rx := rx, term := Term.receiving : PushRes } else replay dec rc o rx.cache rx
  if r.term == .receiving then settle' r.rx else r
where
  settle' (rx : ORx) : PushRes :=
    if o.ks.isEmpty then { rx := rx, term := .receiving } else settle dec o rx

/-- account a terminal state (`check_object_state` + writer callbacks) -/
def finish (o : ObjCfg) (st : OState) (r : PushRes) : OState :=
  match r.term with
  | .receiving => { st with obj := some r.rx }
  | .completed =>
    { st with obj := none,
              completes := if r.rx.attached then st.completes + 1 else st.completes,
              -- a NoCache object is not remembered; an unattached one has cache_control = None
              completed := !(o.noCache && r.rx.attached) }
  | .interrupted =>
    { st with obj := none, interrupts := if r.rx.attached then st.interrupts + 1 else st.interrupts }
  | .error =>
    { st with obj := none, errors := if r.rx.attached then st.errors + 1 else st.errors }

inductive Ev where
  | fdt (lists : Bool)     -- an FDT instance completes; does it list this object?
  | pkt (s : Sym)
deriving Repr

def ageStep (age : Option Nat) (lists : Bool) : Option Nat :=
  if lists then some 0 else
  match age with
  | some a => if a + 1 < 10 then some (a + 1) else none
  | none => none

def rx0 : ORx := { otiKnown := false, attached := false, cache := [], written := 0, got := [] }

/-- datagram length of the packet carrying symbol `s` -/
def pktBytes (o : ObjCfg) (s : Sym) : Nat :=
  if s.sbn + 1 == o.ks.size && s.esi + 1 == o.ks.getD s.sbn 0 then o.lastPktLen else o.pktLen

/-- `cache_size`: datagram bytes held in the packet cache -/
def cacheSum (o : ObjCfg) : List Sym → Nat
  | [] => 0
  | s :: t => pktBytes o s + cacheSum o t

/-- objectreceiver.rs `cache`: `if self.cache_size >= self.max_size_allocated { Err("Pkt cache is full") }` -/
def cacheFull (rc : RxCfg) (o : ObjCfg) (cache : List Sym) : Bool :=
  match rc.pktCap with
  | none => false
  | some c => decide (cacheSum o cache ≥ c)

/-- `ObjectReceiver::push` followed by `check_object_state` -/
def pushObj (dec : (k p : Nat) → List Nat → Bool) (rc : RxCfg) (o : ObjCfg) (st : OState) (rx : ORx) (s : Sym) : OState :=
  -- set_oti_from_pkt (in-band FTI)
  let rx := if !rx.otiKnown && o.inbandFti then { rx with otiKnown := true } else rx
  if !rx.otiKnown then
    -- the packet cache is full: `error("Fail to push pkt to cache")`, the object is dropped
    if cacheFull rc o rx.cache then finish o st { rx := rx, term := .error }
    else finish o st { rx := { rx with cache := s :: rx.cache }, term := .receiving }
  else finish o st (pushSym dec rc o rx s)

/-- `push_obj` once the completed-registry test has passed: find or create the object
    (`create_obj` attaches it to the first complete instance of `fdt_current` listing the TOI) -/
def pushNew (dec : (k p : Nat) → List Nat → Bool) (rc : RxCfg) (o : ObjCfg) (st : OState) (s : Sym) : OState :=
  match st.obj with
  | some rx => pushObj dec rc o st rx s
  | none =>
    if st.age.isSome then
      let pre := attach dec rc o rx0
      let st := { st with opens := st.opens + 1 }
      if pre.term != .receiving then finish o st pre else pushObj dec rc o st pre.rx s
    else pushObj dec rc o st rx0 s

/-- an FDT instance completes: `attach_latest_fdt_to_objects`, then `gc_object_completed` -/
def fdtEv (dec : (k p : Nat) → List Nat → Bool) (rc : RxCfg) (o : ObjCfg) (st : OState) (lists : Bool) : OState :=
  let st :=
    match st.obj with
    | some rx =>
      if lists && !rx.attached then
        finish o { st with opens := st.opens + 1 } (attach dec rc o rx)
      else st
    | none => st
  { st with completed := st.completed && lists, age := ageStep st.age lists }

/-- one receiver step seen from one object -/
def stepObj (dec : (k p : Nat) → List Nat → Bool) (rc : RxCfg) (o : ObjCfg) (st : OState) : Ev → OState
  | .fdt lists => fdtEv dec rc o st lists
  | .pkt s =>
    -- push_obj: the completed registry (receive-once; restart on SBN 0 / ESI 0 otherwise)
    if st.completed then
      if rc.receiveOnce then st
      else if s.sbn == 0 && s.esi == 0 then pushNew dec rc o { st with completed := false } s
      else st
    else pushNew dec rc o st s

def runObj (dec : (k p : Nat) → List Nat → Bool) (rc : RxCfg) (o : ObjCfg) : OState → List Ev → OState
  | st, [] => st
  | st, e :: es => runObj dec rc o (stepObj dec rc o st e) es

/-! ### FDT layer: which packets complete an FDT instance -/

structure FdtRx where
  receiving : List (Nat × ORx)     -- fdt_receivers: instance id ↦ its object receiver
  current : List Nat               -- fdt_current (newest first, at most 10)
deriving Repr

def fdtObj (s : SessCfg) (f : FdtCfg) : ObjCfg :=
  { toi := 0, scheme := s.fdtScheme, ks := f.ks, blen := #[], p := s.fdtP, inbandFti := true,
    transfers := 1, carousel := true, noCache := false }

/-- a fresh `FdtReceiver`: FDT packets always carry the FTI and the instance id, the writer exists at once -/
def fdtFresh : ORx := { otiKnown := true, attached := true, cache := [], written := 0, got := [] }

/-- `fdt_receivers.entry(id).or_insert(new)` -/
def fdtLookup (st : FdtRx) (id : Nat) : ORx :=
  match st.receiving.find? (fun x => x.1 == id) with
  | some x => x.2
  | none => fdtFresh

/-- bookkeeping after the packet was pushed to the instance's receiver -/
def fdtFinish (st : FdtRx) (id : Nat) (f : FdtCfg) (r : PushRes) : FdtRx × Option FdtCfg :=
  let others := st.receiving.filter (fun x => x.1 != id)
  match r.term with
  | .receiving => ({ st with receiving := (id, r.rx) :: others }, none)
  | .completed => ({ receiving := others, current := (id :: st.current).take 10 }, some f)
  | _ => ({ st with receiving := others }, none)

/-- push one FDT packet; returns the new state and the instance that completed, if any -/
def stepFdt (dec : (k p : Nat) → List Nat → Bool) (rc : RxCfg) (s : SessCfg) (st : FdtRx) (p : Pkt) : FdtRx × Option FdtCfg :=
  if rc.receiveOnce && st.current.contains p.fdtId then (st, none) else
  match s.fdts.find? (fun x => x.id == p.fdtId) with
  | none => (st, none)
  | some f =>
    -- the FDT's own allocation limit (1 MiB) does not bind: the per-block accounting of FDTs is not modelled
    fdtFinish st p.fdtId f
      (pushSym dec { rc with maxSize := 1024 * 1024, pktCap := none } (fdtObj s f) (fdtLookup st p.fdtId)
        { sbn := p.sbn, esi := p.esi, close := p.close })

/-- the event sequence one object sees when the receiver is fed `ps` -/
def eventsFor (dec : (k p : Nat) → List Nat → Bool) (rc : RxCfg) (s : SessCfg) (o : ObjCfg) : FdtRx → List Pkt → List Ev
  | _, [] => []
  | st, p :: ps =>
    if p.toi == 0 then
      let (st', done) := stepFdt dec rc s st p
      match done with
      | some f => Ev.fdt (f.files.contains o.toi) :: eventsFor dec rc s o st' ps
      | none => eventsFor dec rc s o st' ps
    else if p.toi == o.toi then
      Ev.pkt { sbn := p.sbn, esi := p.esi, close := p.close } :: eventsFor dec rc s o st ps
    else eventsFor dec rc s o st ps

def fdtRx0 : FdtRx := { receiving := [], current := [] }

/-- number of FDT instances completed (`fdt_received` callbacks) -/
def countFdt (dec : (k p : Nat) → List Nat → Bool) (rc : RxCfg) (s : SessCfg) : FdtRx → List Pkt → Nat
  | _, [] => 0
  | st, p :: ps =>
    if p.toi == 0 then
      let (st', done) := stepFdt dec rc s st p
      (if done.isSome then 1 else 0) + countFdt dec rc s st' ps
    else countFdt dec rc s st ps

/-- the observable of one object after the receiver has been fed `ps` -/
def observe (decF decO : (k p : Nat) → List Nat → Bool) (rc : RxCfg) (s : SessCfg) (o : ObjCfg) (ps : List Pkt) : OState :=
  runObj decO rc o {} (eventsFor decF rc s o fdtRx0 ps)

/-! ## Carousel cycles (C16) -/

/-- a transfer begins with the packet (SBN 0, ESI 0) -/
def Pkt.isStart (p : Pkt) : Bool := p.sbn == 0 && p.esi == 0

/-- scan `ps` (whose head has stream index `pos`) for one complete transfer of the source selected by `sel`
    that BEGINS in `ps`: skip to the source's first (0,0) packet, then run to its next (0,0) packet.
    `some e` in the third argument: a transfer has begun and `e` is the index right after the last packet of
    the source seen so far.  Result: the index right after the last packet of that transfer - `none` when the
    stream ends before the source's next transfer begins (the transfer cannot be told complete). -/
def cycleScan (sel : Pkt → Bool) : List Pkt → Nat → Option Nat → Option Nat
  | [], _, _ => none
  | p :: ps, pos, none =>
    if sel p && p.isStart then cycleScan sel ps (pos + 1) (some (pos + 1)) else cycleScan sel ps (pos + 1) none
  | p :: ps, pos, some e =>
    if sel p then (if p.isStart then some e else cycleScan sel ps (pos + 1) (some (pos + 1)))
    else cycleScan sel ps (pos + 1) (some e)

/-- end (exclusive) of the first FULL CYCLE starting at stream position `i`: the shortest prefix of
    `stream.drop i` that contains, for every source in `tois` (TOI 0 = the FDT, and the carouselled objects),
    one complete transfer begun at or after `i` -/
def cycleEnd (tois : List Nat) (stream : List Pkt) (i : Nat) : Option Nat :=
  tois.foldl (fun acc t =>
    match acc, cycleScan (fun p => p.toi == t) (stream.drop i) i none with
    | some e, some e' => some (max e e')
    | _, _ => none) (some i)

/-! ## `add_object`: scheme maximum (filedesc.rs `FileDesc::new`, oti.rs `max_transfer_length`) -/

def maxSbn : Scheme → Nat
  | .nocode => 65535
  | .rs => 255
  | .rsus => 4294967295
  | .raptorq => 255
  | .raptor => 65535

def lenCap : Scheme → Nat
  | .raptorq => 0xFFFFFFFFFF
  | _ => 0xFFFFFFFFFFFF

def maxTransferLength (s : Scheme) (e b : Nat) : Nat :=
  let size := e * b * maxSbn s
  if size > lenCap s then lenCap s else size

/-- `Sender::add_object` (`FileDesc::new`) answers `Err`: transfer length above the scheme's maximum;
    Reed-Solomon without parity symbol or with more than 255 symbols in a block (n <= 2^m - 1; /repo 318df3e,
    d5e6485, d65a846); FEC Encoding ID 5: maximum source block length + parity beyond the 8-bit fields of its FEC OTI
    (/repo d65a846); Raptor / RaptorQ with a source block above the code's K maximum (/repo 29615e2).
    `aLarge` = larger block size of the partition of `tl`. -/
def refused (s : Scheme) (e b p tl aLarge : Nat) : Bool :=
  decide (tl > maxTransferLength s e b) ||
  ((s == .rs || s == .rsus) && (p == 0 || decide (aLarge + p > 255))) ||
  ((s == .raptor || s == .raptorq) && decide (aLarge > kMax s)) ||
  (s == .rs && decide (b + p > 255)) ||
  -- FEC Encoding ID 129: the 16-bit fields of its FEC OTI (/repo dc01bce)
  (s == .rsus && decide (b + p > 65535))

/-- `FileDesc::new` in full: `refused`, or - Raptor (FEC Encoding ID 1) - the partition uses a source block of 2 or 3
    symbols, which the encoder cannot encode (/repo 42b2a1c; finding D23 / D26 repaired for objects).
    `(aLarge, aSmall, nL, n)` = `block_partitioning(B, tl, E)`. -/
def refusedFull (s : Scheme) (e b p tl aLarge aSmall nL n : Nat) : Bool :=
  refused s e b p tl aLarge ||
  (s == .raptor &&
    ((decide (nL > 0) && (aLarge == 2 || aLarge == 3)) || (decide (n > nL) && (aSmall == 2 || aSmall == 3))))

end Flute.Session
