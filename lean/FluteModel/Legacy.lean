import FluteModel.Alc
/-
  The code as it was BEFORE the repairs (pinned tree 63e2362), for the four spots whose defects were
  replayed on the real code and then fixed: kept only so that the negation witnesses in Props/C06.lean
  and Props/C04Wire.lean state precisely what was wrong.
-/
namespace Flute.Legacy
open Flute Flute.Bytes Flute.Lct

/-- `get_ext` loop with `hel = (ext[1] << 2) as usize` computed on a u8 (D7) -/
def getExtLoop : Nat → List Nat → Nat → Out (Option (List Nat))
  | 0, e, _ => if e.length ≥ 4 then .panic "hang" else .ok none
  | fuel+1, e, ext =>
    if e.length ≥ 4 then
      (idx e 0).bind fun het =>
      (if het ≥ 128 then (.ok 4 : Out Nat)
        else (idx e 1).bind fun l => .ok ((l * 4) % 256)) |>.bind fun hel =>
      if hel = 0 ∨ hel > e.length then .err else
      if het = ext then (slice e 0 hel).bind fun r => .ok (some r)
      else (slice e hel e.length).bind fun rest => getExtLoop fuel rest ext
    else .ok none

/-- `system_time_to_ntp` with the fraction rounded down (D13) -/
def systemTimeToNtp (us : Nat) : Nat :=
  (us / 1000000 + 2208988800) * 2^32 % 2^64 + (us % 1000000 * 2^32 / 1000000) % 2^32

/-- `parse_lct_header` up to the `data[3]` access without the length check (D1): outcome on a datagram -/
def parseLctHeaderHead (d : List Nat) : Out Nat :=
  match d[2]? with
  | none => .err
  | some v => if v * 4 > d.length then .err else idx d 3

end Flute.Legacy
