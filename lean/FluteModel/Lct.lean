import FluteModel.Bytes
/-
  Model of src/common/lct.rs, line by line.
  Rust operators are rendered as follows (all operands are unsigned):
     x >> k          →  x / 2^k                x & (2^k - 1)   →  x % 2^k
     (x as u8) << k  →  (x * 2^k) % 256        (u8 `<<` discards the high bits, it does not panic)
     a | b           →  a ||| b   (kept as a bitwise OR in the header word, where the operands can overlap
                                   when the caller passes psi > 3)
-/
namespace Flute.Lct
open Flute Flute.Bytes

/-- `LCTHeader` (`len` and `length` are the same value) -/
structure LctHeader where
  len : Nat
  cci : Nat
  tsi : Nat
  toi : Nat
  cp : Nat
  closeObject : Bool
  closeSession : Bool
  headerExtOffset : Nat
deriving Repr, DecidableEq

/-- `nb_bytes_128(cci, min)` -/
def nbBytes128 (v min : Nat) : Nat :=
  if v / 2^112 % 2^16 ≠ 0 then 16 else
  if v / 2^96 % 2^16 ≠ 0 then 14 else
  if v / 2^80 % 2^16 ≠ 0 then 12 else
  if v / 2^64 % 2^16 ≠ 0 then 10 else
  if v / 2^48 % 2^16 ≠ 0 then 8 else
  if v / 2^32 % 2^16 ≠ 0 then 6 else
  if v / 2^16 % 2^16 ≠ 0 then 4 else
  if v % 2^16 ≠ 0 then 2 else min

/-- `nb_bytes_64(n, min)` -/
def nbBytes64 (v min : Nat) : Nat :=
  if v / 2^48 % 2^16 ≠ 0 then 8 else
  if v / 2^32 % 2^16 ≠ 0 then 6 else
  if v / 2^16 % 2^16 ≠ 0 then 4 else
  if v % 2^16 ≠ 0 then 2 else min

def b2n (b : Bool) : Nat := if b then 1 else 0

/-- the width flags `(c, s, o, h)` chosen by `push_lct_header` -/
def widthFlags (cci tsi toi : Nat) : Nat × Nat × Nat × Nat :=
  let cciSize := nbBytes128 cci 0
  let tsiSize := nbBytes64 tsi 2
  let toiSize := nbBytes128 toi 2
  let hTsi := tsiSize / 2 % 2          -- (tsi_size & 2) >> 1
  let hToi := toiSize / 2 % 2          -- (toi_size & 2) >> 1
  let h := hTsi ||| hToi
  let o := toiSize / 4 % 4             -- (toi_size >> 2) & 0x3
  let s := tsiSize / 4 % 2             -- (tsi_size >> 2) & 1
  let c := if cciSize ≤ 4 then 0 else if cciSize ≤ 8 then 1 else if cciSize ≤ 12 then 2 else 3
  (c, s, o, h)

/-- the first 32-bit word of the header as `push_lct_header` computes it (u32 ORs and shifts) -/
def headerWord (psi cp hdrLen a b c s o h : Nat) : Nat :=
  cp ||| (hdrLen <<< 8) ||| (b <<< 16) ||| (a <<< 17) ||| (h <<< 20) ||| (o <<< 21) ||| (s <<< 23)
    ||| (psi <<< 24) ||| (c <<< 26) ||| (1 <<< 28)

/-- `push_lct_header(data = [], psi, cci, tsi, toi, codepoint, close_object, close_session)`;
    arguments range over their Rust types (psi, cp : u8, cci, toi : u128, tsi : u64) -/
def pushLctHeader (psi cci tsi toi cp : Nat) (closeObject closeSession : Bool) : List Nat :=
  let (c, s, o, h) := widthFlags cci tsi toi
  let b := b2n closeObject
  let a := b2n closeSession
  let hdrLen := (2 + o + s + h + c) % 256
  let w := headerWord psi cp hdrLen a b c s o h
  beBytes 4 w
    ++ (beBytes 16 cci).drop (16 - (c + 1) * 4)
    ++ (beBytes 8 tsi).drop (8 - (s * 4 + h * 2))
    ++ (beBytes 16 toi).drop (16 - (o * 4 + h * 2))

/-- `inc_hdr_len(data, val)`: `data[2] += val` -/
def incHdrLen (d : List Nat) (val : Nat) : Rs (List Nat) :=
  match d[2]? with
  | none => .error "index out of bounds"
  | some v => if v + val < 256 then .ok (setAt d 2 (v + val)) else .error "attempt to add with overflow"

/-- `parse_lct_header(data)` -/
def parseLctHeader (d : List Nat) : Out LctHeader :=
  match d[2]? with
  | none => .err                                   -- "Fail to read lct header size"
  | some v =>
    let len := v * 4                               -- (v as usize) << 2
    if len > d.length ∨ d.length < 4 then .err else   -- `|| data.len() < 4`: repair of D1 (was a panic in `data[3]`)
    (idx d 3).bind fun cp =>
    (idx d 0).bind fun flags1 =>
    (idx d 1).bind fun flags2 =>
    let s := flags2 / 128 % 2
    let o := flags2 / 32 % 4
    let h := flags2 / 16 % 2
    let c := flags1 / 4 % 4
    let a := flags2 / 2 % 2
    let b := flags2 % 2
    let version := flags1 / 16
    if version ≠ 1 ∧ version ≠ 2 then .err else
    let cciLen := (c + 1) * 4
    let tsiLen := s * 4 + h * 2
    let toiLen := o * 4 + h * 2
    let cciFrom := 4
    let cciTo := 4 + cciLen
    let tsiTo := cciTo + tsiLen
    let toiTo := tsiTo + toiLen
    let headerExtOffset := toiTo
    if toiTo > d.length ∨ cciLen > 16 ∨ tsiLen > 8 ∨ toiLen > 16 then .err else
    if headerExtOffset > len then .err else
    (slice d cciFrom cciTo).bind fun cciB =>
    (slice d cciTo tsiTo).bind fun tsiB =>
    (slice d tsiTo toiTo).bind fun toiB =>
    -- `cci[(16 - cci_len)..].copy_from_slice(..)` then `u128::from_be_bytes`
    let cci := beVal (List.replicate (16 - cciLen) 0 ++ cciB)
    let tsi := beVal (List.replicate (8 - tsiLen) 0 ++ tsiB)
    let toi := beVal (List.replicate (16 - toiLen) 0 ++ toiB)
    .ok { len := len, cci := cci, tsi := tsi, toi := toi, cp := cp,
          closeObject := b ≠ 0, closeSession := a ≠ 0, headerExtOffset := headerExtOffset }

/-- the `while` loop of `get_ext`; `fuel` bounds the iterations (out of fuel = `hang`) -/
def getExtLoop : Nat → List Nat → Nat → Out (Option (List Nat))
  | 0, e, _ => if e.length ≥ 4 then .panic "hang" else .ok none
  | fuel+1, e, ext =>
    if e.length ≥ 4 then
      (idx e 0).bind fun het =>
      (if het ≥ 128 then (.ok 4 : Out Nat)
        else (idx e 1).bind fun l => .ok (l * 4)) |>.bind fun hel =>   -- `(l as usize) << 2`: repair of D7 (was `(l << 2)` on a u8)
      if hel = 0 ∨ hel > e.length then .err else
      if het = ext then (slice e 0 hel).bind fun r => .ok (some r)
      else (slice e hel e.length).bind fun rest => getExtLoop fuel rest ext
    else .ok none

/-- `get_ext(data, lct, ext)` -/
def getExt (d : List Nat) (lct : LctHeader) (ext : Nat) : Out (Option (List Nat)) :=
  (slice d lct.headerExtOffset lct.len).bind fun e => getExtLoop e.length e ext

/-- HET values (`enum Ext`) -/
def EXT_FDT : Nat := 192
def EXT_FTI : Nat := 64
def EXT_CENC : Nat := 193
def EXT_TIME : Nat := 2

end Flute.Lct
