import FluteModel.Prim
/-
  Byte-string layer shared by the wire-format models (Lct / Alc / Fti / Ntp).

  * bytes are `List Nat` (every element `< 256`; theorems about arbitrary datagrams quantify over
    `List UInt8` and map `UInt8.toNat`, so no well-formedness hypothesis is needed there);
  * `Out α` is the outcome of a Rust function returning `Result<α, FluteError>`:
      `ok v`     - `Ok(v)`
      `err`      - `Err(FluteError)`            (observation `ERR`)
      `panic w`  - the function unwinds          (observation `PANIC`)
    A loop whose model runs out of fuel is reported as `panic "hang"`.
  * `beBytes n v` = the last `n` bytes of `v.to_be_bytes()`; `beVal d` = `uN::from_be_bytes(d)`.
  No imports outside FluteModel: linked into the `drv_wire` executable.
-/
namespace Flute

inductive Out (α : Type) where
  | ok (v : α)
  | err
  | panic (why : String)
deriving Repr, DecidableEq

namespace Out

def bind {α β} (x : Out α) (f : α → Out β) : Out β :=
  match x with
  | ok v => f v
  | err => err
  | panic w => panic w

def isPanic {α} : Out α → Bool
  | panic _ => true
  | _ => false

def isOk {α} : Out α → Bool
  | ok _ => true
  | _ => false

@[simp] theorem bind_ok {α β} (v : α) (f : α → Out β) : (ok v).bind f = f v := rfl
@[simp] theorem bind_err {α β} (f : α → Out β) : (err : Out α).bind f = err := rfl
@[simp] theorem bind_panic {α β} (w : String) (f : α → Out β) : (panic w : Out α).bind f = panic w := rfl
@[simp] theorem isPanic_ok {α} (v : α) : (ok v).isPanic = false := rfl
@[simp] theorem isPanic_err {α} : (err : Out α).isPanic = false := rfl
@[simp] theorem isPanic_panic {α} (w : String) : (panic w : Out α).isPanic = true := rfl

/-- a panicking Rust expression (`Rs`) used inside a `Result` function -/
def ofRs {α} : Rs α → Out α
  | .ok v => ok v
  | .error w => panic w

end Out

/-- sequencing of panicking expressions (explicit, so that `simp` unfolds it predictably) -/
def rsBind {α β} (x : Rs α) (f : α → Rs β) : Rs β :=
  match x with
  | .ok v => f v
  | .error w => .error w

@[simp] theorem rsBind_ok {α β} (v : α) (f : α → Rs β) : rsBind (.ok v) f = f v := rfl
@[simp] theorem rsBind_error {α β} (w : String) (f : α → Rs β) : rsBind (.error w : Rs α) f = .error w := rfl

namespace Bytes

/-- the last `n` bytes of the big-endian representation of `v` (`v.to_be_bytes()[len-n..]`) -/
def beBytes : Nat → Nat → List Nat
  | 0, _ => []
  | n+1, v => (v / 256 ^ n % 256) :: beBytes n v

/-- `uN::from_be_bytes` -/
def beVal : List Nat → Nat
  | [] => 0
  | b :: r => b * 256 ^ r.length + beVal r

/-- every element is a byte -/
def Wf (d : List Nat) : Prop := ∀ b ∈ d, b < 256

/-- `&d[i..j]` -/
def slice (d : List Nat) (i j : Nat) : Out (List Nat) :=
  if i ≤ j ∧ j ≤ d.length then .ok ((d.drop i).take (j - i)) else .panic "slice index out of range"

/-- `d[i]` -/
def idx (d : List Nat) (i : Nat) : Out Nat :=
  match d[i]? with
  | some b => .ok b
  | none => .panic "index out of bounds"

/-- `&d[i..j]` in a function that can only panic (`Rs`) -/
def sliceRs (d : List Nat) (i j : Nat) : Rs (List Nat) :=
  if i ≤ j ∧ j ≤ d.length then .ok ((d.drop i).take (j - i)) else .error "slice index out of range"

/-- replace element `i` (`d[i] = v`), no-op when out of range (callers check the range first) -/
def setAt : List Nat → Nat → Nat → List Nat
  | [], _, _ => []
  | _ :: r, 0, v => v :: r
  | b :: r, i+1, v => b :: setAt r i v

end Bytes
end Flute
