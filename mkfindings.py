#!/usr/bin/env python3
"""merges findings.d/*.json (written by the component builders; ./check reads them too) into known_findings.json (status finding / fixed) and observations.json (status observation), and regenerates the table of DESIGN.md §6 - run by hand, never by ./check"""
import json, os
V = os.path.dirname(os.path.abspath(__file__))
items = []
for fn in sorted(os.listdir(os.path.join(V, "findings.d"))):
    if fn.endswith(".json"):
        x = json.load(open(os.path.join(V, "findings.d", fn)))
        for e in (x if isinstance(x, list) else [x]):
            e = dict(e); e.setdefault("id", fn[:-5]); items.append(e)
items.sort(key=lambda e: (e.get("property", ""), e.get("status", ""), e.get("class", e.get("commit", ""))))
obs = [e for e in items if e.get("status") == "observation"]
items = [e for e in items if e.get("status") != "observation"]
json.dump({"_comment": "NOT findings and NOT violations: behaviour an engine's oracle notices on inputs OUTSIDE what the property quantifies over (the check would demand more than the property states if it reported them). ./check counts them in the evidence notes and otherwise ignores exactly the oracle class named.",
           "observations": obs}, open(os.path.join(V, "observations.json"), "w"), indent=1)
json.dump({"_comment": "status=finding: genuine defect recorded, not repaired - suppresses exactly the oracle class named; status=fixed: repaired by the named /repo commit - suppresses nothing",
           "findings": items}, open(os.path.join(V, "known_findings.json"), "w"), indent=1)
def cell(t, n):
    t = " ".join(str(t).split()).replace("|", "/")
    return t if len(t) <= n else t[: n - 1] + "…"
rows = ["| id | property | status | commit / oracle class | what fails |", "|---|---|---|---|---|"]
for e in sorted(items, key=lambda e: (e["status"] != "fixed", e.get("property", ""), e.get("id", ""))):
    rows.append(f"| {e.get('id','')} | {e.get('property','')} | {e['status']} | {cell(e.get('commit','')[:10] if e['status']=='fixed' else '`'+e.get('class','')+'`', 60)} | {cell(e.get('what',''), 330)} |")
if obs:
    rows += ["", "Observations outside a property's quantifier (`observations.json`; neither findings nor violations - see §7):", "", "| id | property | oracle class | what is observed, and why it is outside the property |", "|---|---|---|---|"]
    for e in sorted(obs, key=lambda e: (e.get("property", ""), e.get("id", ""))):
        rows.append(f"| {e.get('id','')} | {e.get('property','')} | `{e.get('class','')}` | {cell(e.get('what',''), 420)} |")
dp = os.path.join(V, "DESIGN.md")
d = open(dp).read()
a = d.index("<!-- FINDINGS-TABLE-BEGIN"); a = d.index("\n", a) + 1
b = d.index("<!-- FINDINGS-TABLE-END")
open(dp, "w").write(d[:a] + "\n".join(rows) + "\n" + d[b:])
print(len(items), "entries:", sum(e["status"] == "finding" for e in items), "findings,", sum(e["status"] == "fixed" for e in items), "fixed;", len(obs), "observations")
