#!/usr/bin/env python3
"""merges findings.d/*.json (drafts written by the component builders) into known_findings.json - run by hand, never by ./check"""
import json, os
V = os.path.dirname(os.path.abspath(__file__))
items = []
for fn in sorted(os.listdir(os.path.join(V, "findings.d"))):
    if fn.endswith(".json"):
        x = json.load(open(os.path.join(V, "findings.d", fn)))
        for e in (x if isinstance(x, list) else [x]):
            e = dict(e); e.setdefault("id", fn[:-5]); items.append(e)
items.sort(key=lambda e: (e.get("property", ""), e.get("status", ""), e.get("class", e.get("commit", ""))))
json.dump({"_comment": "status=finding: genuine defect recorded, not repaired - suppresses exactly the oracle class named; status=fixed: repaired by the named /repo commit - suppresses nothing",
           "findings": items}, open(os.path.join(V, "known_findings.json"), "w"), indent=1)
print(len(items), "entries:", sum(e["status"] == "finding" for e in items), "findings,", sum(e["status"] == "fixed" for e in items), "fixed")
