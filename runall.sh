#!/bin/bash
# runs every claimed check (quick by default) and prints one summary line each
tier=${1:-quick}
for f in props.d/*.json; do
  p=$(basename $f .json)
  s=$(date +%s)
  out=$(./check $p $tier 2>&1); rc=$?
  echo "$p rc=$rc $(( $(date +%s) - s ))s :: $(echo "$out" | grep -E '^\[' | tail -1 | cut -c1-200)"
  echo "$out" | grep -E '^VIOLATION|^KNOWN-FINDING' | cut -c1-220
done
