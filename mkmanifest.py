#!/usr/bin/env python3
"""Regenerates MANIFEST.json from the table below (keeps it valid and consistent with ./check)."""
import json, os, subprocess
V = os.path.dirname(os.path.abspath(__file__))
ALL = [f"C{i:02d}" for i in range(1, 21)]

CLAIMED = {
 "C07": dict(
   text="Lean 4 theorems over all (B,E,L) (no size bound beyond the u64/field ranges stated) about a line-by-line model of "
        "block_partitioning/block_length and of the sender/receiver slicing: equality with the RFC 5052 §9.1 formulas, coverage, "
        "byte lengths summing to L, no u64 overflow for L<2^48, sender/receiver agreement, RaptorQ/Raptor B reconstruction. "
        "The model is tied to the current tree by differential execution of the real functions (verif hooks) against the compiled model.",
   note="Trusted: Lean kernel; axioms propext/Classical.choice/Quot.sound only; the hand-written model (validated on the exhaustive small grid, "
        "boundary and seeded random triples each run); harness + model driver. num_integer::div_ceil/div_floor modelled from their source.",
   technique="Lean 4 proof over an executable model + differential correspondence with the Rust functions",
   design="§5 C07"),
}
NA_REASON = "not yet claimed in this commit: model/correspondence under construction (see DESIGN.md §8 order of work)"

def main():
    hooks_commits = subprocess.run(["git", "-C", "/repo", "log", "--format=%H", "--grep=^verif hooks"], capture_output=True, text=True).stdout.split()
    m = dict(
        version=1,
        setup_cmd="./check setup",
        hooks=dict(guard="cargo feature verif-hooks", enable="harness/Cargo.toml: flute = { path = \"/repo\", features = [\"verif-hooks\"] }",
                   baseline_off_cmd="cd /repo && cargo test --workspace --no-fail-fast --offline",
                   source_commits=hooks_commits, add_only=True),
        engines=[
            dict(name="lean-model", path="lean/", serves_properties=sorted(CLAIMED), kind_free_text="Lean 4 executable model, specs, theorems (lake project, no Mathlib in model files), compiled line-protocol driver flute_model"),
            dict(name="rust-harness", path="harness/", serves_properties=sorted(CLAIMED), kind_free_text="Rust crate linking /repo with feature verif-hooks: seeded generators, drivers running the real code in-process, per-property oracles"),
        ],
        checks=[],
        notes="Every check: (1) lake build of the property's theorem module + axiom audit (#audit_ns), (2) cargo build of the harness against /repo's working tree, "
              "(3) generated cases run on the real code and on the compiled Lean model, streams diffed, (4) property oracle on the implementation's observations. See DESIGN.md.",
        not_applicable=[],
    )
    for p in ALL:
        if p in CLAIMED:
            c = CLAIMED[p]
            m["checks"].append(dict(
                property_id=p, quick_cmd=f"./check {p} quick", thorough_cmd=f"./check {p} thorough",
                evidence_file=f"evidence/{p}.json", replay_cmd_template="./check replay {path}", engine="lean-model",
                level_claimed=dict(category="proof", text=c["text"], design_ref=c["design"]),
                level_note=c["note"], technique=c["technique"]))
        else:
            m["not_applicable"].append(dict(property_id=p, reason=NA_REASON))
    json.dump(m, open(os.path.join(V, "MANIFEST.json"), "w"), indent=1)
    try:
        import jsonschema
        jsonschema.validate(m, json.load(open("/root/.vp/MANIFEST.schema.json")))
        print("MANIFEST.json valid;", len(m["checks"]), "checks")
    except ImportError:
        print("jsonschema not available; written")
main()
