#!/usr/bin/env python3
"""Regenerates MANIFEST.json from the table below (keeps it valid and consistent with ./check)."""
import json, os, subprocess
V = os.path.dirname(os.path.abspath(__file__))
ALL = [f"C{i:02d}" for i in range(1, 21)]

CLAIMED = {}
for fn in sorted(os.listdir(os.path.join(V, "props.d"))):
    if fn.endswith(".json"):
        CLAIMED[fn[:-5]] = json.load(open(os.path.join(V, "props.d", fn)))["manifest"]
NA_REASON = "not yet claimed in this commit: model/correspondence under construction (see DESIGN.md §8 order of work)"

def main():
    hooks_commits = subprocess.run(["git", "-C", "/repo", "log", "--format=%H", "-E", "--grep=^(verif hooks|hook):"], capture_output=True, text=True).stdout.split()
    m = dict(
        version=1,
        setup_cmd="./check setup",
        hooks=dict(guard="cargo feature verif-hooks", enable="harness/engines/<eng>/Cargo.toml (one stand-alone package per engine): flute = { path = \"/repo\", features = [\"verif-hooks\"] }",
                   baseline_off_cmd="cd /repo && cargo test --workspace --no-fail-fast --offline",
                   source_commits=hooks_commits, add_only=True),
        engines=[
            dict(name="lean-model", path="lean/", serves_properties=sorted(CLAIMED), kind_free_text="Lean 4 executable model, specs, theorems (lake project, no Mathlib in model files), one compiled line-protocol driver per engine (lean_exe drv_<eng>)"),
            dict(name="rust-harness", path="harness/", serves_properties=sorted(CLAIMED), kind_free_text="one stand-alone Rust package per engine (harness/engines/<eng>, shared harness/core) linking /repo with feature verif-hooks: seeded generators, drivers running the real code in-process, per-property oracles"),
        ],
        checks=[],
        notes="Every check: (1) lake build of the property's theorem module + axiom audit (#audit_ns), (2) cargo build of the harness against /repo's working tree, "
              "(3) generated cases run on the real code and on the compiled Lean model, streams diffed, (4) property oracle on the implementation's observations. See DESIGN.md.",
        not_applicable=[],
    )
    for p in ALL:
        if p in CLAIMED:
            c = CLAIMED[p]
            m["checks"].append(dict(
                property_id=p, quick_cmd=f"./check {p} quick", thorough_cmd=f"./check {p} thorough",
                evidence_file=f"evidence/{p}.json", replay_cmd_template="./check replay {path}", engine="lean-model",
                level_claimed=dict(category="proof", text=c["text"], design_ref=c["design"]),
                level_note=c["note"], technique=c["technique"]))
        else:
            m["not_applicable"].append(dict(property_id=p, reason=NA_REASON))
    json.dump(m, open(os.path.join(V, "MANIFEST.json"), "w"), indent=1)
    try:
        import jsonschema
        jsonschema.validate(m, json.load(open("/root/.vp/MANIFEST.schema.json")))
        print("MANIFEST.json valid;", len(m["checks"]), "checks")
    except ImportError:
        print("jsonschema not available; written")
main()
