//! C15: TOI allocation.  The real `Sender` (public API only) is driven through allocate / drop /
//! add-object / remove / transfer sequences; every observation is compared with the Lean model
//! (`FluteModel/Toi.lean`, `FluteModel/ToiWire.lean`) and the property itself is evaluated on the
//! implementation's observations by the oracle below.
use flute::core::lct::push_lct_header;
use flute::core::{alc, Oti, UDPEndpoint};
use flute::sender::{CarouselRepeatMode, Config, ObjectDesc, Sender, TOIMaxLength, Toi, TransferConfig};
use harness_core::{guarded, hex, Ctx, Engine, Oracle, Rng};
use std::collections::{BTreeMap, BTreeSet};
use std::panic::AssertUnwindSafe;
use std::sync::atomic::{AtomicU64, Ordering};
use std::sync::mpsc::{channel, Receiver, RecvTimeoutError, Sender as ChanTx};
use std::sync::Arc;
use std::time::{Duration, SystemTime};

// ---- last clause of C15: checked by rustc when this crate compiles, not by a theorem ----------
fn assert_send_sync<T: Send + Sync>() {}
#[allow(dead_code)]
const _SEND_SYNC: fn() = || {
    assert_send_sync::<Toi>();
    assert_send_sync::<Box<Toi>>();
    assert_send_sync::<Sender>();
};

const WIDTHS: [u32; 6] = [16, 32, 48, 64, 80, 112];

fn width(bits: u32) -> Option<TOIMaxLength> {
    Some(match bits {
        16 => TOIMaxLength::ToiMax16,
        32 => TOIMaxLength::ToiMax32,
        48 => TOIMaxLength::ToiMax48,
        64 => TOIMaxLength::ToiMax64,
        80 => TOIMaxLength::ToiMax80,
        112 => TOIMaxLength::ToiMax112,
        _ => return None,
    })
}

fn now() -> SystemTime {
    SystemTime::UNIX_EPOCH + Duration::from_secs(1_750_000_000)
}

/// TOI related facts of one packet: (is FDT packet, TOI as parsed by flute, O, H, raw TOI field)
fn pkt_toi(data: &[u8]) -> Option<(bool, u128, u8, u8, Vec<u8>)> {
    let p = alc::parse_alc_pkt(data).ok()?;
    let (b0, b1) = (data[0], data[1]);
    let s = (b1 >> 7) & 1;
    let o = (b1 >> 5) & 3;
    let h = (b1 >> 4) & 1;
    let c = (b0 >> 2) & 3;
    let off = 4 + 4 * (c as usize + 1) + 4 * s as usize + 2 * h as usize;
    let len = 4 * o as usize + 2 * h as usize;
    if off + len > data.len() {
        return None;
    }
    Some((p.fdt_info.is_some(), p.lct.toi, o, h, data[off..off + len].to_vec()))
}

fn wire_line(p: &(bool, u128, u8, u8, Vec<u8>)) -> String {
    format!("wire {} {} {} {}", p.1, p.2, p.3, hex(&p.4))
}

/// the TOI attributes of the `File` entries of an FDT instance, sorted - read with flute's own FDT parser
/// (`verif_hooks::fdt_parse_summary`), not by searching the text.  Err = the harness could not read the
/// document at all (reported as a harness error, never as a silently empty list); Ok(None) = a TOI attribute is
/// not a decimal u128.
fn fdt_tois(xml: &[u8]) -> Result<Option<Vec<u128>>, String> {
    let sum = flute::verif_hooks::fdt_parse_summary(xml).ok_or_else(|| "fdt-unparsable".to_string())?;
    let mut out = Vec::new();
    for f in sum.files.unwrap_or_default() {
        match f.toi.parse::<u128>() {
            Ok(v) => out.push(v),
            Err(_) => return Ok(None),
        }
    }
    out.sort();
    Ok(Some(out))
}

/// what the last `admission` / refused `addfail` operation showed beyond the compared observation (samples for the
/// evidence distribution, never compared with the model)
static LAST_SAMPLE: std::sync::Mutex<String> = std::sync::Mutex::new(String::new());


// ------------------------------------------------------------------------------------------------
// admission family (`Flute.Admission.accepts`):
//   admission <prio> <complete 0|1> <default oti> <override oti|-> <transfer length> <none|own|foreign>
//         <content type> <md5|-> <etag|-> <groups|->
//   oti     = <fec id>:<E>:<B>:<parity>:<n | q.<z>.<n>.<al> | r.<z>.<n>.<al> | s.<m>.<g>>
//   strings = code points, decimal, '.'-separated ("e" = empty string); groups = strings separated by '/'
// A fresh Sender (ToiMax112, start value 1, priority queue 0 only) per operation; observation
//   ok z=<Z announced in the FDT File entry|-> next=<next TOI>  |  ERR <reason> next=<next TOI>  |  PANIC

fn parse_oti(tok: &str) -> Option<Oti> {
    let f: Vec<&str> = tok.split(':').collect();
    if f.len() != 5 {
        return None;
    }
    let sc: Vec<&str> = f[4].split('.').collect();
    let n = |i: usize| -> Option<u32> { sc.get(i)?.parse().ok() };
    let scheme = match (sc[0], sc.len()) {
        ("n", 1) => None,
        ("s", 3) => Some((0u8, n(1)?, n(2)?, 0)),
        ("q", 4) => Some((1u8, n(1)?, n(2)?, n(3)?)),
        ("r", 4) => Some((2u8, n(1)?, n(2)?, n(3)?)),
        _ => return None,
    };
    flute::verif_hooks::make_oti(f[0].parse().ok()?, 0, f[2].parse().ok()?, f[1].parse().ok()?, f[3].parse().ok()?, scheme, true)
}

fn parse_str(tok: &str) -> Option<String> {
    if tok == "e" {
        return Some(String::new());
    }
    tok.split('.').map(|x| x.parse::<u32>().ok().and_then(char::from_u32)).collect()
}

fn parse_opt_str(tok: &str) -> Option<Option<String>> {
    if tok == "-" {
        Some(None)
    } else {
        parse_str(tok).map(Some)
    }
}

/// reason token of an `add_object` error (the text of the FluteError names the check that refused)
fn refuse_reason(msg: &str) -> &'static str {
    if msg.contains("Priority queue") {
        "noq"
    } else if msg.contains("FDT is complete") {
        "complete"
    } else if msg.contains("XML 1.0 cannot carry") {
        "xml"
    } else if msg.contains("has not been allocated by this sender") {
        "foreign"
    } else if msg.contains("is not implemented") {
        "notimpl"
    } else if msg.contains("is bigger than") {
        "toolong"
    } else if msg.contains("number of parity symbols is 0") {
        "rsnoparity"
    } else if msg.contains("fields of the FEC OTI") {
        "rsfields"
    } else if msg.contains("symbols of Reed Solomon GF(2^8)") {
        "rs255"
    } else if msg.contains("source symbols per block of the FEC scheme") {
        "kmax"
    } else if msg.contains("cannot be encoded by the FEC Raptor") {
        "raptorlt4"
    } else if msg.contains("scheme parameters are not defined") {
        "noscheme"
    } else if msg.contains("requires the transmission of") {
        "toomanyblocks"
    } else {
        "other"
    }
}

const NOCODE_OTI: &str = "0:1024:64:0:n";

/// `admissionc <oti> <cenc 1 zlib|2 deflate|3 gzip> <r|z> <plain length> <transfer length>`: a REAL content-encoded
/// object (r = incompressible pseudo-random bytes, z = zeros) with `oti` as per-object override is added to a fresh
/// sender.  Its transfer length (length after content encoding, what `FileDesc::new` must compare with
/// `max_transfer_length`) is read back from the `ObjectDesc` and must be the one on the line (the model's input).
/// `only_len`: just return that length.
fn admit_cenc(t: &[&str], only_len: bool) -> String {
    use flute::core::lct::Cenc;
    let bad = || "bad-op".to_string();
    let oti = match parse_oti(t[0]) {
        Some(o) => o,
        None => return bad(),
    };
    let cenc = match t[1] {
        "1" => Cenc::Zlib,
        "2" => Cenc::Deflate,
        "3" => Cenc::Gzip,
        _ => return bad(),
    };
    let (plain, tl): (usize, u64) = match (t[3].parse(), t[4].parse()) {
        (Ok(a), Ok(b)) if a <= 8_000_000 => (a, b),
        _ => return bad(),
    };
    let content: Vec<u8> = match t[2] {
        "z" => vec![0u8; plain],
        "r" => {
            let mut x: u64 = 0x9E37_79B9_7F4A_7C15 ^ plain as u64;
            (0..plain)
                .map(|_| {
                    x ^= x >> 12;
                    x ^= x << 25;
                    x ^= x >> 27;
                    (x.wrapping_mul(0x2545_F491_4F6C_DD1D) >> 56) as u8
                })
                .collect()
        }
        _ => return bad(),
    };
    let r = guarded(AssertUnwindSafe(|| {
        let obj = match ObjectDesc::create_from_buffer(
            content,
            "application/octet-stream",
            &url::Url::parse("file:///obj").unwrap(),
            false,
            TransferConfig { oti: Some(oti.clone()), cenc, ..Default::default() },
        ) {
            Ok(o) => o,
            Err(_) => return "HARNESS-ERROR create".to_string(),
        };
        if only_len {
            return obj.transfer_length.to_string();
        }
        if obj.transfer_length != tl {
            return format!("HARNESS-ERROR transfer-length {}", obj.transfer_length);
        }
        let cfg = Config { toi_max_length: TOIMaxLength::ToiMax112, toi_initial_value: Some(1), ..Default::default() };
        let ep = UDPEndpoint::new(None, "224.0.0.1".to_owned(), 1234);
        let mut sender = Sender::new(ep, 1, &parse_oti(NOCODE_OTI).unwrap(), &cfg);
        match sender.add_object(0, obj) {
            Ok(toi) => {
                let xml = match sender.fdt_xml_data(now()) {
                    Ok(x) => x,
                    Err(_) => return "HARNESS-ERROR fdt-xml".to_string(),
                };
                let files = match flute::verif_hooks::fdt_parse_summary(&xml) {
                    Some(s) => s.files.unwrap_or_default(),
                    None => return "HARNESS-ERROR fdt-unparsable".to_string(),
                };
                if files.len() != 1 || files[0].toi != toi.to_string() {
                    return "HARNESS-ERROR fdt-file-entry".to_string();
                }
                let z = match (oti.fec_encoding_id as u8, files[0].oti_ss) {
                    (6, Some((1, z, _, _))) => Some(z),
                    (1, Some((2, z, _, _))) => Some(z),
                    _ => None,
                };
                format!("ok z={}", z.map(|z| z.to_string()).unwrap_or("-".to_string()))
            }
            Err(_) => "ERR".to_string(),
        }
    }));
    r.unwrap_or_else(|_| "PANIC".to_string())
}

fn admit(t: &[&str], _o: &mut Oracle) -> String {
    let bad = || "bad-op".to_string();
    let prio: u32 = match t[0].parse() {
        Ok(v) => v,
        Err(_) => return bad(),
    };
    let complete = match t[1] {
        "0" => false,
        "1" => true,
        _ => return bad(),
    };
    let dflt = match parse_oti(t[2]) {
        Some(o) => o,
        None => return bad(),
    };
    let ovr = if t[3] == "-" {
        None
    } else {
        match parse_oti(t[3]) {
            Some(o) => Some(o),
            None => return bad(),
        }
    };
    let len: u64 = match t[4].parse() {
        Ok(v) => v,
        Err(_) => return bad(),
    };
    let (ct, md5, etag) = match (parse_str(t[6]), parse_opt_str(t[7]), parse_opt_str(t[8])) {
        (Some(a), Some(b), Some(c)) => (a, b, c),
        _ => return bad(),
    };
    let groups: Option<Vec<String>> = if t[9] == "-" {
        None
    } else {
        match t[9].split('/').map(parse_str).collect::<Option<Vec<String>>>() {
            Some(g) => Some(g),
            None => return bad(),
        }
    };
    let cfg = Config { toi_max_length: TOIMaxLength::ToiMax112, toi_initial_value: Some(1), ..Default::default() };
    let ep = UDPEndpoint::new(None, "224.0.0.1".to_owned(), 1234);
    let r = guarded(AssertUnwindSafe(|| {
        let mut sender = Sender::new(ep.clone(), 1, &dflt, &cfg);
        let mut other = Sender::new(ep.clone(), 1, &dflt, &cfg);
        let toi = match t[5] {
            "none" => None,
            "own" => Some(sender.allocate_toi()),
            "foreign" => Some(other.allocate_toi()),
            _ => return None,
        };
        if complete {
            sender.set_complete();
        }
        let mut obj = ObjectDesc::create_from_buffer(
            vec![1, 2, 3],
            &ct,
            &url::Url::parse("file:///obj").unwrap(),
            false,
            TransferConfig { oti: ovr.clone(), toi, e_tag: etag.clone(), groups: groups.clone(), ..Default::default() },
        )
        .ok()?;
        // the admission only reads the announced transfer length (the object is never transmitted here)
        obj.transfer_length = len;
        obj.md5 = md5.clone();
        let res = sender.add_object(prio, obj);
        let reason;
        let out = match res {
            Ok(toi) => {
                // Z as announced for the File entry of the FDT, read with flute's own FDT parser
                let xml = match sender.fdt_xml_data(now()) {
                    Ok(x) => x,
                    Err(_) => return Some("HARNESS-ERROR fdt-xml".to_string()),
                };
                let sum = match flute::verif_hooks::fdt_parse_summary(&xml) {
                    Some(s) => s,
                    None => return Some("HARNESS-ERROR fdt-unparsable".to_string()),
                };
                let files = sum.files.unwrap_or_default();
                if files.len() != 1 || files[0].toi != toi.to_string() {
                    return Some("HARNESS-ERROR fdt-file-entry".to_string());
                }
                let fec = ovr.as_ref().unwrap_or(&dflt).fec_encoding_id as u8;
                let z = match (fec, files[0].oti_ss) {
                    (6, Some((1, z, _, _))) => Some(z),
                    (1, Some((2, z, _, _))) => Some(z),
                    _ => None,
                };
                sender.remove_object(toi);
                reason = "-";
                format!("ok z={}", z.map(|z| z.to_string()).unwrap_or("-".to_string()))
            }
            Err(e) => {
                // which check refused is a SAMPLE (evidence distribution), decided from the error text; the
                // compared observation is the bare `ERR`
                reason = refuse_reason(&e.0.to_string());
                "ERR".to_string()
            }
        };
        // does the call consume a TOI value? (allocation policy: sampled, not compared)
        let next = sender.allocate_toi().get();
        let base: u128 = if t[5] == "own" { 2 } else { 1 };
        *LAST_SAMPLE.lock().unwrap() = format!("reason={} consumed={}", reason, if next > base { 1 } else { 0 });
        Some(out)
    }));
    match r {
        Ok(Some(s)) => s,
        Ok(None) => bad(),
        Err(_) => "PANIC".to_string(),
    }
}

/// Everything that touches the real `Sender`; lives on its own thread (see `ToiEngine` below).
pub struct Session {
    sender: Option<Sender>,
    bits: u32,
    tsi: u64,
    handles: BTreeMap<u64, Box<Toi>>,
    /// object name -> TOI returned by add_object, for objects the oracle considers live
    objs: BTreeMap<u64, u128>,
    /// object currently held by a sender session (transfer started, not drained)
    cur: Option<u64>,
    cur_in_fdt: bool,
    random: bool,
    /// first value allocated (and released again) by a sender created with `toi_initial_value: None`
    pub peeked: Option<u128>,
    synced: bool,
    dead: bool,
    /// the oracle saw two live holders of one TOI: the allocator's books are wrong, a later release would
    /// trip `debug_assert!(success)` inside a destructor (abort on a second panic) - the case ends here
    /// and nothing of this sender is ever dropped
    tainted: std::cell::Cell<bool>,
    /// TOIs of live objects that carry a handle of another sender (accepted by add_object)
    foreign: BTreeSet<u128>,
    /// names of objects added with a carousel mode
    carousel: BTreeSet<u64>,
    /// after a refused add_object without TOI handle: the value the allocator hands out next (one allocate + drop),
    /// i.e. whether the refused call consumed a TOI value - an allocation POLICY C15 does not constrain; the model
    /// takes it as an input (`probe <v>`)
    last_probe: Option<u128>,
    /// number of live TOIs, published before every call that may not return
    live_count: Arc<AtomicU64>,
}

impl Session {
    pub fn new(live_count: Arc<AtomicU64>) -> Session {
        Session {
            live_count,
            tainted: std::cell::Cell::new(false),
            foreign: BTreeSet::new(),
            carousel: BTreeSet::new(),
            last_probe: None,
            sender: None,
            bits: 16,
            tsi: 0,
            handles: BTreeMap::new(),
            objs: BTreeMap::new(),
            cur: None,
            cur_in_fdt: false,
            random: false,
            peeked: None,
            synced: false,
            dead: false,
        }
    }

    /// never run destructors of a sender whose allocator mutex is poisoned or locked for ever
    fn leak(&mut self) {
        std::mem::forget(std::mem::take(&mut self.handles));
        std::mem::forget(self.sender.take());
        self.objs.clear();
        self.cur = None;
    }

    fn build_sender(&self, init: Option<u128>) -> Sender {
        let cfg = Config {
            toi_max_length: width(self.bits).unwrap(),
            toi_initial_value: init,
            fdt_duration: Duration::from_secs(1_000_000),
            ..Default::default()
        };
        let oti = Oti::new_no_code(1024, 64);
        let ep = UDPEndpoint::new(None, "224.0.0.1".to_owned(), 1234);
        Sender::new(ep, self.tsi, &oti, &cfg)
    }

    fn make_sender(&mut self, init: Option<u128>) {
        self.sender = Some(self.build_sender(init));
    }

    /// TOIs the property calls live: reserved handles and objects that can still emit packets
    fn live(&self) -> BTreeSet<u128> {
        self.handles.values().map(|h| h.get()).chain(self.objs.values().cloned()).collect()
    }

    /// oracle for a freshly allocated TOI (`live` = live set just before the allocation)
    fn check_fresh(&self, v: u128, live: &BTreeSet<u128>, o: &mut Oracle) {
        if v == 0 {
            o.fail("toi-zero", "allocated TOI is 0 (reserved for the FDT)");
        }
        if self.bits < 128 && v >> self.bits != 0 {
            o.fail("toi-width", &format!("allocated TOI {} does not fit the configured {} bits", v, self.bits));
        }
        if live.contains(&v) {
            if self.foreign.contains(&v) {
                o.fail(
                    "foreign-handle-collision",
                    &format!("allocated TOI {} is the TOI of a live object that carries a handle of another sender", v),
                );
            } else {
                o.fail("toi-dup-live", &format!("allocated TOI {} is still reserved / attached to a live object", v));
            }
            self.tainted.set(true);
        }
    }

    /// end of a case: release everything one TOI at a time, each under a guard (a panicking release must
    /// never meet a second one in the same destructor chain); at the first problem the rest is leaked
    fn teardown(&mut self) {
        if self.dead || self.tainted.get() {
            self.leak();
            return;
        }
        let mut hs: Vec<Box<Toi>> = std::mem::take(&mut self.handles).into_values().collect();
        while let Some(h) = hs.pop() {
            if guarded(AssertUnwindSafe(move || drop(h))).is_err() {
                std::mem::forget(hs);
                self.leak();
                return;
            }
        }
        if let Some(mut sender) = self.sender.take() {
            let tois: Vec<u128> = self.objs.values().cloned().collect();
            let r = guarded(AssertUnwindSafe(|| {
                for t in &tois {
                    sender.remove_object(*t);
                }
                for _ in 0..100_000 {
                    if sender.read(now()).is_none() {
                        break;
                    }
                }
            }));
            if r.is_err() {
                std::mem::forget(sender);
            } else if let Err(_) = guarded(AssertUnwindSafe(move || drop(sender))) {
                // nothing left to protect
            }
        }
        self.objs.clear();
        self.cur = None;
    }

    fn object(&self, fail: bool, toi: Option<Box<Toi>>) -> Box<ObjectDesc> {
        self.object_c(fail, toi, false)
    }

    /// `carousel`: the object is never "expired": after each transfer it goes back to the queue and keeps its TOI
    fn object_c(&self, fail: bool, toi: Option<Box<Toi>>, carousel: bool) -> Box<ObjectDesc> {
        let (len, oti) = if fail {
            // 4*2*255 = 2040 bytes is the longest object RS(4,2,1) can carry: FileDesc::new refuses
            (2041, Some(Oti::new_reed_solomon_rs28(4, 2, 1).unwrap()))
        } else {
            (1500, None)
        };
        ObjectDesc::create_from_buffer(
            vec![0x5a; len],
            "application/octet-stream",
            &url::Url::parse("file:///obj").unwrap(),
            false,
            TransferConfig {
                oti,
                toi,
                carousel_mode: if carousel {
                    Some(CarouselRepeatMode::DelayBetweenTransfers(Duration::from_secs(1_000_000)))
                } else {
                    None
                },
                // never eligible by itself: `start` triggers the transfer explicitly
                transfer_start_time: Some(now() + Duration::from_secs(100_000_000)),
                ..Default::default()
            },
        )
        .unwrap()
    }

    fn alloc(&mut self, threaded: bool, o: &mut Oracle) -> Result<Box<Toi>, String> {
        let live = self.live();
        let sender = self.sender.as_mut().unwrap();
        let r = guarded(AssertUnwindSafe(|| {
            if threaded {
                std::thread::scope(|s| s.spawn(|| sender.allocate_toi()).join())
            } else {
                Ok(sender.allocate_toi())
            }
        }));
        match r {
            Ok(Ok(t)) => {
                self.check_fresh(t.get(), &live, o);
                Ok(t)
            }
            Ok(Err(_)) => Err("thread".to_string()),
            Err(loc) => Err(loc),
        }
    }

    fn add(&mut self, k: u64, fail: bool, toi: Option<Box<Toi>>, o: &mut Oracle) -> String {
        self.add_c(k, fail, toi, false, o)
    }

    fn add_c(&mut self, k: u64, fail: bool, toi: Option<Box<Toi>>, carousel: bool, o: &mut Oracle) -> String {
        let explicit = toi.as_ref().map(|t| t.get());
        let live = self.live();
        let obj = self.object_c(fail, toi, carousel);
        if carousel {
            self.carousel.insert(k);
        }
        let sender = self.sender.as_mut().unwrap();
        match guarded(AssertUnwindSafe(|| sender.add_object(0, obj))) {
            Err(loc) => {
                if loc.contains("toiallocator") {
                    o.fail("alloc-panic", &format!("add_object panics at {}", loc));
                } else if !self.foreign.is_empty() && loc.contains("sender/fdt.rs") {
                    o.fail(
                        "foreign-handle-collision",
                        &format!("add_object panics at {} while an object carrying a handle of another sender is live (duplicate TOI in Fdt.files)", loc),
                    );
                }
                self.dead = true;
                self.leak();
                "PANIC".to_string()
            }
            Ok(Err(_)) => {
                if explicit.is_none() {
                    // refused after / before the implicit allocation?  look at the next value (allocate + drop)
                    match self.alloc(false, o) {
                        Ok(h) => self.last_probe = Some(h.get()),
                        Err(loc) => {
                            o.fail("alloc-panic", &format!("allocate_toi panics at {}", loc));
                            self.dead = true;
                            self.leak();
                            return "PANIC".to_string();
                        }
                    }
                }
                "ERR".to_string()
            }
            Ok(Ok(v)) => {
                match explicit {
                    Some(e) => {
                        if e != v {
                            o.fail("add-toi-ne-handle", &format!("add_object returned {} for an object carrying handle {}", v, e));
                            self.tainted.set(true);
                        }
                    }
                    None => self.check_fresh(v, &live, o),
                }
                self.objs.insert(k, v);
                format!("toi {}", v)
            }
        }
    }

    /// Read packets until the first object packet (`first_only`) or until the sender has nothing more.
    /// Returns the object packets seen.  `expect` = TOIs of the objects that are being transferred.
    /// Err(reason): something the harness relies on but C15 does not speak about went wrong (reported as
    /// an `ERR …` observation, i.e. a disagreement with the model, not as a property violation).
    fn pump(
        &mut self,
        first_only: bool,
        expect: &BTreeSet<u128>,
        o: &mut Oracle,
    ) -> Result<Vec<(bool, u128, u8, u8, Vec<u8>)>, String> {
        let mut out = Vec::new();
        for _ in 0..100_000 {
            let sender = self.sender.as_mut().unwrap();
            let data = match sender.read(now()) {
                Some(d) => d,
                None => return Ok(out),
            };
            match pkt_toi(&data) {
                None => return Err("pkt-unparsable".to_string()),
                Some(p) => {
                    if p.0 {
                        if p.1 != 0 {
                            o.fail("fdt-pkt-toi", &format!("FDT packet carries TOI {}", p.1));
                        }
                    } else {
                        // an object packet: must carry the TOI of an object in transfer
                        if !expect.contains(&p.1) {
                            o.fail(
                                "wire-ne-allocated",
                                &format!("object packet carries TOI {} but the TOIs of the objects in transfer are {:?}", p.1, expect),
                            );
                        }
                        out.push(p);
                        if first_only {
                            return Ok(out);
                        }
                    }
                }
            }
        }
        Err("read-unbounded".to_string())
    }

    fn cur_toi(&self) -> BTreeSet<u128> {
        self.cur.and_then(|k| self.objs.get(&k).cloned()).into_iter().collect()
    }
}

impl Session {
    fn exec(&mut self, op: &str, o: &mut Oracle) -> String {
        if self.tainted.get() && !self.dead {
            self.dead = true;
            self.leak();
        }
        if !self.foreign.is_empty() {
            let objs = &self.objs;
            self.foreign.retain(|t| objs.values().any(|v| v == t));
        }
        self.live_count.store(self.live().len() as u64, Ordering::SeqCst);
        let t: Vec<&str> = op.split(' ').collect();
        if t.len() < 2 || t[0] != "toi" {
            return "bad-op".to_string();
        }
        if self.dead {
            return "DEAD".to_string();
        }
        let num = |i: usize| -> Option<u64> { t.get(i).and_then(|x| x.parse::<u64>().ok()) };
        let big = |i: usize| -> Option<u128> { t.get(i).and_then(|x| x.parse::<u128>().ok()) };
        match (t[1], t.len()) {
            ("new", 5) => {
                let (bits, tsi) = match (num(2), num(4)) {
                    (Some(b), Some(tsi)) if width(b as u32).is_some() => (b as u32, tsi),
                    _ => return "bad-op".to_string(),
                };
                let init = if t[3] == "none" {
                    None
                } else {
                    match big(3) {
                        Some(v) => Some(v),
                        None => return "bad-op".to_string(),
                    }
                };
                let lc = self.live_count.clone();
                self.teardown();
                *self = Session::new(lc);
                self.bits = bits;
                self.tsi = tsi;
                self.random = init.is_none();
                self.make_sender(init);
                if self.random {
                    // learn the random start value: allocate once, release again
                    match self.alloc(false, o) {
                        Ok(h) => {
                            self.peeked = Some(h.get());
                            drop(h);
                        }
                        Err(loc) => {
                            o.fail("alloc-panic", &format!("allocate_toi panics at {}", loc));
                            self.dead = true;
                            self.leak();
                            return "PANIC".to_string();
                        }
                    }
                } else {
                    self.synced = true;
                }
                "ok".to_string()
            }
            ("lastsample", 2) => LAST_SAMPLE.lock().unwrap().clone(),
            ("lastprobe", 2) => match self.last_probe {
                Some(v) => format!("{}", v),
                None => "-".to_string(),
            },
            ("peek", 2) => match self.peeked {
                // not an operation of the protocol: lets the generator learn the random start value
                Some(v) => format!("{}", v),
                None => "-".to_string(),
            },
            ("first", 3) => {
                let v = match big(2) {
                    Some(v) => v,
                    None => return "bad-op".to_string(),
                };
                if !self.random || self.synced || self.sender.is_none() {
                    return "bad-op".to_string();
                }
                if self.peeked != Some(v) {
                    // replay of a recorded case: `None` is `Some(rnd)` for the drawn rnd, so the recorded
                    // value is installed explicitly and the same allocate + release is done
                    self.sender = None;
                    self.make_sender(Some(v));
                    match self.alloc(false, o) {
                        Ok(h) => drop(h),
                        Err(_) => {
                            self.dead = true;
                            self.leak();
                            return "PANIC".to_string();
                        }
                    }
                    self.peeked = Some(v);
                }
                self.synced = true;
                "ok".to_string()
            }
            ("admission", 12) => admit(&t[2..], o),
            ("admissionc", 7) => admit_cenc(&t[2..], false),
            // not an operation of the protocol: the generator asks for the transfer length of the encoded content
            ("cenclen", 5) => admit_cenc(&[NOCODE_OTI, t[2], t[3], t[4], "0"], true),
            ("wire", 4) => {
                let (toi, tsi) = match (big(2), num(3)) {
                    (Some(a), Some(b)) => (a, b),
                    _ => return "bad-op".to_string(),
                };
                let mut data = Vec::new();
                push_lct_header(&mut data, 0, &0u128, tsi, &toi, 0, false, false);
                data.extend([0u8, 0, 0, 0, 1, 2, 3, 4]); // FEC payload id of NoCode + a payload
                match pkt_toi(&data) {
                    Some(p) => {
                        if toi >> 112 == 0 && p.1 != toi {
                            o.fail("wire-roundtrip", &format!("TOI {} (< 2^112) is read back as {}", toi, p.1));
                        }
                        wire_line(&p)
                    }
                    None => {
                        if toi >> 112 == 0 {
                            o.fail("wire-roundtrip", &format!("header with TOI {} is not parsable", toi));
                        }
                        "ERR".to_string()
                    }
                }
            }
            _ => {
                if self.sender.is_none() || !self.synced {
                    return "bad-op".to_string();
                }
                self.exec_session(&t, o)
            }
        }
    }

}

impl Session {
    fn exec_session(&mut self, t: &[&str], o: &mut Oracle) -> String {
        let num = |i: usize| -> Option<u64> { t.get(i).and_then(|x| x.parse::<u64>().ok()) };
        match (t[1], t.len()) {
            ("alloc", 3) | ("alloct", 3) => {
                let h = match num(2) {
                    Some(h) => h,
                    None => return "bad-op".to_string(),
                };
                if self.handles.contains_key(&h) {
                    return "bad-op".to_string();
                }
                match self.alloc(t[1] == "alloct", o) {
                    Ok(toi) => {
                        let v = toi.get();
                        self.handles.insert(h, toi);
                        format!("toi {}", v)
                    }
                    Err(loc) => {
                        o.fail("alloc-panic", &format!("allocate_toi panics at {}", loc));
                        self.dead = true;
                        self.leak();
                        "PANIC".to_string()
                    }
                }
            }
            ("drop", 3) | ("dropt", 3) => {
                let h = match num(2).and_then(|h| self.handles.remove(&h)) {
                    Some(h) => h,
                    None => return "bad-op".to_string(),
                };
                let r = if t[1] == "dropt" {
                    // the handle is moved to another thread and dropped there
                    guarded(AssertUnwindSafe(move || std::thread::spawn(move || drop(h)).join().is_ok()))
                } else {
                    guarded(AssertUnwindSafe(move || {
                        drop(h);
                        true
                    }))
                };
                match r {
                    Ok(true) => "ok".to_string(),
                    _ => {
                        o.fail("drop-panic", "dropping a Toi handle panics");
                        self.dead = true;
                        self.leak();
                        "PANIC".to_string()
                    }
                }
            }
            ("dropmany", n) if n >= 2 => {
                let mut names = Vec::new();
                for i in 2..n {
                    match num(i) {
                        Some(h) if self.handles.contains_key(&h) && !names.contains(&h) => names.push(h),
                        _ => return "bad-op".to_string(),
                    }
                }
                let hs: Vec<Box<Toi>> = names.iter().map(|h| self.handles.remove(h).unwrap()).collect();
                // concurrent drops: all threads are released together
                let barrier = std::sync::Arc::new(std::sync::Barrier::new(hs.len().max(1)));
                let threads: Vec<_> = hs
                    .into_iter()
                    .map(|h| {
                        let b = barrier.clone();
                        std::thread::spawn(move || {
                            b.wait();
                            drop(h)
                        })
                    })
                    .collect();
                let mut ok = true;
                for th in threads {
                    ok &= th.join().is_ok();
                }
                if ok {
                    "ok".to_string()
                } else {
                    o.fail("drop-panic", "dropping Toi handles concurrently panics");
                    self.dead = true;
                    self.leak();
                    "PANIC".to_string()
                }
            }
            ("add", 3) | ("addfail", 3) => {
                let k = match num(2) {
                    Some(k) if !self.objs.contains_key(&k) => k,
                    _ => return "bad-op".to_string(),
                };
                self.add(k, t[1] == "addfail", None, o)
            }
            ("probe", 3) => {
                // refinement input for the model (see `last_probe`); the implementation already did the probe
                let v = match t.get(2).and_then(|x| x.parse::<u128>().ok()) {
                    Some(v) => v,
                    None => return "bad-op".to_string(),
                };
                match self.last_probe.take() {
                    Some(p) if p == v => "ok".to_string(),
                    Some(p) => format!("probe-differs {}", p),
                    None => "bad-op".to_string(),
                }
            }
            ("addc", 3) => {
                let k = match num(2) {
                    Some(k) if !self.objs.contains_key(&k) => k,
                    _ => return "bad-op".to_string(),
                };
                self.add_c(k, false, None, true, o)
            }
            ("addnoq", 3) => {
                // refused before any allocation: priority queue 7 does not exist
                let k = match num(2) {
                    Some(k) if !self.objs.contains_key(&k) => k,
                    _ => return "bad-op".to_string(),
                };
                let obj = self.object(false, None);
                let sender = self.sender.as_mut().unwrap();
                match guarded(AssertUnwindSafe(|| sender.add_object(7, obj))) {
                    Ok(Err(_)) => "ERR".to_string(),
                    Ok(Ok(v)) => {
                        self.objs.insert(k, v);
                        format!("toi {}", v)
                    }
                    Err(_) => {
                        self.dead = true;
                        self.leak();
                        "PANIC".to_string()
                    }
                }
            }
            ("addforeign", 4) => {
                // a `Toi` handle reserved on ANOTHER sender (same configuration, start value v) is attached
                // to an object that is added to THIS sender.  The type system allows it; the handle's value
                // is unknown to this sender's allocator.
                let k = match num(2) {
                    Some(k) if !self.objs.contains_key(&k) => k,
                    _ => return "bad-op".to_string(),
                };
                let v = match t.get(3).and_then(|x| x.parse::<u128>().ok()) {
                    Some(v) => v,
                    None => return "bad-op".to_string(),
                };
                let mut other = self.build_sender(Some(v));
                let h = other.allocate_toi();
                let fv = h.get();
                let live = self.live();
                let obj = self.object(false, Some(h));
                let sender = self.sender.as_mut().unwrap();
                match guarded(AssertUnwindSafe(|| sender.add_object(0, obj))) {
                    Ok(Err(_)) => "ERR".to_string(),
                    Ok(Ok(tv)) => {
                        // accepted: this sender now has a live object whose TOI its allocator does not know
                        if live.contains(&tv) {
                            o.fail(
                                "foreign-handle-collision",
                                &format!("add_object accepted a handle of another sender with TOI {} which is live in this sender", tv),
                            );
                            self.tainted.set(true);
                        }
                        self.foreign.insert(tv);
                        self.objs.insert(k, tv);
                        format!("toi {}", tv)
                    }
                    Err(loc) => {
                        if live.contains(&fv) {
                            o.fail(
                                "foreign-handle-collision",
                                &format!("add_object with a handle of another sender (TOI {}, live in this sender) panics at {}", fv, loc),
                            );
                        }
                        self.dead = true;
                        self.leak();
                        std::mem::forget(other);
                        "PANIC".to_string()
                    }
                }
            }
            ("addx", 4) | ("addxfail", 4) => {
                let k = match num(2) {
                    Some(k) if !self.objs.contains_key(&k) => k,
                    _ => return "bad-op".to_string(),
                };
                let h = match num(3) {
                    Some(h) if self.handles.contains_key(&h) => self.handles.remove(&h).unwrap(),
                    _ => return "bad-op".to_string(),
                };
                self.add(k, t[1] == "addxfail", Some(h), o)
            }
            ("remove", 3) => {
                let k = match num(2) {
                    Some(k) if self.objs.contains_key(&k) => k,
                    _ => return "bad-op".to_string(),
                };
                let toi = self.objs[&k];
                let r = self.sender.as_mut().unwrap().remove_object(toi);
                if self.cur == Some(k) {
                    // packets of k may still be emitted: k stays live until the transfer is over
                    self.cur_in_fdt = false;
                } else if r {
                    self.objs.remove(&k);
                }
                format!("{}", r)
            }
            ("start", 3) => {
                let k = match num(2) {
                    Some(k) if self.objs.contains_key(&k) && self.cur.is_none() => k,
                    _ => return "bad-op".to_string(),
                };
                let toi = self.objs[&k];
                let s = self.sender.as_mut().unwrap();
                if s.publish(now()).is_err() || !s.trigger_transfer_at(toi, Some(now())) {
                    return "ERR start-refused".to_string();
                }
                self.cur = Some(k);
                self.cur_in_fdt = true;
                let expect = self.cur_toi();
                match self.pump(true, &expect, o) {
                    Err(e) => format!("ERR {}", e),
                    Ok(p) => match p.first() {
                        Some(p) => wire_line(p),
                        None => "ERR no-packet".to_string(),
                    },
                }
            }
            ("drain", 2) => {
                let expect = self.cur_toi();
                let p = match self.pump(false, &expect, o) {
                    Ok(p) => p,
                    Err(e) => return format!("ERR {}", e),
                };
                let mut seen: Vec<u128> = p.iter().map(|x| x.1).collect();
                seen.sort();
                seen.dedup();
                if let Some(k) = self.cur.take() {
                    // a carousel object that is still in the FDT goes back to the queue and stays live
                    if !(self.cur_in_fdt && self.carousel.contains(&k)) {
                        self.objs.remove(&k);
                    }
                    self.cur_in_fdt = false;
                }
                if seen.is_empty() {
                    "done -".to_string()
                } else {
                    format!("done {}", seen.iter().map(|x| x.to_string()).collect::<Vec<_>>().join(" "))
                }
            }
            ("freerun", 3) => {
                // n objects without TOI, eligible at once, default multiplexing (3 sessions): add, publish,
                // read until the sender runs dry; all n transfers complete and all n TOIs are released
                let n = match num(2) {
                    Some(n) if n >= 1 && n <= 16 && self.cur.is_none() => n,
                    _ => return "bad-op".to_string(),
                };
                let mut tois = BTreeSet::new();
                for _ in 0..n {
                    let live = self.live();
                    let mut obj = self.object(false, None);
                    obj.config.transfer_start_time = None;
                    let sender = self.sender.as_mut().unwrap();
                    match guarded(AssertUnwindSafe(|| sender.add_object(0, obj))) {
                        Ok(Ok(v)) => {
                            self.check_fresh(v, &live, o);
                            if !tois.insert(v) {
                                o.fail("toi-dup-live", &format!("add_object returned TOI {} twice in a row", v));
                                self.tainted.set(true);
                            }
                            // live until its transfer is over
                            self.objs.insert(3_000_000 + tois.len() as u64, v);
                        }
                        Ok(Err(_)) => return "ERR add".to_string(),
                        Err(loc) => {
                            if loc.contains("toiallocator") {
                                o.fail("alloc-panic", &format!("add_object panics at {}", loc));
                            }
                            self.dead = true;
                            self.leak();
                            return "PANIC".to_string();
                        }
                    }
                }
                if self.tainted.get() {
                    // two live objects share a TOI: do not run their transfers (see `tainted`)
                    return "DEAD".to_string();
                }
                if self.sender.as_mut().unwrap().publish(now()).is_err() {
                    return "ERR publish".to_string();
                }
                let p = match self.pump(false, &tois, o) {
                    Ok(p) => p,
                    Err(e) => return format!("ERR {}", e),
                };
                for i in 1..=tois.len() as u64 {
                    self.objs.remove(&(3_000_000 + i));
                }
                let seen: BTreeSet<u128> = p.iter().map(|x| x.1).collect();
                format!("sent {}", seen.iter().map(|x| x.to_string()).collect::<Vec<_>>().join(" "))
            }
            ("fdt", 2) => {
                let xml = match self.sender.as_ref().unwrap().fdt_xml_data(now()) {
                    Ok(x) => x,
                    Err(_) => return "ERR".to_string(),
                };
                let got = match fdt_tois(&xml) {
                    Ok(Some(g)) => g,
                    Ok(None) => {
                        o.fail("fdt-toi-unparsable", "a TOI attribute of the FDT is not a decimal u128");
                        return "ERR".to_string();
                    }
                    // flute's own parser rejects the sender's FDT: not C15's business, but the harness must not
                    // go on with an empty list
                    Err(e) => return format!("HARNESS-ERROR {}", e),
                };
                // what the API user knows to be in the FDT
                let mut want: Vec<u128> = self
                    .objs
                    .iter()
                    .filter(|(k, _)| Some(**k) != self.cur || self.cur_in_fdt)
                    .map(|(_, v)| *v)
                    .collect();
                want.sort();
                if got != want {
                    o.fail("fdt-toi-ne", &format!("FDT lists TOIs {:?}, objects in the FDT have {:?}", got, want));
                }
                if got.is_empty() {
                    "fdt -".to_string()
                } else {
                    format!("fdt {}", got.iter().map(|x| x.to_string()).collect::<Vec<_>>().join(" "))
                }
            }
            ("allocn", 3) => {
                // n handles kept under the names 1000000+i
                let n = match num(2) {
                    Some(n) => n,
                    None => return "bad-op".to_string(),
                };
                let (mut first, mut last) = (0u128, 0u128);
                for i in 0..n {
                    if self.handles.contains_key(&(1_000_000 + i)) {
                        return "bad-op".to_string();
                    }
                    // freshness against the full live set costs O(n^2) here: uniqueness is checked on the
                    // handle map below instead
                    let sender = self.sender.as_mut().unwrap();
                    match guarded(AssertUnwindSafe(|| sender.allocate_toi())) {
                        Ok(h) => {
                            let v = h.get();
                            if v == 0 {
                                o.fail("toi-zero", "allocated TOI is 0 (reserved for the FDT)");
                            }
                            if v >> self.bits != 0 {
                                o.fail("toi-width", &format!("allocated TOI {} does not fit {} bits", v, self.bits));
                            }
                            if i == 0 {
                                first = v;
                            }
                            last = v;
                            self.handles.insert(1_000_000 + i, h);
                        }
                        Err(loc) => {
                            o.fail("alloc-panic", &format!("allocate_toi panics at {}", loc));
                            self.dead = true;
                            self.leak();
                            return "PANIC".to_string();
                        }
                    }
                    self.live_count.store((self.handles.len() + self.objs.len()) as u64, Ordering::SeqCst);
                }
                let distinct: BTreeSet<u128> = self.live();
                if distinct.len() != self.handles.len() + self.objs.len() {
                    o.fail("toi-dup-live", "two live handles / objects share a TOI");
                    self.tainted.set(true);
                }
                format!("ok {} {}", first, last)
            }
            ("churn", 3) => {
                // n times: allocate a handle and drop it at once (the live set does not change meanwhile)
                let n = match num(2) {
                    Some(n) => n,
                    None => return "bad-op".to_string(),
                };
                let live = self.live();
                let bits = self.bits;
                let sender = self.sender.as_mut().unwrap();
                let r = guarded(AssertUnwindSafe(|| {
                    let mut last = 0u128;
                    let mut bad: Option<u128> = None;
                    for _ in 0..n {
                        let h = sender.allocate_toi();
                        last = h.get();
                        if bad.is_none() && (last == 0 || last >> bits != 0 || live.contains(&last)) {
                            bad = Some(last);
                        }
                    }
                    (last, bad)
                }));
                match r {
                    Ok((last, bad)) => {
                        if let Some(v) = bad {
                            self.check_fresh(v, &live, o);
                        }
                        format!("ok {}", last)
                    }
                    Err(loc) => {
                        o.fail("alloc-panic", &format!("allocate_toi panics at {}", loc));
                        self.dead = true;
                        self.leak();
                        "PANIC".to_string()
                    }
                }
            }
            _ => "bad-op".to_string(),
        }
    }
}


// ------------------------------------------------------------------------------------------------
// The engine proper: a proxy that runs one `Session` per case on its own thread and waits for every
// observation with a time-out, so that a call into flute that never returns (D19) becomes the
// observation `HANG` instead of blocking the harness.  Same-thread calls stay same-thread calls
// (session thread), `alloct` / `dropt` / `dropmany` use further threads.

type Reply = (String, Vec<(String, String)>);

/// calls into flute that never returned during this run (each leaves a spinning thread behind)
static HANGS: AtomicU64 = AtomicU64::new(0);

pub struct ToiEngine {
    tx: Option<ChanTx<String>>,
    rx: Option<Receiver<Reply>>,
    live_count: Arc<AtomicU64>,
    bits: u32,
    dead: bool,
}

impl ToiEngine {
    pub fn new() -> ToiEngine {
        ToiEngine { tx: None, rx: None, live_count: Arc::new(AtomicU64::new(0)), bits: 0, dead: false }
    }
}

impl Engine for ToiEngine {
    fn reset(&mut self) {
        // closing the channel ends the old session thread (unless it hangs inside flute: leaked)
        self.tx = None;
        self.rx = None;
        self.dead = false;
        self.live_count = Arc::new(AtomicU64::new(0));
        let (tx, srx) = channel::<String>();
        let (stx, rx) = channel::<Reply>();
        let lc = self.live_count.clone();
        std::thread::spawn(move || {
            let mut s = Session::new(lc);
            while let Ok(op) = srx.recv() {
                let mut o = Oracle::default();
                let obs = match guarded(AssertUnwindSafe(|| s.exec(&op, &mut o))) {
                    Ok(obs) => obs,
                    Err(loc) => {
                        // a panic inside flute outside the calls that are guarded individually
                        if loc.contains("toiallocator") {
                            o.fail("alloc-panic", &format!("the sender panics at {}", loc));
                        }
                        s.dead = true;
                        "PANIC".to_string()
                    }
                };
                if stx.send((obs, o.fails)).is_err() {
                    break;
                }
            }
            s.teardown();
        });
        self.tx = Some(tx);
        self.rx = Some(rx);
    }

    fn exec(&mut self, op: &str, o: &mut Oracle) -> String {
        if self.dead {
            return "DEAD".to_string();
        }
        if self.tx.is_none() {
            self.reset();
        }
        let t: Vec<&str> = op.split(' ').collect();
        if t.len() >= 3 && t[1] == "new" {
            self.bits = t[2].parse().unwrap_or(0);
        }
        // Wall-clock margin of one operation: generous (VERIF_OP_TIMEOUT seconds, default 120) so that a slow or
        // loaded machine is not mistaken for a call that never returns.  Only where the hang is the EXPECTED
        // observation (ToiMax16, 65534 live TOIs: the model says `hang`) a short wait is used.
        let base: u64 = std::env::var("VERIF_OP_TIMEOUT").ok().and_then(|x| x.parse().ok()).unwrap_or(120);
        let expect_hang = self.bits == 16 && self.live_count.load(Ordering::SeqCst) == 65534
            && t.len() >= 2 && matches!(t[1], "alloc" | "alloct" | "add" | "addc" | "addfail" | "freerun" | "churn" | "allocn");
        let timeout = Duration::from_secs(if expect_hang { 10 } else { base });
        if self.tx.as_ref().unwrap().send(op.to_string()).is_err() {
            self.dead = true;
            return "DEAD".to_string();
        }
        match self.rx.as_ref().unwrap().recv_timeout(timeout) {
            Ok((obs, fails)) => {
                for (c, d) in fails {
                    o.fail(&c, &d);
                }
                obs
            }
            Err(RecvTimeoutError::Timeout) => {
                self.dead = true;
                HANGS.fetch_add(1, Ordering::SeqCst);
                let live = self.live_count.load(Ordering::SeqCst);
                if self.bits == 16 && live == 65534 {
                    // OBSERVATION outside C15 (no termination clause): this call takes the last free value and the
                    // skip loop never exits; the model answers `hang` too (Props.C15.allocate_hangs_on_last_free)
                    o.fail(
                        "toi16-exhausted-hang",
                        "ToiMax16 with 65534 live TOIs: the allocate_toi call taking the last free value does not return (skip loop never exits)",
                    );
                    "HANG".to_string()
                } else {
                    // not a statement about C15: a harness note; the line disagrees with the model (`TIMEOUT`
                    // is never a model answer), which is reported as a correspondence break without failing input
                    eprintln!(
                        "harness note: no answer within {:?} for `{}` ({} live TOIs, {} bit) - slow machine (raise VERIF_OP_TIMEOUT) or a call that does not return",
                        timeout, op, live, self.bits
                    );
                    "TIMEOUT".to_string()
                }
            }
            Err(RecvTimeoutError::Disconnected) => {
                self.dead = true;
                "PANIC".to_string()
            }
        }
    }
}

// ------------------------------------------------------------------------------------------------
// generator

fn start_values(bits: u32, rng: &mut Rng) -> Vec<Option<u128>> {
    let m: u128 = 1u128 << bits;
    let mut v = vec![
        Some(1),
        Some(0),
        Some(m - 2),
        Some(m - 1),
        Some(m),         // > max: masks to 0 -> 1
        Some(m + m - 1), // > max: masks to max
        Some(u128::MAX),
        None,
        None,
    ];
    v.push(Some(rng.u128() % m));
    v.push(Some(rng.u128() | (1u128 << 127)));
    v
}

fn sequence(ctx: &mut Ctx, eng: &mut dyn Engine, rng: &mut Rng, bits: u32, init: Option<u128>, nops: usize, id: &str) {
    eng.reset();
    ctx.case(id);
    let tsi = *rng.pick(&[1u64, 0, 65535, 65536, 70000, 1 << 32, (1 << 48) + 5]);
    let ini = match init {
        Some(v) => v.to_string(),
        None => "none".to_string(),
    };
    ctx.count(&format!("width={}", bits));
    ctx.count(match init {
        None => "start=None(random)",
        Some(0) => "start=0",
        Some(1) => "start=1",
        Some(v) if v >> bits != 0 => "start>max",
        Some(v) if v >= (1u128 << bits) - 2 => "start=max-1..max",
        _ => "start=other",
    });
    if ctx.step(eng, &format!("toi new {} {} {}", bits, ini, tsi)) != "ok" {
        return;
    }
    if init.is_none() {
        let mut o = Oracle::default();
        let v = eng.exec("toi peek", &mut o);
        if ctx.step(eng, &format!("toi first {}", v)) != "ok" {
            return;
        }
    }
    let mut handles: Vec<u64> = Vec::new();
    let mut objs: Vec<u64> = Vec::new(); // live, not removed
    let mut cur: Option<u64> = None;
    let mut next_name = 1u64;
    let mut kinds = BTreeSet::new();
    let mut allocs = 0;
    let mut carousel: BTreeSet<u64> = BTreeSet::new();
    let mut recent: Vec<u128> = Vec::new(); // TOIs returned lately (many still live)
    let mut last_toi: u128 = 0;
    let mut total_allocated: u64 = 0; // incl. churn: after 2^bits - 1 every allocation is a re-allocation
    for _ in 0..nops {
        let r = rng.below(100);
        let op = if r < 22 {
            let h = next_name;
            next_name += 1;
            handles.push(h);
            format!("toi {} {}", if rng.chance(1, 4) { "alloct" } else { "alloc" }, h)
        } else if r < 38 && !handles.is_empty() {
            let h = handles.swap_remove(rng.below(handles.len() as u64) as usize);
            format!("toi {} {}", if rng.chance(1, 2) { "dropt" } else { "drop" }, h)
        } else if r < 42 && handles.len() >= 2 {
            let n = rng.range(2, handles.len().min(5) as u64) as usize;
            let mut hs = Vec::new();
            for _ in 0..n {
                hs.push(handles.swap_remove(rng.below(handles.len() as u64) as usize));
            }
            format!("toi dropmany {}", hs.iter().map(|x| x.to_string()).collect::<Vec<_>>().join(" "))
        } else if r < 56 {
            let k = next_name;
            next_name += 1;
            if rng.chance(1, 6) {
                format!("toi addfail {}", k)
            } else if rng.chance(1, 4) {
                objs.push(k);
                carousel.insert(k);
                format!("toi addc {}", k)
            } else {
                objs.push(k);
                format!("toi add {}", k)
            }
        } else if r < 64 && !handles.is_empty() {
            let h = handles.swap_remove(rng.below(handles.len() as u64) as usize);
            let k = next_name;
            next_name += 1;
            if rng.chance(1, 6) {
                format!("toi addxfail {} {}", k, h)
            } else {
                objs.push(k);
                format!("toi addx {} {}", k, h)
            }
        } else if r < 72 && cur.is_some() && rng.chance(1, 4) {
            // remove the object in transfer (possibly a second time: remove_object then returns false)
            let k = cur.unwrap();
            objs.retain(|x| *x != k);
            format!("toi remove {}", k)
        } else if r < 72 && !objs.is_empty() {
            let k = objs.swap_remove(rng.below(objs.len() as u64) as usize);
            format!("toi remove {}", k)
        } else if r < 82 && cur.is_none() && !objs.is_empty() {
            let k = *rng.pick(&objs);
            cur = Some(k);
            format!("toi start {}", k)
        } else if r < 90 && cur.is_some() {
            let k = cur.take().unwrap();
            // a carousel object that was not removed meanwhile survives its transfer (can be started again)
            if !(carousel.contains(&k) && objs.contains(&k)) {
                objs.retain(|x| *x != k);
            } else {
                ctx.count("transfer-ends-object-stays-live(carousel)");
            }
            "toi drain".to_string()
        } else if r < 93 {
            "toi fdt".to_string()
        } else if r < 94 {
            let k = next_name;
            next_name += 1;
            if rng.chance(1, 3) {
                format!("toi addnoq {}", k)
            } else {
                // a handle of another sender whose value is live here / is the next candidate here / anything
                let m: u128 = (1u128 << bits) - 1;
                let v = match rng.below(4) {
                    0 if !recent.is_empty() => *rng.pick(&recent),
                    1 => (last_toi & m) + 1,
                    2 => 1,
                    _ => rng.u128() & m,
                };
                format!("toi addforeign {} {}", k, v)
            }
        } else if r < 96 && cur.is_none() {
            format!("toi freerun {}", rng.range(1, 7))
        } else if bits == 16 && rng.chance(1, 3) {
            // go (almost) once around the 16-bit circle so that `next` catches up with live values
            format!("toi churn {}", rng.range(60000, 65600))
        } else {
            format!("toi churn {}", rng.range(1, 40))
        };
        let mut obs = ctx.step(eng, &op);
        if op.starts_with("toi addfail ") && obs == "ERR" {
            // tell the model what the allocator handed out next (did the refused call consume a TOI value?)
            let mut o = Oracle::default();
            let p = eng.exec("toi lastprobe", &mut o);
            obs = ctx.step(eng, &format!("toi probe {}", p));
            total_allocated += 1;
        }
        let kind = op.split(' ').nth(1).unwrap_or("").to_string();
        ctx.count(&format!("op={}", kind));
        kinds.insert(kind);
        if let Some(v) = obs.strip_prefix("toi ").and_then(|x| x.parse::<u128>().ok()) {
            last_toi = v;
            recent.push(v);
            if recent.len() > 12 {
                recent.remove(0);
            }
        }
        if obs.starts_with("toi ") && !op.starts_with("toi addx") {
            allocs += 1;
            total_allocated += 1;
            if bits == 16 && total_allocated >= 65535 {
                ctx.count("re-allocation-after-full-circle(16bit)");
            }
        }
        if op.starts_with("toi churn ") && obs.starts_with("ok ") {
            let n: u64 = op[10..].parse().unwrap_or(0);
            total_allocated += n;
            if n >= 60000 {
                ctx.count("churn-around-the-circle(16bit)");
            }
        }
        if op.starts_with("toi freerun ") && obs.starts_with("sent ") {
            total_allocated += op[12..].parse::<u64>().unwrap_or(0);
        }
        if obs == "PANIC" || obs == "HANG" || obs == "DEAD" {
            ctx.count("ended-by-panic-or-hang");
            break;
        }
    }
    // finish: transfer in progress completes, everything is released, values must stay consistent
    if cur.is_some() {
        ctx.step(eng, "toi drain");
    }
    ctx.step(eng, "toi fdt");
    ctx.end_case(eng);
    if allocs >= 2 && kinds.len() >= 4 {
        ctx.nontrivial(id);
    }
}


// ------------------------------------------------------------------------------------------------
// Structured 16-bit histories around the wrap point.  Random histories almost never have the values
// next to the wrap point (max-1, max, 1, 2, ...) live at the moment the counter comes back to them,
// so this generator builds that situation on purpose:
//   A. holders (handles, objects with implicit TOI - also carousel objects that survive their transfers -,
//      objects with explicit TOI; some dropped again so
//      that runs of consecutive live values and gaps exist) are placed on the values just below and
//      just above the wrap point - either directly (start value = max-j) or by allocating at 1.. first
//      and churning up to max-j;
//   B. a churn of (65535 - live - r) allocate/drop cycles brings the counter back to r free values
//      before the place it was, i.e. just before / into the zone (every allocation of the churn is
//      checked by the oracle, the last value is compared with the model);
//   C. the zone is then crossed step by step with single allocations of all kinds, interleaved with
//      drops / removals / transfers of the holders in the zone (a holder released right before the
//      counter reaches it, or right after it was skipped), every value compared with the model;
//   B and C are repeated once.
struct Zone {
    handles: Vec<u64>,
    objs: Vec<u64>,
    carousel: Vec<u64>,
    cur_removed: bool,
    cur: Option<u64>,
    next_name: u64,
    last: u64, // last value returned (16 bit)
    dead: bool,
}

impl Zone {
    fn name(&mut self) -> u64 {
        self.next_name += 1;
        self.next_name
    }
    fn live(&self) -> u64 {
        (self.handles.len() + self.objs.len()) as u64 + if self.cur.map_or(false, |k| !self.objs.contains(&k)) { 1 } else { 0 }
    }
    fn step(&mut self, ctx: &mut Ctx, eng: &mut dyn Engine, op: &str) -> String {
        if self.dead {
            return "DEAD".to_string();
        }
        let obs = ctx.step(eng, op);
        ctx.count(&format!("wrapzone-op={}", op.split(' ').nth(1).unwrap_or("")));
        let v = if let Some(x) = obs.strip_prefix("toi ") {
            x.parse::<u64>().ok()
        } else if let Some(x) = obs.strip_prefix("ok ") {
            x.split(' ').last().and_then(|y| y.parse::<u64>().ok())
        } else {
            None
        };
        if let Some(v) = v {
            if !op.starts_with("toi addx") {
                if v < self.last && op.starts_with("toi churn") == false {
                    ctx.count("wrapzone-single-allocation-crossing-the-wrap");
                }
                self.last = v;
            }
        }
        if obs == "PANIC" || obs == "HANG" || obs == "DEAD" {
            self.dead = true;
        }
        obs
    }
    /// one allocation of a random kind; `keep` = the holder stays live
    fn place(&mut self, ctx: &mut Ctx, eng: &mut dyn Engine, rng: &mut Rng, keep: bool) {
        match rng.below(4) {
            0 | 1 => {
                let h = self.name();
                let obs = self.step(ctx, eng, &format!("toi {} {}", if rng.bool() { "alloc" } else { "alloct" }, h));
                if obs.starts_with("toi ") {
                    if keep {
                        self.handles.push(h);
                    } else {
                        self.step(ctx, eng, &format!("toi {} {}", if rng.bool() { "drop" } else { "dropt" }, h));
                    }
                }
            }
            2 => {
                let k = self.name();
                if !keep && rng.bool() {
                    if self.step(ctx, eng, &format!("toi addfail {}", k)) == "ERR" {
                        let mut o = Oracle::default();
                        let p = eng.exec("toi lastprobe", &mut o);
                        self.step(ctx, eng, &format!("toi probe {}", p));
                    }
                    return;
                }
                let car = keep && rng.chance(1, 3);
                let obs = self.step(ctx, eng, &format!("toi {} {}", if car { "addc" } else { "add" }, k));
                if obs.starts_with("toi ") {
                    if car {
                        self.carousel.push(k);
                    }
                    if keep {
                        self.objs.push(k);
                    } else {
                        self.step(ctx, eng, &format!("toi remove {}", k));
                    }
                }
            }
            _ => {
                let h = self.name();
                let k = self.name();
                let obs = self.step(ctx, eng, &format!("toi alloc {}", h));
                if obs.starts_with("toi ") {
                    if keep {
                        if self.step(ctx, eng, &format!("toi addx {} {}", k, h)).starts_with("toi ") {
                            self.objs.push(k);
                        }
                    } else {
                        self.step(ctx, eng, &format!("toi addxfail {} {}", k, h));
                    }
                }
            }
        }
    }
    /// release one random holder (any way the API offers)
    fn release(&mut self, ctx: &mut Ctx, eng: &mut dyn Engine, rng: &mut Rng) {
        let nh = self.handles.len() as u64;
        let no = self.objs.len() as u64;
        if nh + no == 0 {
            return;
        }
        let i = rng.below(nh + no);
        if i < nh {
            let h = self.handles.swap_remove(i as usize);
            self.step(ctx, eng, &format!("toi {} {}", if rng.bool() { "drop" } else { "dropt" }, h));
        } else {
            let k = self.objs[(i - nh) as usize];
            if self.cur.is_none() && rng.chance(2, 3) {
                // transfer it; sometimes remove it while it is in transfer; complete now or a few steps later
                self.step(ctx, eng, &format!("toi start {}", k));
                self.cur = Some(k);
                self.cur_removed = false;
                if rng.chance(1, 3) {
                    self.step(ctx, eng, &format!("toi remove {}", k));
                    self.cur_removed = true;
                }
                if rng.bool() {
                    self.drain(ctx, eng);
                }
            } else if self.cur != Some(k) {
                self.objs.retain(|x| *x != k);
                self.step(ctx, eng, &format!("toi remove {}", k));
            }
        }
    }
    fn drain(&mut self, ctx: &mut Ctx, eng: &mut dyn Engine) {
        if let Some(k) = self.cur.take() {
            // a carousel object that was not removed during its transfer stays live (and can go again)
            if !(self.carousel.contains(&k) && !self.cur_removed) {
                self.objs.retain(|x| *x != k);
            }
            self.step(ctx, eng, "toi drain");
        }
    }
}

fn wrapzone(ctx: &mut Ctx, eng: &mut dyn Engine, rng: &mut Rng, id: &str) {
    const MAX: u64 = 65535;
    eng.reset();
    ctx.case(id);
    ctx.count("wrapzone-cases");
    let j = rng.below(5); // the zone starts at max-j
    let low_first = rng.chance(1, 3);
    let start: u64 = if low_first { *rng.pick(&[1u64, 0, 2, 65536, 3]) } else { MAX - j };
    let tsi = *rng.pick(&[1u64, 65536]);
    let mut z = Zone { handles: vec![], objs: vec![], carousel: vec![], cur_removed: false, cur: None, next_name: 0, last: 0, dead: false };
    if z.step(ctx, eng, &format!("toi new 16 {} {}", start, tsi)) != "ok" {
        return;
    }
    let dense = rng.chance(1, 3); // all values of the zone live (long consecutive runs)
    let keep = |rng: &mut Rng| dense || rng.chance(2, 3);
    if low_first {
        // values 1, 2, 3, ... first, then up to max-j
        for _ in 0..rng.range(1, 5) {
            let k = keep(rng);
            z.place(ctx, eng, rng, k);
        }
        let next = z.last + 1;
        if MAX - j > next {
            z.step(ctx, eng, &format!("toi churn {}", MAX - j - next));
        }
        for _ in 0..(j + 1) {
            let k = keep(rng);
            z.place(ctx, eng, rng, k);
        }
        // the counter has just wrapped onto the live values 1, 2, ...
        for _ in 0..rng.range(1, 4) {
            let k = keep(rng);
            z.place(ctx, eng, rng, k);
        }
    } else {
        // max-j .. max, 1, 2, ...
        for _ in 0..(j + 1 + rng.range(1, 5)) {
            let k = keep(rng);
            z.place(ctx, eng, rng, k);
        }
    }
    for round in 0..2 {
        if z.dead {
            break;
        }
        // B: once around the circle, ending r free values before the present position
        let live = z.live();
        let r = rng.below(10 + if dense { 0 } else { 6 });
        if live + r + 1 < MAX {
            z.step(ctx, eng, &format!("toi churn {}", MAX - live - r));
        }
        // C: cross the zone step by step
        let steps = 8 + r + rng.below(8);
        for _ in 0..steps {
            if z.dead {
                break;
            }
            let x = rng.below(100);
            if x < 55 {
                let k = rng.chance(1, 2);
                z.place(ctx, eng, rng, k);
            } else if x < 80 {
                z.release(ctx, eng, rng);
            } else if x < 88 && z.cur.is_some() {
                z.drain(ctx, eng);
            } else if x < 94 {
                z.step(ctx, eng, "toi fdt");
            } else {
                z.step(ctx, eng, &format!("toi churn {}", rng.range(1, 3)));
            }
        }
        if round == 0 && rng.bool() {
            z.drain(ctx, eng);
        }
    }
    z.drain(ctx, eng);
    z.step(ctx, eng, "toi fdt");
    ctx.end_case(eng);
    if !z.dead {
        ctx.nontrivial(id);
    }
}


// ------------------------------------------------------------------------------------------------
// admission family: boundary values of every check of add_object / FileDesc::new, then seeded random

fn scheme_tokens(fec: u32, all: bool) -> Vec<&'static str> {
    let matching = match fec {
        6 => "q.0.1.4",
        1 => "r.0.1.4",
        2 => "s.8.1",
        _ => "n",
    };
    if !all {
        return vec![matching];
    }
    let mut v = vec![matching, "n", "q.7.1.4", "r.7.1.4"];
    v.dedup();
    v
}

fn max_sbn(fec: u32) -> u128 {
    match fec {
        0 | 1 => 65535,
        5 | 6 => 255,
        129 => 4294967295,
        _ => 65535,
    }
}

fn admit_lengths(fec: u32, e: u64, b: u64, parity: u64) -> Vec<u64> {
    let cap: u128 = if fec == 6 { 0xFF_FFFF_FFFF } else { 0xFFFF_FFFF_FFFF };
    let (e1, b1) = (e as u128, b as u128);
    let mut v: Vec<u128> = vec![0, 1, e1, e1 + 1, e1 * b1, e1 * b1 + 1, cap - 1, cap, cap + 1, u64::MAX as u128];
    let size = e1 * b1 * max_sbn(fec);
    v.extend([size.saturating_sub(1), size, size + 1]);
    // Reed-Solomon: a_large + parity around 255 / 256
    if parity <= 256 {
        let k = 256 - parity as u128;
        v.extend([e1 * k, e1 * k + 1, e1 * (k + 1) + 1, (e1 * k).saturating_sub(e1), (e1 * k).saturating_sub(e1) + 1]);
    }
    // Raptor / RaptorQ: a_large around K max, number of blocks around the u8 / u16 limits of Z
    for k in [8192u128, 56403] {
        v.extend([e1 * k, e1 * k + 1]);
    }
    for z in [255u128, 256, 65535, 65536] {
        v.extend([e1 * b1 * z, e1 * b1 * z + 1, (e1 * b1 * z).saturating_sub(e1)]);
    }
    let mut out: Vec<u64> = v.into_iter().filter(|x| *x <= u64::MAX as u128).map(|x| x as u64).collect();
    out.sort();
    out.dedup();
    out
}

fn admit_op(prio: u32, complete: bool, dflt: &str, ovr: &str, len: u64, toi: &str, ct: &str, md5: &str, etag: &str, groups: &str) -> String {
    format!(
        "toi admission {} {} {} {} {} {} {} {} {} {}",
        prio, complete as u8, dflt, ovr, len, toi, ct, md5, etag, groups
    )
}

fn admit_cases(ctx: &mut Ctx, eng: &mut dyn Engine, rng: &mut Rng, nrandom: usize) {
    eng.reset();
    ctx.case("admit");
    const NOCODE: &str = "0:1024:64:0:n";
    const CT: &str = "116.101.120.116"; // "text"
    let issue = |ctx: &mut Ctx, eng: &mut dyn Engine, op: String| {
        let obs = ctx.step(eng, &op);
        ctx.evaluations += 1;
        // which check refused and whether a TOI value was consumed: samples, not compared with the model
        let mut o = Oracle::default();
        let sample = eng.exec("toi lastsample", &mut o);
        let key = if obs.starts_with("ok") {
            "admit=ok".to_string()
        } else if obs == "ERR" {
            format!("admit=ERR {}", sample)
        } else {
            format!("admit={}", obs.split(' ').next().unwrap_or(""))
        };
        ctx.count(&key);
    };
    let geoms: [(u64, u64); 21] = [
        (0, 64), (16, 0), (1, 1), (4, 2), (4, 255), (4, 256), (16, 8192), (16, 8193), (4, 56403), (4, 56404),
        (1024, 64), (65535, 65535), (65535, 4294967295), (1, 4294967295), (2, 65536), (65535, 65537),
        (4, 253), (4, 254), (4, 65533), (4, 65534), (4, 65535),
    ];
    for fec in [0u32, 1, 2, 5, 6, 129] {
        for (e, b) in geoms {
            let parities: &[u64] = if fec == 5 || fec == 129 { &[0, 1, 2, 255, 256, 4294967295] } else { &[0, 2] };
            for &parity in parities {
                let lens = admit_lengths(fec, e, b, parity);
                for (i, len) in lens.iter().enumerate() {
                    for sc in scheme_tokens(fec, i % 5 == 0) {
                        let oti = format!("{}:{}:{}:{}:{}", fec, e, b, parity, sc);
                        // as per-object override, and (every third) as the session default
                        issue(ctx, eng, admit_op(0, false, NOCODE, &oti, *len, "none", CT, "-", "-", "-"));
                        if i % 3 == 0 {
                            issue(ctx, eng, admit_op(0, false, &oti, "-", *len, "own", CT, "-", "-", "-"));
                        }
                    }
                }
            }
        }
    }
    // small partitions: blocks of 0..5 symbols, one or two block sizes (Raptor refuses sizes 2 and 3 that are in use)
    for fec in [0u32, 1, 5, 6, 129] {
        for b in 1u64..=6 {
            for t in 0u64..=14 {
                for len in [4 * t, (4 * t).saturating_sub(1)] {
                    let sc = scheme_tokens(fec, false)[0];
                    let oti = format!("{}:4:{}:2:{}", fec, b, sc);
                    issue(ctx, eng, admit_op(0, false, NOCODE, &oti, len, "none", CT, "-", "-", "-"));
                }
            }
        }
    }
    // REAL content-encoded objects around the transfer-length limit: the limit applies to the ENCODED length.
    // incompressible content a little below the limit (encoded form above it: must be refused), compressible content
    // far above the limit (encoded form below it: must be accepted)
    for (oti, limit) in [("5:1:1:1:n", 255u64), ("0:1:1:0:n", 65535), ("0:4:1:0:n", 262140)] {
        for cenc in [1u32, 2, 3] {
            let mut cases: Vec<(&str, u64)> = vec![];
            for d in [300u64, 60, 30, 12, 4, 1, 0] {
                cases.push(("r", limit.saturating_sub(d)));
            }
            cases.push(("r", limit + 1));
            for m in [limit + 1, limit * 3, limit + 4096] {
                cases.push(("z", m));
            }
            for (kind, plain) in cases {
                let mut o = Oracle::default();
                let tl = eng.exec(&format!("toi cenclen {} {} {}", cenc, kind, plain), &mut o);
                if tl.parse::<u64>().is_err() {
                    ctx.count("admission-cenc-harness-error");
                    continue;
                }
                let obs = ctx.step(eng, &format!("toi admissionc {} {} {} {} {}", oti, cenc, kind, plain, tl));
                ctx.evaluations += 1;
                let tlv: u64 = tl.parse().unwrap();
                ctx.count(&format!(
                    "admission-cenc plain{}limit encoded{}limit -> {}",
                    if plain > limit { ">" } else { "<=" },
                    if tlv > limit { ">" } else { "<=" },
                    obs.split(' ').next().unwrap_or("")
                ));
            }
        }
    }
    // the checks in front of FileDesc::new, alone and in combination (order of the checks)
    let cps: [u32; 17] = [0, 1, 8, 9, 10, 13, 31, 32, 127, 0xD7FF, 0xE000, 0xFFFD, 0xFFFE, 0xFFFF, 0x10000, 0x10FFFF, 65];
    let too_long = "5:4:2:1:n"; // max transfer length 2040
    for prio in [0u32, 7] {
        for complete in [false, true] {
            for toi in ["none", "own", "foreign"] {
                for (ovr, len) in [("-", 100u64), (too_long, 2041), (too_long, 2040), ("5:4:2:0:n", 8)] {
                    for bad in [false, true] {
                        let ct = if bad { "116.1.120" } else { CT };
                        issue(ctx, eng, admit_op(prio, complete, NOCODE, ovr, len, toi, ct, "-", "-", "-"));
                    }
                }
            }
        }
    }
    for c in cps {
        let s1 = format!("97.{}.98", c);
        issue(ctx, eng, admit_op(0, false, NOCODE, "-", 10, "none", &s1, "-", "-", "-"));
        issue(ctx, eng, admit_op(0, false, NOCODE, "-", 10, "none", CT, &s1, "-", "-"));
        issue(ctx, eng, admit_op(0, false, NOCODE, "-", 10, "none", CT, "-", &s1, "-"));
        issue(ctx, eng, admit_op(0, false, NOCODE, "-", 10, "none", CT, "-", "-", &format!("103/{}/e", s1)));
        issue(ctx, eng, admit_op(0, false, NOCODE, "-", 10, "none", &format!("{}", c), "e", "e", "e"));
    }
    // seeded random
    for _ in 0..nrandom {
        let fec = *rng.pick(&[0u32, 1, 2, 5, 6, 129]);
        let e = match rng.below(4) {
            0 => rng.below(4),
            1 => *rng.pick(&[1u64, 4, 16, 1024, 1428, 65535]),
            _ => rng.bits(16) as u64,
        };
        let b = match rng.below(4) {
            0 => rng.below(4),
            1 => *rng.pick(&[64u64, 255, 256, 8192, 8193, 56403, 56404, 65535, 65536]),
            _ => rng.bits(32) as u64,
        };
        let parity = match rng.below(3) {
            0 => rng.below(3),
            1 => rng.below(300),
            _ => rng.bits(32) as u64,
        };
        let all_sc = rng.chance(1, 4);
        let sc = *rng.pick(&scheme_tokens(fec, all_sc));
        let lens = admit_lengths(fec, e, b, parity);
        let len = match rng.below(3) {
            0 => *rng.pick(&lens),
            1 => (*rng.pick(&lens)).wrapping_add(rng.below(5)).wrapping_sub(2),
            _ => rng.bits(64) as u64,
        };
        let oti = format!("{}:{}:{}:{}:{}", fec, e, b, parity, sc);
        let toi = *rng.pick(&["none", "none", "own", "foreign"]);
        let prio = if rng.chance(1, 10) { 7 } else { 0 };
        let bad_ct = rng.chance(1, 10);
        let ct = if bad_ct { format!("97.{}", rng.pick(&cps)) } else { CT.to_string() };
        if rng.bool() {
            issue(ctx, eng, admit_op(prio, rng.chance(1, 12), NOCODE, &oti, len, toi, &ct, "-", "-", "-"));
        } else {
            issue(ctx, eng, admit_op(prio, rng.chance(1, 12), &oti, "-", len, toi, &ct, "-", "-", "-"));
        }
    }
}

fn wire_cases(ctx: &mut Ctx, eng: &mut dyn Engine, rng: &mut Rng, n: usize) {
    eng.reset();
    ctx.case("wire");
    let tsis = [0u64, 1, 65535, 65536, 70000, u32::MAX as u64, 1 << 32, (1 << 48) - 1, 1 << 48, u64::MAX];
    let mut tois: Vec<u128> = vec![0, 1, 2];
    for g in 1..=8u32 {
        let b = 16 * g;
        if b < 128 {
            tois.extend([(1u128 << b) - 1, 1u128 << b, (1u128 << b) + 1]);
        }
    }
    tois.push(u128::MAX);
    for toi in &tois {
        for tsi in tsis {
            ctx.step(eng, &format!("toi wire {} {}", toi, tsi));
            ctx.evaluations += 1;
            ctx.count(if toi >> 112 == 0 { "wire<2^112" } else { "wire>=2^112" });
        }
    }
    for _ in 0..n {
        let toi = rng.bits(128);
        let tsi = rng.bits(64) as u64;
        ctx.step(eng, &format!("toi wire {} {}", toi, tsi));
        ctx.evaluations += 1;
        ctx.count(if toi >> 112 == 0 { "wire<2^112" } else { "wire>=2^112" });
    }
}

pub fn run(ctx: &mut Ctx, eng: &mut dyn Engine) {
    ctx.rule = "histories of allocate_toi / drop (same thread, other thread, concurrent) / add_object with and without \
                explicit TOI (accepted and refused) / add_object with a handle of ANOTHER sender (value live here, next candidate here, random) / \
                add_object on a missing priority queue / remove_object / transfer start / transfer completion / freerun (n objects multiplexed to completion) / churn \
                (allocate+drop n times; for 16 bit once around the circle so that released values come back and live ones are skipped) of up to 300 operations on a real Sender, \
                x 6 TOI widths x start values {1, 0, max-1, max, max+1, 2*max+1, u128::MAX, None (random) x2, random in range, \
                random 128 bit}; plus structured 16-bit wrap-zone histories (holders of all kinds on max-j..max, 1, 2, .. with gaps or dense, \
                churn once around the circle to just before / into the zone, then the zone crossed by single allocations interleaved with \
                releases of the holders in it, twice); every returned TOI, the TOI field (flags and bytes) of the object's packets, the FDT TOI \
                attributes and the remove results are compared with the Lean model; oracle = the clauses of C15 on the \
                implementation's observations; plus the admission family (Flute.Admission.accepts: add_object Ok / Err reason / panic, Z announced in the FDT, TOI consumed or not, \
                on a fresh Sender per operation: boundary values of every check x 6 FEC ids x scheme-specific present/absent/mismatched, the early checks in \
                all combinations, XML character classes, seeded random); plus header build/parse of boundary and random TOI x TSI values; \
                non-trivial = history with >= 2 allocations and >= 4 distinct operation kinds (distinct by case id)"
        .to_string();
    let mut rng = Rng::new(ctx.seed);
    let reps = if ctx.tier_thorough { 12 } else { 2 };
    'gen: for rep in 0..reps {
        for bits in WIDTHS {
            for (i, init) in start_values(bits, &mut rng).into_iter().enumerate() {
                if HANGS.load(Ordering::SeqCst) >= 1 {
                    // every hang is already reported (VIOLATION) and leaves a spinning thread behind:
                    // stop generating histories instead of collecting time-outs
                    ctx.count("generation-stopped-after-a-timeout");
                    break 'gen;
                }
                let nops = if rep == 0 { 300 } else { rng.range(5, 300) as usize };
                let id = format!("seq-w{}-s{}-r{}", bits, i, rep);
                sequence(ctx, eng, &mut rng, bits, init, nops, &id);
            }
        }
    }
    let nz = if ctx.tier_thorough { 1000 } else { 150 };
    for i in 0..nz {
        if HANGS.load(Ordering::SeqCst) >= 1 {
            ctx.count("generation-stopped-after-a-timeout");
            break;
        }
        wrapzone(ctx, eng, &mut rng, &format!("wrapzone-{}", i));
    }
    admit_cases(ctx, eng, &mut rng, if ctx.tier_thorough { 40_000 } else { 2_000 });
    wire_cases(ctx, eng, &mut rng, if ctx.tier_thorough { 200_000 } else { 20_000 });
    if ctx.tier_thorough {
        // D19: ToiMax16, 65534 handles live (every non-zero value but one): the call that takes the last
        // free value never returns.  Last case of the run: the hanging session thread is abandoned.
        eng.reset();
        ctx.case("d19-exhaust16");
        ctx.count("d19-exhaust16");
        ctx.step(eng, "toi new 16 1 1");
        ctx.step(eng, "toi allocn 65534");
        ctx.step(eng, "toi alloc 5");
        ctx.end_case(eng);
    }
    ctx.sample("toi new 16 65534 1 ; toi alloc 1 -> toi 65534 ; toi alloc 2 -> toi 65535 ; toi alloc 3 -> toi 1".to_string());
    ctx.sample("toi add 4 -> toi 2 ; toi start 4 -> wire 2 0 1 0002 ; toi remove 4 -> true ; toi fdt -> fdt - ; toi drain -> done 2".to_string());
}

fn main() {
    harness_core::engine_main("toi", || Box::new(ToiEngine::new()), run);
}
