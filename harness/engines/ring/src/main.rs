//! Engine `ring`: the REAL `tools::ringbuffer::RingBuffer` and the REAL `receiver::blockwriter::BlockWriter`
//! (with the real `uncompress::Decompress{Zlib,Deflate,Gzip}` = flate2 decoders reading from the ring) through the
//! verif hooks, against the Lean model (FluteModel/Ring.lean, FluteModel/Drain.lean).  Supports C01 / C04.
//!
//! ops: see lean/FluteModel/Drv/Ring.lean.
//!
//! ORACLE (class prefixed with the property served).  It is RELATIONAL: it states what C04 needs of a byte ring and
//! nothing about the policy of the ring that exists today (capacity `size - 1`, greedy accept, full-length reads,
//! index values) - any FIFO-correct ring passes it:
//!   C04:ring-fifo      write claims to have accepted more than it was offered; read claims more than the buffer holds,
//!                      delivers more than is pending (a byte never written / delivered twice), delivers bytes that are
//!                      not the oldest pending ones in order (reordered / altered / skipped), answers end-of-file
//!                      (`Ok(0)` into a non-empty buffer) while accepted bytes are pending, or - once `finish()` was
//!                      called - answers WouldBlock while accepted bytes are pending (those bytes are lost)
//!   C04:ring-unbounded the ring holds more accepted, undelivered bytes than `2 * size + 64` (size = the configured one;
//!                      the slack admits a ring that rounds its capacity to a power of two or keeps no spare slot)
//!   C04:ring-panic     a ring call panics
//!   C04:drain-hang     BlockWriter does not return within the watchdog time (one constant, `WATCHDOG_S`)
//!   C04:drain-panic    BlockWriter / a decompressor panics
//!   C01:inflate-output a valid stream (any chunking) does not come out as the original bytes
//!   C04:inflate-prefix a truncated stream yields something that is not a prefix of the original bytes
//!   C04:contract-mu    a real decompressor hands out more bytes than its input determines, i.e. the candidate measure
//!                      `mu = P(F) - E` of `Drain.Contract` would be negative (see `run_dc`)
//! What is COMPARED with the model (exact per-call answers of the ring as it is today) is a different matter: see the
//! header of lean/FluteModel/Drv/Ring.lean and props.d/C04.json.
use flute::core::lct::Cenc;
use flute::verif_hooks as hk;
use harness_core::{guarded, hex, Ctx, Engine, Oracle, Rng};
use std::collections::VecDeque;
use std::io::Write;
use std::panic::AssertUnwindSafe;

fn lcg_next(x: u64) -> u64 {
    (x * 1103515245 + 12345) % 2147483648
}

fn lcg_bytes(n: usize, seed: u64) -> Vec<u8> {
    let mut x = seed;
    (0..n)
        .map(|_| {
            x = lcg_next(x);
            (x / 65536 % 256) as u8
        })
        .collect()
}

fn fnv(b: &[u8]) -> u64 {
    let mut h: u64 = 14695981039346656037;
    for x in b {
        h ^= *x as u64;
        h = h.wrapping_mul(1099511628211);
    }
    h
}

fn unhex(s: &str) -> Option<Vec<u8>> {
    if s == "-" {
        return Some(vec![]);
    }
    if s.len() % 2 != 0 {
        return None;
    }
    (0..s.len() / 2).map(|i| u8::from_str_radix(s.get(2 * i..2 * i + 2)?, 16).ok()).collect()
}

/// reference: the bytes accepted and not yet delivered, oldest first.  NO capacity, NO accept / return policy:
/// the reference follows what the ring says it accepted and checks what it delivers.
struct RefStream {
    q: VecDeque<u8>,
    size: usize,
    fin: bool,
}

struct Live {
    ring: hk::RingHandle,
    reference: RefStream,
}

/// answer of a ring write
enum WriteObs {
    Accepted(usize),
    /// `Err(_)` from `Write::write`: nothing accepted; not a C04 failure (BlockWriter propagates it with `?`)
    Refused,
    Panic,
}

/// answer of a ring read
enum ReadObs {
    Bytes(Vec<u8>),
    WouldBlock,
    /// any other `Err`: nothing delivered; not a C04 failure (decoder_read turns it into a FluteError)
    Refused,
    Panic,
}

impl Live {
    fn new(size: usize) -> Live {
        Live { ring: hk::RingHandle::new(size), reference: RefStream { q: VecDeque::new(), size, fin: false } }
    }
    fn write(&mut self, d: &[u8], o: &mut Oracle) -> WriteObs {
        let ring = AssertUnwindSafe(&mut self.ring);
        let r = guarded(move || {
            let ring = ring;
            ring.0.write(d).ok()
        });
        match r {
            Ok(Some(k)) => {
                if k > d.len() {
                    o.fail("C04:ring-fifo", &format!("write of {} bytes claims to have accepted {}", d.len(), k));
                }
                let r = &mut self.reference;
                r.q.extend(&d[..k.min(d.len())]);
                if r.q.len() > 2 * r.size + 64 {
                    o.fail("C04:ring-unbounded", &format!("a ring created with size {} holds {} accepted, undelivered bytes", r.size, r.q.len()));
                }
                WriteObs::Accepted(k)
            }
            Ok(None) => WriteObs::Refused,
            Err(at) => {
                o.fail("C04:ring-panic", &format!("write panics at {}", at));
                WriteObs::Panic
            }
        }
    }
    fn read(&mut self, n: usize, o: &mut Oracle) -> ReadObs {
        let mut buf = vec![0u8; n];
        let ring = AssertUnwindSafe(&mut self.ring);
        let b = AssertUnwindSafe(&mut buf);
        let r = guarded(move || {
            let ring = ring;
            let b = b;
            ring.0.read(&mut b.0[..])
        });
        let q = &mut self.reference.q;
        match r {
            Ok(hk::HookRead::Ok(k)) => {
                if k > n {
                    o.fail("C04:ring-fifo", &format!("read into {} bytes claims {} bytes", n, k));
                }
                let got = buf[..k.min(n)].to_vec();
                if got.len() > q.len() {
                    o.fail("C04:ring-fifo", &format!("read({}) delivers {} bytes, only {} were accepted and not yet delivered", n, got.len(), q.len()));
                } else if !q.iter().zip(got.iter()).all(|(a, b)| a == b) {
                    let at = q.iter().zip(got.iter()).position(|(a, b)| a != b).unwrap_or(0);
                    o.fail("C04:ring-fifo", &format!("read({}) delivers {} bytes that are not the oldest pending ones in order (first difference at byte {})", n, got.len(), at));
                } else if got.is_empty() && n > 0 && !q.is_empty() {
                    o.fail("C04:ring-fifo", &format!("read({}) answers end-of-file (Ok(0)) while {} accepted bytes are pending", n, q.len()));
                }
                let m = got.len().min(q.len());
                q.drain(..m);
                ReadObs::Bytes(got)
            }
            Ok(hk::HookRead::WouldBlock) => {
                if self.reference.fin && n > 0 && !q.is_empty() {
                    o.fail("C04:ring-fifo", &format!("read({}) would block after finish() while {} accepted bytes are pending: they are lost", n, q.len()));
                }
                ReadObs::WouldBlock
            }
            Ok(hk::HookRead::Err(_)) => ReadObs::Refused,
            Err(at) => {
                o.fail("C04:ring-panic", &format!("read panics at {}", at));
                ReadObs::Panic
            }
        }
    }
    fn finish(&mut self) {
        self.ring.finish();
        self.reference.fin = true;
    }
    /// `dr <n>`: read into `n` bytes until end-of-file / WouldBlock / nothing delivered; all bytes delivered, concatenated
    fn drain(&mut self, n: usize, o: &mut Oracle) -> String {
        let mut all: Vec<u8> = Vec::new();
        // every useful read delivers at least one pending byte
        let mut budget = self.reference.q.len() + 2;
        loop {
            match self.read(n, o) {
                ReadObs::Bytes(b) if b.is_empty() => return format!("ok {} {} eof", all.len(), fnv(&all)),
                ReadObs::Bytes(b) => all.extend_from_slice(&b),
                ReadObs::WouldBlock => return format!("ok {} {} WB", all.len(), fnv(&all)),
                ReadObs::Refused => return "ERR".to_string(),
                ReadObs::Panic => return "PANIC".to_string(),
            }
            if budget == 0 {
                // only reachable after a `C04:ring-fifo` failure (more delivered than pending)
                return format!("ok {} {} more", all.len(), fnv(&all));
            }
            budget -= 1;
        }
    }
}

fn is_prefix(a: &[u8], b: &[u8]) -> bool {
    a.len() <= b.len() && &b[..a.len()] == a
}

/// the canonical verdict; same rule as `verdict` in lean/FluteModel/Drv/Ring.lean.
/// `<ok|ERR> <full|pfx|trunc|other>` = status of the run (`ok`: every `BlockWriter::write` returned `Ok(true)`) and the
/// relation of the bytes handed to the object writer with the original; it is printed un-collapsed for `valid` and
/// `trailing`.  `truncated`: the ideal decompressor of the model knows when an inflater stops, not how much of a cut
/// stream it can already decode, so `full` is printed as `pfx`.  `garbage`: the model has no inflate algorithm at all,
/// nothing but termination is predicted - `done` (the real status goes to the evidence distribution only).
fn verdict(kind: &str, cl: Option<usize>, orig: &[u8], ok: bool, out: &[u8]) -> String {
    let s = if ok { "ok" } else { "ERR" };
    let rel = if out == orig {
        "full"
    } else if is_prefix(out, orig) {
        "pfx"
    } else {
        "other"
    };
    if kind == "garbage" {
        return "done".to_string();
    }
    if kind == "truncated" {
        return format!("{} {}", s, if rel == "other" { "other" } else { "pfx" });
    }
    let short = cl.map(|c| c < orig.len()).unwrap_or(false);
    let rel2 = if short && (rel == "full" || (rel == "pfx" && cl.unwrap_or(0) <= out.len())) { "trunc" } else { rel };
    format!("{} {}", s, rel2)
}

fn cenc_of(s: &str) -> Option<Cenc> {
    match s {
        "zlib" => Some(Cenc::Zlib),
        "deflate" => Some(Cenc::Deflate),
        "gzip" => Some(Cenc::Gzip),
        _ => None,
    }
}

/// ONE watchdog time for every `bw` op, whatever happened before (the harness core has its own per-op watchdog of
/// `VERIF_OP_TIMEOUT` = 120 s that ends the process with a `.hang` replay; this one fires first so that the class and
/// the remaining ops are reported too).  A `bw` op takes milliseconds; 60 s of wall clock is a hang, not a slow machine.
const WATCHDOG_S: u64 = 60;

/// the un-collapsed answer of the last `bw` op (`<ok|ERR> <full|pfx|other> <n>B`), for the evidence distribution only
static LAST_BW_DETAIL: std::sync::Mutex<String> = std::sync::Mutex::new(String::new());

fn run_bw(t: &[&str], o: &mut Oracle) -> String {
    // bw <cenc> <cl|-> <kind> <L> <orig-hex> <chunk-hex>...
    if t.len() < 7 {
        return "bad-op".to_string();
    }
    let Some(cenc) = cenc_of(t[1]) else { return "bad-op".to_string() };
    let cl: Option<usize> = if t[2] == "-" {
        None
    } else {
        match t[2].parse() {
            Ok(v) => Some(v),
            Err(_) => return "bad-op".to_string(),
        }
    };
    let kind = t[3];
    if !["valid", "trailing", "truncated", "garbage"].contains(&kind) || t[4].parse::<usize>().is_err() {
        return "bad-op".to_string();
    }
    let Some(orig) = unhex(t[5]) else { return "bad-op".to_string() };
    let mut chunks = Vec::new();
    for c in &t[6..] {
        match unhex(c) {
            Some(v) if !v.is_empty() => chunks.push(v),
            _ => return "bad-op".to_string(),
        }
    }
    *LAST_BW_DETAIL.lock().unwrap() = String::new();
    let (tx, rx) = std::sync::mpsc::channel();
    std::thread::spawn(move || {
        let r = guarded(move || hk::blockwriter_run(cenc, &chunks, cl, true));
        tx.send(r).ok();
    });
    match rx.recv_timeout(std::time::Duration::from_secs(WATCHDOG_S)) {
        Err(_) => {
            o.fail("C04:drain-hang", &format!("BlockWriter did not return within {} s (kind {}, cl {:?})", WATCHDOG_S, kind, cl));
            "HANG".to_string()
        }
        Ok(Err(at)) => {
            o.fail("C04:drain-panic", &format!("BlockWriter panics at {} (kind {}, cl {:?})", at, kind, cl));
            "PANIC".to_string()
        }
        Ok(Ok(None)) => "NOBLOCK".to_string(),
        Ok(Ok(Some(run))) => {
            let ok = run.results.iter().all(|r| matches!(r, Ok(true)));
            if run.results.iter().any(|r| matches!(r, Ok(false))) {
                return "SBN".to_string();
            }
            let short = cl.map(|c| c < orig.len()).unwrap_or(false);
            match kind {
                "valid" if !short => {
                    if !ok || run.output != orig {
                        o.fail("C01:inflate-output", &format!("valid {} stream: status {}, {} bytes out, original {} bytes, equal={}", t[1], if ok { "ok" } else { "ERR" }, run.output.len(), orig.len(), run.output == orig));
                    }
                    if ok && !run.completed {
                        o.fail("C01:inflate-output", "all blocks written but BlockWriter not completed");
                    }
                }
                "trailing" if !short => {
                    if run.output != orig {
                        o.fail("C01:inflate-output", &format!("valid {} stream followed by garbage: {} bytes out, original {} bytes, equal=false", t[1], run.output.len(), orig.len()));
                    }
                }
                "truncated" | "valid" | "trailing" => {
                    if !is_prefix(&run.output, &orig) {
                        o.fail("C04:inflate-prefix", &format!("{} {} stream: output ({} bytes) is not a prefix of the original", kind, t[1], run.output.len()));
                    }
                }
                _ => {}
            }
            *LAST_BW_DETAIL.lock().unwrap() = format!(
                "{} {}",
                if ok { "ok" } else { "ERR" },
                if run.output == orig { "full" } else if is_prefix(&run.output, &orig) { "pfx" } else { "other" }
            );
            verdict(kind, cl, &orig, ok, &run.output)
        }
    }
}

/// number of output bytes the first `f` bytes of `stream` determine, by an independent decoder fed from a slice
/// (no ring buffer, no BlockWriter): read until end of input or error
fn determined_output(cenc: Cenc, prefix: &[u8]) -> usize {
    use std::io::Read;
    let mut total = 0usize;
    let mut buf = [0u8; 4096];
    let mut count = |r: &mut dyn Read| loop {
        match r.read(&mut buf) {
            Ok(0) | Err(_) => break,
            Ok(n) => total += n,
        }
    };
    match cenc {
        Cenc::Zlib => count(&mut flate2::read::ZlibDecoder::new(prefix)),
        Cenc::Deflate => count(&mut flate2::read::DeflateDecoder::new(prefix)),
        Cenc::Gzip => count(&mut flate2::read::GzDecoder::new(prefix)),
        Cenc::Null => {}
    }
    total
}

/// `dc <cenc> <chunk-hex>...` : measurement of the hypothesis `Drain.Contract` on the REAL decompressors
/// (`Decompress{Zlib,Deflate,Gzip}` over the real ring), oracle-only (the model ASSUMES the contract, its side of a `dc`
/// line is a constant).  With F = input bytes accepted so far, E = bytes handed out so far and P(F) = output determined
/// by those F bytes (independent slice decoder, no ring, no BlockWriter), the candidate measure is `mu = P(F) - E`.
/// ONE predicate is checked after every non-empty read: `E <= P(F)`, i.e. `mu` is a natural number - the decoder is a
/// prefix-monotone transducer.  The other field, `read_decreases`, then holds by arithmetic (a non-empty read adds
/// n >= 1 to E and leaves F unchanged, so `mu` drops by n): it needs no measurement of its own - an earlier version
/// counted non-empty reads against the budget, a test that could never fire before `E > P(F)` did.  A decoder answering
/// non-empty reads for ever without input trips `E <= P(F)` after at most P(F) + 1 bytes.
fn run_dc(t: &[&str], o: &mut Oracle) -> String {
    if t.len() < 3 {
        return "bad-op".to_string();
    }
    let Some(cenc) = cenc_of(t[1]) else { return "bad-op".to_string() };
    let mut chunks = Vec::new();
    for c in &t[2..] {
        match unhex(c) {
            Some(v) if !v.is_empty() => chunks.push(v),
            _ => return "bad-op".to_string(),
        }
    }
    let r = guarded(move || {
        let mut fails: Vec<String> = Vec::new();
        let mut fed: Vec<u8> = chunks[0].clone();
        let Some(mut d) = hk::DecompressHandle::new(cenc, &chunks[0]) else { return fails };
        let mut buf = vec![0u8; chunks[0].len()];
        let mut emitted = 0usize;
        let mut drain = |d: &mut hk::DecompressHandle, fed: &[u8], emitted: &mut usize, fails: &mut Vec<String>| {
            let p = determined_output(cenc, fed);
            loop {
                match d.read(&mut buf) {
                    hk::HookRead::Ok(n) if n > 0 => {
                        *emitted += n;
                        if *emitted > p {
                            fails.push(format!("after {} input bytes the decoder handed out {} bytes, the input determines only {}", fed.len(), *emitted, p));
                            return;
                        }
                    }
                    _ => return,
                }
            }
        };
        drain(&mut d, &fed, &mut emitted, &mut fails);
        for c in chunks.iter().skip(1) {
            let mut off = 0;
            let mut stalled = false;
            while off < c.len() && fails.is_empty() {
                let k = d.write(&c[off..]).unwrap_or(0);
                fed.extend_from_slice(&c[off..off + k]);
                off += k;
                drain(&mut d, &fed, &mut emitted, &mut fails);
                if k == 0 && stalled {
                    break;
                }
                stalled = k == 0;
            }
        }
        d.finish();
        drain(&mut d, &fed, &mut emitted, &mut fails);
        fails
    });
    match r {
        Ok(f) if f.is_empty() => "contract-ok".to_string(),
        Ok(f) => {
            o.fail("C04:contract-mu", &f[0]);
            "contract-broken".to_string()
        }
        Err(at) => {
            o.fail("C04:drain-panic", &format!("decompressor panics at {}", at));
            "PANIC".to_string()
        }
    }
}

fn show_write(w: WriteObs) -> String {
    match w {
        WriteObs::Accepted(k) => format!("ok {}", k),
        WriteObs::Refused => "ERR".to_string(),
        WriteObs::Panic => "PANIC".to_string(),
    }
}

pub struct RingEngine {
    live: Option<Live>,
}

impl RingEngine {
    fn seq(&mut self, size: usize, ops: &str, o: &mut Oracle) -> String {
        let mut l = Live::new(size);
        let mut ctr: usize = 0;
        let mut out: Vec<String> = Vec::new();
        for tok in ops.split(',') {
            if tok == "f" {
                l.finish();
                out.push("f".to_string());
            } else if let Some(k) = tok.strip_prefix('w').and_then(|x| x.parse::<usize>().ok()) {
                let data: Vec<u8> = (0..k).map(|i| ((ctr + i) % 251 + 1) as u8).collect();
                ctr += k;
                match l.write(&data, o) {
                    WriteObs::Accepted(n) => out.push(n.to_string()),
                    WriteObs::Refused => out.push("ERR".to_string()),
                    WriteObs::Panic => return "PANIC".to_string(),
                }
            } else if let Some(n) = tok.strip_prefix('r').and_then(|x| x.parse::<usize>().ok()) {
                match l.read(n, o) {
                    ReadObs::Bytes(b) => out.push(hex(&b)),
                    ReadObs::WouldBlock => out.push("WB".to_string()),
                    ReadObs::Refused => out.push("ERR".to_string()),
                    ReadObs::Panic => return "PANIC".to_string(),
                }
            } else {
                return "bad-op".to_string();
            }
        }
        out.join(",")
    }
}

impl Engine for RingEngine {
    fn reset(&mut self) {
        self.live = None;
    }
    fn exec(&mut self, op: &str, o: &mut Oracle) -> String {
        let t: Vec<&str> = op.split(' ').collect();
        if t.len() < 2 || t[0] != "ring" {
            return "bad-op".to_string();
        }
        match (t[1], t.len()) {
            ("new", 3) => match t[2].parse::<usize>() {
                Ok(n) if n <= 1 << 24 => {
                    self.live = Some(Live::new(n));
                    "ok".to_string()
                }
                _ => "bad-op".to_string(),
            },
            ("w", 4) => match (self.live.as_mut(), t[2].parse::<usize>(), t[3].parse::<u64>()) {
                (Some(l), Ok(n), Ok(s)) => show_write(l.write(&lcg_bytes(n, s), o)),
                _ => "bad-op".to_string(),
            },
            ("wh", 3) => match (self.live.as_mut(), unhex(t[2])) {
                (Some(l), Some(d)) => show_write(l.write(&d, o)),
                _ => "bad-op".to_string(),
            },
            ("r", 3) => match (self.live.as_mut(), t[2].parse::<usize>()) {
                (Some(l), Ok(n)) => match l.read(n, o) {
                    ReadObs::Bytes(b) => format!("ok {} {}", b.len(), fnv(&b)),
                    ReadObs::WouldBlock => "WB".to_string(),
                    ReadObs::Refused => "ERR".to_string(),
                    ReadObs::Panic => "PANIC".to_string(),
                },
                _ => "bad-op".to_string(),
            },
            ("dr", 3) => match (self.live.as_mut(), t[2].parse::<usize>()) {
                (Some(l), Ok(n)) => l.drain(n, o),
                _ => "bad-op".to_string(),
            },
            ("f", 2) => match self.live.as_mut() {
                Some(l) => {
                    l.finish();
                    "ok".to_string()
                }
                None => "bad-op".to_string(),
            },
            ("seq", 4) => match t[2].parse::<usize>() {
                Ok(n) if n <= 1 << 16 => self.seq(n, t[3], o),
                _ => "bad-op".to_string(),
            },
            ("bw", _) => run_bw(&t[1..], o),
            ("dc", _) => run_dc(&t[1..], o),
            _ => "bad-op".to_string(),
        }
    }
}

// ------------------------------------------------------------------------------------------------------
// generator

fn compress(cenc: &str, data: &[u8], level: u32) -> Vec<u8> {
    let lvl = flate2::Compression::new(level);
    match cenc {
        "zlib" => {
            let mut e = flate2::write::ZlibEncoder::new(Vec::new(), lvl);
            e.write_all(data).unwrap();
            e.finish().unwrap()
        }
        "deflate" => {
            let mut e = flate2::write::DeflateEncoder::new(Vec::new(), lvl);
            e.write_all(data).unwrap();
            e.finish().unwrap()
        }
        _ => {
            let mut e = flate2::write::GzEncoder::new(Vec::new(), lvl);
            e.write_all(data).unwrap();
            e.finish().unwrap()
        }
    }
}

fn chunk_by(stream: &[u8], sizes: &[usize]) -> Vec<Vec<u8>> {
    // cut `stream` into chunks of the given sizes (cycled), each 1..=60000
    let mut out = Vec::new();
    let mut off = 0;
    let mut i = 0;
    while off < stream.len() {
        let n = sizes[i % sizes.len()].clamp(1, 60000).min(stream.len() - off);
        out.push(stream[off..off + n].to_vec());
        off += n;
        i += 1;
    }
    out
}

fn bw_line(cenc: &str, cl: Option<usize>, kind: &str, l: usize, orig: &[u8], chunks: &[Vec<u8>]) -> String {
    let cls = cl.map(|c| c.to_string()).unwrap_or("-".to_string());
    let cs: Vec<String> = chunks.iter().map(|c| hex(c)).collect();
    format!("ring bw {} {} {} {} {} {}", cenc, cls, kind, l, hex(orig), cs.join(" "))
}

fn payload(rng: &mut Rng, class: usize, big: bool) -> (Vec<u8>, &'static str) {
    match class {
        0 => (vec![], "empty"),
        1 => { let n = rng.range(1, 10) as usize; (rng.bytes(n), "tiny") },
        2 => { let n = if big { rng.range(2000, 20000) } else { rng.range(50, 1500) } as usize; (rng.bytes(n), "incompressible") }
        3 => (vec![0x41; if big { rng.range(20000, 60000) } else { rng.range(500, 5000) } as usize], "zeros"),
        _ => {
            let n = if big { rng.range(5000, 30000) } else { rng.range(100, 3000) } as usize;
            let words = [&b"flute "[..], b"alc ", b"lct ", b"fdt-instance ", b"\n", b"0123456789"];
            let mut v = Vec::new();
            while v.len() < n {
                v.extend_from_slice(*rng.pick(&words));
            }
            v.truncate(n);
            (v, "text")
        }
    }
}

/// set by the GENERATOR after the first `bw` op that timed out: the hung thread keeps spinning and every further hang
/// would cost another `WATCHDOG_S`, so the generator issues no further `bw` op in this run (no op line, hence no
/// observation line and nothing to mismatch; the bucket `bw:not-issued-after-hang` says how many).  The one hang is
/// reported as `C04:drain-hang` with its replay.  Replayed op files are executed as written.
static BW_HUNG: std::sync::atomic::AtomicBool = std::sync::atomic::AtomicBool::new(false);

fn bw_case(ctx: &mut Ctx, eng: &mut dyn Engine, line: String, bucket: &str) {
    if BW_HUNG.load(std::sync::atomic::Ordering::SeqCst) {
        ctx.count("bw:not-issued-after-hang");
        return;
    }
    let obs = ctx.step(eng, &line);
    if obs == "HANG" {
        BW_HUNG.store(true, std::sync::atomic::Ordering::SeqCst);
    }
    ctx.evaluations += 1;
    let detail = LAST_BW_DETAIL.lock().unwrap().clone();
    if obs == "done" && !detail.is_empty() {
        // `garbage`: the compared line is `done`; what the real BlockWriter answered is recorded here
        ctx.count(&format!("bw:{}:done ({})", bucket, detail));
    } else {
        ctx.count(&format!("bw:{}:{}", bucket, obs));
    }
    let key: String = line.split(' ').enumerate().filter(|(i, _)| *i != 6).map(|(_, s)| s.len().to_string() + &s[..s.len().min(12)]).collect::<Vec<_>>().join(" ");
    ctx.nontrivial(&format!("{} {}", key, fnv(line.as_bytes())));
}

/// a case boundary that only groups self-contained op lines (not counted as an evaluation of its own)
fn new_case(ctx: &mut Ctx, eng: &mut dyn Engine, id: &str) {
    ctx.case(id);
    ctx.evaluations -= 1;
    eng.reset();
}

pub fn run(ctx: &mut Ctx, eng: &mut dyn Engine) {
    let thorough = ctx.tier_thorough;
    let depth = if thorough { 5 } else { 4 };
    ctx.rule = format!(
        "RingBuffer: every sequence of {} calls from {{write of 0..5 bytes, read into 0..5 bytes, finish}} on rings of size 0..4 (exhaustive), \
         plus seeded long call sequences on sizes up to 65536 (many wrap-arounds, closed by finish + drain): ORACLE relational (accepted <= offered, \
         reads deliver the oldest pending bytes in order and never more than pending, no end-of-file with bytes pending, pending <= 2*size+64, no panic); \
         COMPARED with the Lean model: the exact per-call answers of today's ring (bytes accepted, bytes delivered, WouldBlock / Ok(0)) = the \
         observations of theorem ring_refines_fifo; no internal index. BlockWriter: real zlib/deflate/gzip streams (empty, tiny, incompressible, \
         highly compressible, text), valid / followed by garbage / truncated / pure garbage, in all chunkings (streams up to 12 bytes: every \
         composition; longer: fixed and random chunk sizes), Content-Length absent / exact / larger / smaller, through the real \
         BlockWriter + flate2 decoders with a {} s watchdog (one constant), status + output relation vs the Lean drain-loop model (Drain.lean) \
         with the ideal decompressor (pure garbage: termination only); non-trivial = distinct op lines other than trivially empty ones",
        depth, WATCHDOG_S
    );
    // 1. exhaustive short sequences ----------------------------------------------------------------------
    // (`seq` / `bw` / `dc` lines are self-contained; they are grouped into SMALL cases so that the replay of a failure -
    // the op lines of its case - holds the failing op and little else)
    let mut alphabet: Vec<String> = Vec::new();
    for k in 0..=5 {
        alphabet.push(format!("w{}", k));
    }
    for k in 0..=5 {
        alphabet.push(format!("r{}", k));
    }
    alphabet.push("f".to_string());
    let a = alphabet.len();
    for size in 0..=4usize {
        let total = a.pow(depth as u32);
        for code in 0..total {
            if code % 500 == 0 {
                new_case(ctx, eng, &format!("seq-exhaustive-depth-{}-size{}-{}", depth, size, code / 500));
            }
            let mut c = code;
            let mut toks: Vec<&str> = Vec::with_capacity(depth);
            for _ in 0..depth {
                toks.push(&alphabet[c % a]);
                c /= a;
            }
            let line = format!("ring seq {} {}", size, toks.join(","));
            let obs = ctx.step(eng, &line);
            ctx.evaluations += 1;
            if code % 1009 == 0 {
                ctx.count(&format!("seq:size{}:{}", size, if obs.contains("WB") { "has-wouldblock" } else { "no-wouldblock" }));
            }
            if obs.matches(',').count() + 1 == depth && size >= 2 {
                ctx.nontrivial(&line);
            }
            if code == 4321 && size == 3 {
                ctx.sample(format!("{} -> {}", line, obs));
            }
        }
    }
    ctx.exhaustive = true;

    // 2. long seeded sequences ----------------------------------------------------------------------------
    let mut rng = Rng::new(ctx.seed);
    let n_long = if thorough { 600 } else { 80 };
    let sizes = [1usize, 2, 3, 5, 8, 16, 64, 255, 256, 1000, 4096, 65535, 65536];
    for i in 0..n_long {
        let size = if i < sizes.len() { sizes[i] } else if rng.chance(1, 3) { rng.range(1, 70000) as usize } else { rng.range(1, 300) as usize };
        ctx.case(&format!("long-{}-size{}", i, size));
        eng.reset();
        ctx.step(eng, &format!("ring new {}", size));
        let n_ops = if size > 5000 { 120 } else { 400 };
        let mut written = 0usize;
        for j in 0..n_ops {
            let span = (2 * size).max(4) as u64;
            let len_pick = |rng: &mut Rng| -> usize {
                match rng.below(6) {
                    0 => 0,
                    1 => 1,
                    2 => rng.below(span) as usize,
                    3 => size.saturating_sub(1),
                    4 => size,
                    _ => rng.below((size as u64 / 3).max(2)) as usize,
                }
            };
            match rng.below(9) {
                0..=3 => {
                    let n = len_pick(&mut rng);
                    let obs = ctx.step(eng, &format!("ring w {} {}", n, rng.below(1 << 30)));
                    written += obs.strip_prefix("ok ").and_then(|x| x.parse::<usize>().ok()).unwrap_or(0);
                }
                4..=7 => {
                    let n = len_pick(&mut rng);
                    ctx.step(eng, &format!("ring r {}", n));
                }
                _ => {
                    ctx.step(eng, "ring r 1");
                }
            }
            if j == n_ops - 20 && rng.bool() {
                ctx.step(eng, "ring f");
            }
        }
        ctx.step(eng, "ring f");
        // conservation: once finished, everything accepted and not yet read comes out, in order, then end-of-file
        // (buffers of 1 and 3 bytes only on small rings: the list-based model is quadratic there)
        let small = if size <= 5000 { [1usize, 3] } else { [1000, 4096] };
        ctx.step(eng, &format!("ring dr {}", [small[0], small[1], size / 2 + 1, size.max(1)][i % 4]));
        for _ in 0..2 {
            ctx.step(eng, &format!("ring r {}", size.max(1)));
        }
        ctx.evaluations += 1;
        ctx.count(if written > 3 * size { "long:wrapped>=3x" } else { "long:wrapped<3x" });
        ctx.nontrivial(&format!("long {} {}", i, size));
        ctx.end_case(eng);
    }

    // 3. the BlockWriter with the real flate2 decoders ---------------------------------------------------------
    let cencs = ["zlib", "deflate", "gzip"];
    // 3a. empty and tiny payloads: every composition of the stream when it is short enough
    for cenc in cencs.iter() {
        for pl in [&b""[..], b"a", b"ab", b"hello"] {
            for level in [0u32, 6] {
                new_case(ctx, eng, &format!("blockwriter-tiny-{}-{}B-level{}", cenc, pl.len(), level));
                let stream = compress(cenc, pl, level);
                let n = stream.len();
                let all = n <= 12;
                let count = if all { 1usize << (n - 1) } else { if thorough { 600 } else { 120 } };
                for k in 0..count {
                    let mask: u64 = if all { k as u64 } else { rng.next() };
                    let mut chunks: Vec<Vec<u8>> = vec![vec![]];
                    for (i, b) in stream.iter().enumerate() {
                        if i > 0 && (mask >> ((i - 1) % 64)) & 1 == 1 {
                            chunks.push(vec![]);
                        }
                        chunks.last_mut().unwrap().push(*b);
                    }
                    let cl = match k % 4 {
                        0 => None,
                        1 => Some(pl.len()),
                        2 => Some(pl.len() + 3),
                        _ => if pl.len() > 1 { Some(pl.len() - 1) } else { None },
                    };
                    bw_case(ctx, eng, bw_line(cenc, cl, "valid", n, pl, &chunks), "tiny-valid");
                }
                // truncated at every position, two chunkings
                for cut in 1..n {
                    let s = &stream[..cut];
                    bw_case(ctx, eng, bw_line(cenc, None, "truncated", n, pl, &chunk_by(s, &[1])), "tiny-truncated");
                    bw_case(ctx, eng, bw_line(cenc, None, "truncated", n, pl, &chunk_by(s, &[60000])), "tiny-truncated");
                }
                // followed by garbage of several lengths
                for g in [1usize, 2, 5, 40, 300] {
                    let mut s = stream.clone();
                    s.extend(rng.bytes(g));
                    for sizes in [&[1usize][..], &[3], &[60000], &[n.max(1), 1], &[n.max(1), 7]] {
                        bw_case(ctx, eng, bw_line(cenc, None, "trailing", n, pl, &chunk_by(&s, sizes)), "tiny-trailing");
                    }
                }
            }
        }
    }
    // 3b. larger payloads
    let n_big = if thorough { 400 } else { 60 };
    for i in 0..n_big {
        new_case(ctx, eng, &format!("blockwriter-payload-{}", i));
        let cenc = cencs[i % 3];
        let big = i % 10 == 0;
        let (pl, class) = payload(&mut rng, 1 + (i / 3) % 4, big);
        let stream = compress(cenc, &pl, [1u32, 6, 9, 0][i % 4]);
        let n = stream.len();
        let first = if pl.len() > 3000 { rng.range(64, 2000) as usize } else { rng.range(1, 40) as usize };
        let sizes_list: Vec<Vec<usize>> = vec![
            vec![60000],
            vec![first, 1],
            vec![first, 7, 1, 1400],
            vec![first, rng.range(1, 50) as usize, rng.range(1, 3000) as usize],
            vec![1400],
            vec![n / 2 + 1],
            vec![n.saturating_sub(1).max(1), 1],
        ];
        for (j, sizes) in sizes_list.iter().enumerate() {
            if pl.len() > 3000 && sizes[0] < 16 {
                continue;
            }
            let cl = match (i + j) % 4 {
                0 => None,
                1 => Some(pl.len()),
                2 => Some(pl.len() + 100),
                _ => Some(pl.len() / 2),
            };
            bw_case(ctx, eng, bw_line(cenc, cl, "valid", n, &pl, &chunk_by(&stream, sizes)), &format!("{}-valid", class));
        }
        let cut = rng.range(1, n as u64 - 1) as usize;
        bw_case(ctx, eng, bw_line(cenc, None, "truncated", n, &pl, &chunk_by(&stream[..cut], &[first, 1400])), &format!("{}-truncated", class));
        let mut s = stream.clone();
        let glen = rng.range(1, 4000) as usize;
        s.extend(rng.bytes(glen));
        bw_case(ctx, eng, bw_line(cenc, Some(pl.len()), "trailing", n, &pl, &chunk_by(&s, &[first, 1400])), &format!("{}-trailing", class));
        if i == 1 {
            ctx.sample(format!("ring bw {} valid stream of {} bytes ({} payload of {} bytes) in chunks {:?}", cenc, n, class, pl.len(), &sizes_list[2]));
        }
    }
    // 3d. the contract of Drain.Contract against the real decompressors
    let n_dc = if thorough { 600 } else { 120 };
    for i in 0..n_dc {
        if i % 20 == 0 {
            new_case(ctx, eng, &format!("decompressor-contract-{}", i / 20));
        }
        let cenc = cencs[i % 3];
        let (pl, class) = payload(&mut rng, (i / 3) % 5, false);
        let mut stream = compress(cenc, &pl, [1u32, 6, 9, 0][i % 4]);
        match i % 7 {
            5 => {
                let cut = rng.range(1, stream.len() as u64) as usize;
                stream.truncate(cut);
            }
            6 => {
                let g = rng.range(1, 200) as usize;
                stream.extend(rng.bytes(g));
            }
            _ => {}
        }
        let first = rng.range(1, 64) as usize;
        let sizes: Vec<usize> = match i % 4 {
            0 => vec![1],
            1 => vec![first, 3],
            2 => vec![first, 1400],
            _ => vec![60000],
        };
        if stream.len() > 3000 && sizes[0] < 8 {
            continue;
        }
        let cs: Vec<String> = chunk_by(&stream, &sizes).iter().map(|c| hex(c)).collect();
        let line = format!("ring dc {} {}", cenc, cs.join(" "));
        let obs = ctx.step(eng, &line);
        ctx.evaluations += 1;
        ctx.count(&format!("dc:{}:{}", class, obs));
        ctx.nontrivial(&format!("dc {} {}", i, fnv(line.as_bytes())));
    }
    // 3c. pure garbage
    let n_garbage = if thorough { 1500 } else { 300 };
    for i in 0..n_garbage {
        if i % 50 == 0 {
            new_case(ctx, eng, &format!("blockwriter-garbage-{}", i / 50));
        }
        let cenc = cencs[i % 3];
        let len = [1usize, 2, 3, 5, 18, 100, 1000, 5000][i % 8];
        let mut g = rng.bytes(len);
        if i % 5 == 0 && len >= 2 {
            // a plausible header followed by garbage
            let h: &[u8] = match cenc {
                "zlib" => &[0x78, 0x9c],
                "gzip" => &[0x1f, 0x8b],
                _ => &[0x01, 0x05],
            };
            g[..2].copy_from_slice(h);
        }
        let sizes: &[usize] = [&[60000usize][..], &[1], &[2, 1], &[7]][i % 4];
        let cl = if i % 2 == 0 { None } else { Some(rng.below(50) as usize) };
        bw_case(ctx, eng, bw_line(cenc, cl, "garbage", len, &[], &chunk_by(&g, sizes)), "garbage");
    }
}

fn main() {
    harness_core::engine_main("ring", || Box::new(RingEngine { live: None }), run);
}
