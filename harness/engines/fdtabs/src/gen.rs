//! Seeded generator of op histories for the `fdtabs` engine.
use crate::*;
use harness_core::Rng;

const PIECES: [&str; 34] = [
    "a", "text/plain", "application/octet-stream", "\"", "'", "&", "<", ">", "&amp;", "&lt;", "&#10;", "&#x41;", "]]>", "<!--",
    "-->", "<?xml", "é", "日本語", "😀", "\u{FFFD}", "\u{2028}", "\u{7f}", "\u{85}", " ", "  ", "%", "%41", "/", "=", ";", "\\", "\u{a0}", "Ω", "x",
];

pub struct G {
    pub rng: Rng,
    pub ws: bool,
    /// also generate characters XML 1.0 cannot carry (off for `rxabs`, whose XML the harness renders itself)
    pub forbidden: bool,
}

impl G {
    /// hostile metadata string; `long_ok` allows the 4 kB class
    pub fn hostile(&mut self, long_ok: bool) -> String {
        let k = self.rng.below(20);
        let mut s = match k {
            0 => String::new(),
            1 => self.rng.pick(&PIECES[..]).to_string(),
            2 if long_ok => {
                let mut s = String::new();
                while s.len() < 4096 {
                    s.push_str(*self.rng.pick(&PIECES[..]));
                }
                s
            }
            3 => format!(" {} ", self.rng.pick(&PIECES[..])),
            4 => "\"'&<>".to_string(),
            _ => {
                let n = self.rng.range(2, 8);
                (0..n).map(|_| *self.rng.pick(&PIECES[..])).collect::<Vec<_>>().join("")
            }
        };
        // characters XML 1.0 cannot carry at all (the sender must refuse them, else the instance is not well-formed)
        if self.forbidden && self.rng.chance(1, 25) {
            let w = *self.rng.pick(&["\u{0}", "\u{1}", "\u{8}", "\u{b}", "\u{c}", "\u{e}", "\u{1f}", "\u{fffe}", "\u{ffff}"]);
            let at = self.rng.below(s.chars().count() as u64 + 1) as usize;
            let idx = s.char_indices().nth(at).map(|(i, _)| i).unwrap_or(s.len());
            s.insert_str(idx, w);
        }
        if self.ws && self.rng.chance(1, 12) {
            let w = *self.rng.pick(&["\t", "\n", "\r", "\r\n"]);
            let at = self.rng.below(s.chars().count() as u64 + 1) as usize;
            let idx = s.char_indices().nth(at).map(|(i, _)| i).unwrap_or(s.len());
            s.insert_str(idx, w);
        }
        s
    }

    pub fn url(&mut self, long_ok: bool) -> String {
        let h = self.hostile(long_ok);
        let cand = match self.rng.below(6) {
            0 => format!("file:///{}", h),
            1 => format!("urn:{}", h),
            2 => format!("http://example.org/p/{}?q={}#{}", h, self.hostile(false), self.hostile(false)),
            3 => format!("x-custom:{}", h),
            4 => "file:///hello".to_string(),
            _ => format!("https://例え.jp/{}", h),
        };
        match url::Url::parse(&cand) {
            Ok(u) => u.to_string(),
            Err(_) => "file:///fallback".to_string(),
        }
    }

    pub fn groups(&mut self, long_ok: bool) -> Option<Vec<String>> {
        match self.rng.below(4) {
            0 => None,
            1 => Some(vec![self.hostile(long_ok)]),
            _ => {
                let n = self.rng.range(1, 4);
                Some((0..n).map(|_| self.hostile(false)).collect())
            }
        }
    }

    /// an OTI that the sender can really transmit `len` bytes with (see the Raptor k in {2,3} remark in main.rs)
    pub fn oti(&mut self, for_default: bool) -> OtiSpec {
        let e_small: [u16; 5] = [16, 64, 256, 1024, 1400];
        let e_def: [u16; 3] = [256, 1024, 1400];
        let e = if for_default { *self.rng.pick(&e_def) } else { *self.rng.pick(&e_small) };
        let b = *self.rng.pick(&[8u32, 16, 64]);
        match self.rng.below(if for_default { 10 } else { 11 }) {
            0 | 1 | 2 => OtiSpec { enc: 0, inst: 0, b, e, p: 0, scheme: None },
            3 | 4 => OtiSpec { enc: 5, inst: 0, b, e, p: self.rng.range(1, 4) as u32, scheme: None },
            5 => OtiSpec { enc: 129, inst: self.rng.below(3) as u16, b, e, p: self.rng.range(1, 4) as u32, scheme: None },
            6 | 7 => OtiSpec { enc: 6, inst: 0, b, e, p: self.rng.range(0, 3) as u32, scheme: Some((1, self.rng.below(3) as u32, 1, 4)) },
            8 | 9 => {
                if for_default {
                    OtiSpec { enc: 1, inst: 0, b: 8, e: 60000, p: 1, scheme: Some((2, self.rng.below(2) as u32, 1, 4)) }
                } else {
                    OtiSpec { enc: 1, inst: 0, b, e, p: self.rng.range(0, 3) as u32, scheme: Some((2, self.rng.below(3) as u32, 1, 4)) }
                }
            }
            _ => OtiSpec { enc: 2, inst: 0, b, e, p: 2, scheme: Some((0, 8, 1, 0)) },
        }
    }
}

pub fn opt_tok(s: &Option<String>) -> String {
    opt_hx(s)
}

pub fn groups_tok(g: &Option<Vec<String>>) -> String {
    match g {
        None => "~".into(),
        Some(v) if v.is_empty() => "~".into(),
        Some(v) => v.iter().map(|x| hx(x)).collect::<Vec<_>>().join(","),
    }
}

/// an `add` op line for the given choices (creates the object once to learn the library-determined values)
pub fn add_line(loc: &str, ctype: &str, dlen: usize, dseed: u8, cenc: u8, md5: Option<Option<String>>, etag: &Option<String>,
                groups: &Option<Vec<String>>, cc: &str, oti: &Option<OtiSpec>, mtc: u32, car: &str, flags_in: u32) -> String {
    let mut tc = TransferConfig::default();
    tc.cenc = cenc_of(cenc);
    let computed = md5.is_none();
    let obj = ObjectDesc::create_from_buffer(content(dlen, dseed), ctype, &url::Url::parse(loc).unwrap(), computed, tc).unwrap();
    let md5v = match md5 {
        None => obj.md5.clone(),
        Some(m) => m,
    };
    let flags = (flags_in & !1) | if computed { 1 } else { 0 };
    format!(
        "fdtabs add {} {} {} {} {} {} {} {} {} {} {} {} {}x{} {}",
        hx(loc), hx(ctype), obj.content_length, obj.transfer_length, cenc, opt_hx(&md5v), opt_hx(etag), groups_tok(groups), cc,
        oti.as_ref().map(|o| o.show()).unwrap_or("~".into()), mtc, car, dlen, dseed, flags
    )
}

pub struct Case<'a> {
    pub ctx: &'a mut Ctx,
    pub e: &'a mut FdtEngine,
    pub now: u64,
    pub tois: Vec<u128>,
    pub reads: u64,
}

impl<'a> Case<'a> {
    pub fn op(&mut self, line: &str) -> String {
        if line.starts_with("fdtabs add ") {
            // the TOI flute reports becomes an input of the model (C15 owns its prediction): run first, then write the line
            let mut o = Oracle::default();
            let r = self.e.exec(line, &mut o);
            let (full, obs) = match r.strip_prefix("ok ") {
                Some(toi) => (format!("{} {}", line, toi), "ok".to_string()),
                None => (format!("{} ~", line), r.clone()),
            };
            self.ctx.op(&full, &obs);
            for (c, d) in o.fails {
                self.ctx.oracle_fail(&c, &d);
            }
            return r;
        }
        self.ctx.step(self.e, line)
    }

    /// explicit publish; the op line carries `X` when `FileDesc::new` refuses the FDT object (library-determined length)
    pub fn publish(&mut self) -> String {
        // run first: whether publish() is refused is observed, not predicted (hint `X`)
        let mut o = Oracle::default();
        let r = self.e.exec(&format!("fdtabs pub {}", self.now), &mut o);
        let line = if r == "ERR" { format!("fdtabs pub {} X", self.now) } else { format!("fdtabs pub {}", self.now) };
        self.ctx.op(&line, &r);
        for (c, d) in o.fails {
            self.ctx.oracle_fail(&c, &d);
        }
        self.ctx.count(if r == "ok" { "publish-ok" } else { "publish-refused" });
        r
    }

    /// one `read`; the op line is written after the call because it carries the scheduler's decisions as hints
    pub fn rd(&mut self) -> String {
        let mut o = Oracle::default();
        let (hints, obs) = self.e.do_read(self.now, &mut o);
        let line = if hints.is_empty() { format!("fdtabs rd {}", self.now) } else { format!("fdtabs rd {} {}", self.now, hints.join(" ")) };
        self.ctx.op(&line, &obs);
        for (c, d) in o.fails {
            self.ctx.oracle_fail(&c, &d);
        }
        self.reads += 1;
        let done: Vec<u32> = self.e.newly_complete.drain(..).collect();
        for id in done {
            self.op(&format!("fdtabs inst {}", id));
            for v in ["a", "b", "c"] {
                let r = self.op(&format!("fdtabs rx {} {} {}", id, self.now, v));
                if r.starts_with("R ") {
                    self.ctx.count(&format!("instances-read-by-both-readers-{}", v));
                }
            }
        }
        let idle = hints.len() >= 2 && hints[0] == "p" && hints[hints.len() - 1] == "p" && !obs.contains("pop") && hints.iter().all(|h| h == "p");
        if obs.starts_with("PANIC") {
            "panic".into()
        } else if idle {
            "idle".into()
        } else {
            "busy".into()
        }
    }

    pub fn finish(self) {
        self.ctx.end_case(self.e);
    }

    /// read at the current instant until the sender has nothing more to send (bounded)
    pub fn drain(&mut self, max: u64) -> bool {
        for _ in 0..max {
            match self.rd().as_str() {
                "idle" => return true,
                "panic" => return false,
                _ => {}
            }
        }
        true
    }
}

fn pick_time(rng: &mut Rng) -> u64 {
    // mostly the 2020s; sometimes around the NTP era wrap (2036-02-07T06:28:16Z = 2085978496 s): 7 days before .. 1 day after
    let secs = if rng.chance(1, 12) {
        match rng.below(4) {
            0 => 2_085_978_496 - rng.range(0, 5),
            1 => 2_085_978_496 + rng.range(0, 86_400),
            _ => 2_085_978_496 - rng.range(1, 7 * 86_400 + 10),
        }
    } else {
        rng.range(1_600_000_000, 1_900_000_000)
    };
    let frac = match rng.below(5) {
        0 => 0,
        1 => 999_999,
        2 => 900_000,
        _ => rng.below(1_000_000),
    };
    secs * 1_000_000 + frac
}

fn pick_dur(rng: &mut Rng) -> u64 {
    *rng.pick(&[0u64, 500_000, 1_000_000, 1_500_000, 2_000_000, 5_000_000, 10_000_000, 10_500_000, 11_000_000, 20_000_000, 30_000_000,
        31_000_000, 60_000_000, 3_600_000_000, 86_400_000_000, 7 * 86_400_000_000])
}

fn random_add(g: &mut G, long_ok: bool, default: &OtiSpec) -> String {
    let oti = if g.rng.chance(1, 2) { Some(g.oti(false)) } else { None };
    let eff = oti.clone().unwrap_or_else(|| default.clone());
    let e = eff.e as usize;
    // sizes: empty, < 1 symbol, exactly 1, several symbols (Raptor: never 2 or 3 symbols in a block)
    let dlen = match g.rng.below(6) {
        0 => 0,
        1 => 1,
        2 => e.min(4000),
        3 => e.min(4000).saturating_sub(1),
        _ => {
            if eff.enc == 1 {
                if e <= 256 { e * g.rng.range(4, (eff.b as u64).min(8)) as usize } else { g.rng.range(1, e as u64) as usize }
            } else if e <= 256 {
                e * g.rng.range(1, 5) as usize + g.rng.below(e as u64) as usize
            } else {
                g.rng.range(1, 3000) as usize
            }
        }
    };
    let cenc = if g.rng.chance(1, 3) { g.rng.range(1, 3) as u8 } else { 0 };
    // compressed length is library-determined: for Raptor keep the object uncompressed so the symbol count is known
    let cenc = if eff.enc == 1 { 0 } else { cenc };
    let md5 = match g.rng.below(4) {
        0 => None,
        1 => Some(None),
        _ => Some(Some(g.hostile(false))),
    };
    let etag = if g.rng.chance(1, 2) { Some(g.hostile(long_ok)) } else { None };
    let groups = g.groups(false);
    let cc = match g.rng.below(6) {
        0 => "~".to_string(),
        1 => "nc".into(),
        2 => "ms".into(),
        3 => format!("in{}", *g.rng.pick(&[0u64, 1, 999_999, 1_000_000, 10_000_000, 3_600_000_000, 86_400_000_000])),
        4 => format!("at{}", pick_time(&mut g.rng)),
        _ => "~".into(),
    };
    let mtc = *g.rng.pick(&[1u32, 1, 1, 2, 3, 0]);
    let car = match g.rng.below(5) {
        0 => format!("d{}", *g.rng.pick(&[0u64, 500_000, 2_000_000])),
        1 => format!("i{}", *g.rng.pick(&[0u64, 500_000, 2_000_000])),
        _ => "~".to_string(),
    };
    let flags = (g.rng.below(2) as u32) * 2 + (g.rng.below(2) as u32) * 4;
    let loc = g.url(long_ok);
    let ctype = g.hostile(long_ok);
    add_line(&loc, &ctype, dlen, g.rng.next() as u8, cenc, md5, &etag, &groups, &cc, &oti, mtc, &car, flags)
}

fn cfg_line(full: bool, sid: u32, dur: u64, oti: &OtiSpec, groups: &Option<Vec<String>>, fc: u8) -> String {
    cfg_line_toi(full, sid, dur, oti, groups, fc, 112, 1)
}

fn cfg_line_toi(full: bool, sid: u32, dur: u64, oti: &OtiSpec, groups: &Option<Vec<String>>, fc: u8, tw: u32, ti: u128) -> String {
    format!("fdtabs cfg {} {} {} {} {} {} {} {}", if full { "f" } else { "o" }, sid, dur, oti.show(), groups_tok(groups), fc, tw, ti)
}

/// TOI width class and first TOI: every `toi_max_length`, values at and just around each width boundary
/// (incl. above 2^64), just below the wrap of the chosen width, above the width (masked by the allocator), 0
fn pick_toi(rng: &mut Rng) -> (u32, u128) {
    let widths = [16u32, 32, 48, 64, 80, 112];
    let w = *rng.pick(&widths);
    let top: u128 = 1u128 << w;
    let init = match rng.below(8) {
        0 => 1,
        1 => 0,
        2 => top - 1 - rng.below(4) as u128,                       // wraps to 1 within a few adds
        3 => {
            // a boundary of a narrower (or the same) width class: 2^b - 1, 2^b, 2^b + 1
            let b = *rng.pick(&[8u32, 16, 32, 48, 63, 64, 80, 111]);
            let v = (1u128 << b.min(w - 1)) + rng.below(3) as u128 - 1;
            v
        }
        4 => rng.bits(w) ,
        5 => top + rng.bits(12),                                   // wider than the field: masked
        6 => (1u128 << 64.min(w - 1)) + rng.below(1000) as u128,
        _ => rng.bits(w) | (1u128 << (w - 1)),                     // top bit of the width set
    };
    (w, init)
}

fn random_case(ctx: &mut Ctx, e: &mut FdtEngine, g: &mut G, idx: u64) {
    let full = g.rng.chance(3, 5);
    let sid = match g.rng.below(6) {
        0 => 0,
        1 => (1 << 20) - 1,
        2 => (1 << 20) - 1 - g.rng.below(6) as u32,
        3 => 1,
        _ => g.rng.below(1 << 20) as u32,
    };
    let dur = pick_dur(&mut g.rng);
    let oti = loop {
        let o = g.oti(true);
        if o.enc != 2 {
            break o;
        }
    };
    let long_ok = oti.enc != 1;
    let groups = g.groups(long_ok);
    let fc = if g.rng.chance(1, 3) { g.rng.range(1, 3) as u8 } else { 0 };
    let id = format!("hist-{}-{}-{}", ctx.seed, idx, if full { "full" } else { "obt" });
    e.reset();
    ctx.case(&id);
    ctx.count(if full { "mode=FullFDT" } else { "mode=ObjectsBeingTransferred" });
    ctx.count(&format!("default-fec={}", oti.enc));
    ctx.count(&format!("fdt-cenc={}", fc));
    ctx.count(&format!("duration={}s", dur / 1_000_000));
    if sid + 40 >= (1 << 20) {
        ctx.count("start-id-near-wrap");
    }
    let mut c = Case { ctx, e, now: pick_time(&mut g.rng), tois: Vec::new(), reads: 0 };
    let (tw, ti) = if g.rng.chance(1, 3) { (112, 1) } else { pick_toi(&mut g.rng) };
    c.ctx.count(&format!("toi-width={}", tw));
    if ti >= (1u128 << 64) && tw > 64 {
        c.ctx.count("toi-above-2^64");
    }
    c.op(&cfg_line_toi(full, sid, dur, &oti, &groups, fc, tw, ti));
    let steps = g.rng.range(10, 45);
    let mut key = format!("{} {} {}", full, dur, oti.show());
    for _ in 0..steps {
        if c.e.dead || c.reads > 1500 {
            break;
        }
        match g.rng.below(20) {
            0..=4 => {
                let line = random_add(g, long_ok, &oti);
                let r = c.op(&line);
                key.push_str(&format!("|a{}", &line[..line.len().min(60)]));
                if let Some(t) = r.strip_prefix("ok ") {
                    c.tois.push(t.parse().unwrap());
                    c.ctx.count("add-ok");
                } else {
                    c.ctx.count(&format!("add-{}", r.split(' ').next().unwrap_or("")));
                }
            }
            5 => {
                let t = if c.tois.is_empty() || g.rng.chance(1, 6) { g.rng.range(1, 9) as u128 } else { *g.rng.pick(&c.tois) };
                c.op(&format!("fdtabs rm {}", t));
                key.push_str("|r");
            }
            6..=8 => {
                c.publish();
                key.push_str("|p");
            }
            9 => {
                if g.rng.chance(1, 5) {
                    c.op("fdtabs complete");
                    key.push_str("|c");
                }
            }
            10..=13 => {
                let n = g.rng.range(1, 30);
                for _ in 0..n {
                    if c.rd() != "busy" {
                        break;
                    }
                }
                key.push_str("|d");
            }
            14 => {
                c.drain(400);
                key.push_str("|D");
            }
            15 | 16 => {
                c.now += *g.rng.pick(&[1u64, 1000, 100_000, 250_000, 999_999, 1_000_000, 1_000_001, 3_000_000, 6_000_000]);
                if g.rng.chance(1, 8) {
                    c.now += dur.min(40_000_000);
                }
                key.push_str("|t");
            }
            17 => {
                c.op(&format!("fdtabs cur {}", c.now));
            }
            18 => {
                c.op("fdtabs fl");
            }
            _ => {
                // steady polling for a while (the supersede clause needs polls at least every second)
                let n = g.rng.range(3, 25);
                let stepus = *g.rng.pick(&[200_000u64, 500_000, 1_000_000]);
                for _ in 0..n {
                    c.now += stepus;
                    if !c.drain(60) {
                        break;
                    }
                }
                key.push_str("|s");
            }
        }
    }
    if !c.e.dead {
        c.drain(600);
        c.op(&format!("fdtabs cur {}", c.now));
        c.op("fdtabs fl");
    }
    if c.e.insts.iter().filter(|i| i.iline.is_some()).count() >= 1 && !c.tois.is_empty() {
        let k = key.clone();
        c.ctx.nontrivial(&k);
    }
    c.finish();
}

/// steady polling across the whole lifetime of an instance, for every duration class
fn supersede_case(ctx: &mut Ctx, e: &mut FdtEngine, g: &mut G, dur: u64, stepus: u64, frac: u64, idx: u64) {
    e.reset();
    ctx.case(&format!("supersede-{}us-step{}-frac{}-{}", dur, stepus, frac, idx));
    ctx.count("supersede-polling-cases");
    let oti = OtiSpec { enc: 0, inst: 0, b: 64, e: 1400, p: 0, scheme: None };
    let mut c = Case { ctx, e, now: g.rng.range(1_600_000_000, 1_900_000_000) * 1_000_000 + frac, tois: Vec::new(), reads: 0 };
    c.op(&cfg_line(true, g.rng.below(1 << 20) as u32, dur, &oti, &None, 0));
    let line = add_line("file:///a", "text/plain", 10, 1, 0, None, &None, &None, "~", &None, 1, "d1000000", 0);
    let r = c.op(&line);
    c.publish();
    if idx % 2 == 1 {
        // every other case: the only object is removed and the EMPTY instance published - an FDT listing no object
        // must be superseded before it expires like any other (class of seeded C10-11)
        if let Some(t) = r.strip_prefix("ok ") {
            c.drain(50);
            c.now += stepus;
            c.op(&format!("fdtabs rm {}", t.trim()));
            c.publish();
            c.ctx.count("supersede-empty-fdt-cases");
        }
    }
    let horizon = dur.min(70_000_000) * 2 + 3_000_000;
    let end = c.now + horizon;
    while c.now < end && !c.e.dead {
        c.drain(50);
        c.now += stepus;
    }
    c.ctx.nontrivial(&format!("sup {} {} {}", dur, stepus, frac));
    c.finish();
}

/// the FDT object does not fit the session default OTI: never (tiny B*E), or only once objects have been added
fn admission_case(ctx: &mut Ctx, e: &mut FdtEngine, g: &mut G, full: bool, grow: bool, idx: u64) {
    e.reset();
    ctx.case(&format!("admission-{}-{}-{}", if full { "full" } else { "obt" }, if grow { "grow" } else { "never" }, idx));
    ctx.count("fdt-admission-cases");
    let oti = if grow {
        OtiSpec { enc: 5, inst: 0, b: 2, e: 64, p: 1, scheme: None } // 64 * 2 * 255 = 32640 bytes
    } else {
        OtiSpec { enc: 5, inst: 0, b: 1, e: *g.rng.pick(&[1u16, 2, 4]), p: 1, scheme: None } // <= 1020 bytes
    };
    let mut c = Case { ctx, e, now: pick_time(&mut g.rng), tois: Vec::new(), reads: 0 };
    c.op(&cfg_line(full, g.rng.below(1 << 20) as u32, 31_000_000, &oti, &None, 0));
    let small = OtiSpec { enc: 0, inst: 0, b: 8, e: 64, p: 0, scheme: None };
    let n = if grow { 14 } else { 3 };
    for i in 0..n {
        let etag = if grow { Some("e".repeat(4000)) } else { None };
        let line = add_line(&format!("file:///adm{}", i), "a/b", 3, i as u8, 0, None, &etag, &None, "~", &Some(small.clone()), 1, "d1000000", 0);
        c.op(&line);
        if i % 3 == 0 {
            c.publish();
            c.drain(1500);
        }
    }
    c.publish();
    // poll steadily across the expiry of whatever was published last
    for _ in 0..36 {
        c.now += 1_000_000;
        if !c.drain(1500) {
            break;
        }
    }
    c.op(&format!("fdtabs cur {}", c.now));
    c.op("fdtabs fl");
    c.ctx.nontrivial(&format!("adm {} {} {}", full, grow, idx));
    c.finish();
}

/// a pause between `publish()` and the first `read()`, then regular polling until after the expiry: the age of an instance
/// counts from `publish()`, so the successor is due `duration - 5 s` after it however late the instance went on air
fn late_first_read_case(ctx: &mut Ctx, e: &mut FdtEngine, g: &mut G, dur: u64, delay: u64, idx: u64) {
    e.reset();
    ctx.case(&format!("late-first-read-{}us-delay{}us-{}", dur, delay, idx));
    ctx.count("late-first-read-cases");
    let oti = OtiSpec { enc: 0, inst: 0, b: 64, e: 1400, p: 0, scheme: None };
    let mut c = Case { ctx, e, now: g.rng.range(1_600_000_000, 1_900_000_000) * 1_000_000, tois: Vec::new(), reads: 0 };
    c.op(&cfg_line(true, g.rng.below(1 << 20) as u32, dur, &oti, &None, 0));
    c.op(&add_line("file:///late", "text/plain", 10, 1, 0, None, &None, &None, "~", &None, 1, "d1000000", 0));
    c.publish();
    let t0 = c.now;
    c.now += delay;
    // every second until shortly after the expiry; for long durations jump over the quiet middle part
    let end = t0 + dur + 3_000_000;
    while c.now < end && !c.e.dead {
        c.drain(50);
        if dur > 120_000_000 && c.now > t0 + delay + 10_000_000 && c.now + 30_000_000 < t0 + dur {
            c.now = t0 + dur - 20_000_000;
        } else {
            c.now += 1_000_000;
        }
    }
    c.ctx.nontrivial(&format!("late {} {}", dur, delay));
    c.finish();
}

/// instance ids across the 2^20 wrap
fn wrap_case(ctx: &mut Ctx, e: &mut FdtEngine, g: &mut G, n: u64) {
    e.reset();
    ctx.case(&format!("wrap-{}", n));
    let oti = OtiSpec { enc: 0, inst: 0, b: 64, e: 1400, p: 0, scheme: None };
    let sid = (1u32 << 20) - 1 - g.rng.below(n.min(20)) as u32;
    let mut c = Case { ctx, e, now: pick_time(&mut g.rng), tois: Vec::new(), reads: 0 };
    c.op(&cfg_line(true, sid, 3_600_000_000, &oti, &None, 0));
    for i in 0..n {
        if g.rng.chance(1, 3) {
            let line = add_line(&format!("file:///w{}", i), "a/b", 3, i as u8, 0, None, &None, &None, "~", &None, 1, "~", 0);
            c.op(&line);
        }
        let k = g.rng.range(1, 3);
        for _ in 0..k {
            c.publish();
            c.now += 1000;
        }
        c.drain(200);
    }
    c.ctx.count("wrap-cases");
    c.ctx.nontrivial(&format!("wrap {} {}", sid, n));
    c.finish();
}

/// receiver-side extraction on literally given (also hostile / incomplete) attribute sets
fn rxabs_cases(ctx: &mut Ctx, e: &mut FdtEngine, g: &mut G, n: u64) {
    e.reset();
    ctx.case("rxabs");
    g.forbidden = false;
    let optn = |g: &mut G, vals: &[u64]| -> String {
        if g.rng.chance(1, 5) { "~".into() } else { g.rng.pick(vals).to_string() }
    };
    let attrs = |g: &mut G| -> String {
        if g.rng.chance(1, 3) {
            return "~".into();
        }
        let enc = if g.rng.chance(1, 6) { "~".to_string() } else { g.rng.pick(&[0u64, 1, 2, 5, 6, 129, 3, 128, 255]).to_string() };
        let b = optn(g, &[0, 1, 8, 64, 255, 65535, 65536, 4294967295, 4294967296, 1 << 40]);
        let n = if g.rng.chance(1, 4) { "~".to_string() } else { g.rng.pick(&[0u64, 1, 7, 8, 9, 64, 70, 255, 65535, 65536, 4294967295, 4294967296, (1 << 40) + 5]).to_string() };
        let ssi = match g.rng.below(6) {
            0 => "~".to_string(),
            1 => "-".to_string(),
            2 => "0801".to_string(),
            3 => "02000104".to_string(),
            4 => "00030104".to_string(),
            _ => { let n = g.rng.range(1, 6) as usize; harness_core::hex(&g.rng.bytes(n)) }
        };
        format!("{},{},{},{},{},{}", enc, optn(g, &[0, 1, 65535, 65536, 70000]), b, optn(g, &[0, 1, 16, 1400, 65535, 65536, 100000]), n, ssi)
    };
    for i in 0..n {
        let nf = g.rng.range(0, 3);
        let now = pick_time(&mut g.rng);
        let exp = match g.rng.below(6) {
            0 => 0u64,
            1 => NTP_OFF - 1,
            2 => NTP_OFF,
            3 => 4294967295,
            4 => 4294967296 + g.rng.below(1 << 33),
            _ => now / 1_000_000 + NTP_OFF + g.rng.below(100000),
        };
        let mut line = format!("fdtabs rxabs {} {} {} {} {}", now, exp, groups_tok(&g.groups(false)), attrs(g), nf);
        for k in 0..nf {
            let cc = match g.rng.below(6) {
                0 => "nc".to_string(),
                1 => "ms".into(),
                2 => format!("ex{}", g.rng.pick(&[0u64, NTP_OFF - 1, NTP_OFF, 3_900_000_000, 4294967295])),
                _ => "~".into(),
            };
            let ce = *g.rng.pick(&["~", "~", "null", "zlib", "deflate", "gzip"]);
            line.push_str(&format!(
                " F {} {} {} {} {} {} {} {} {} {} {}",
                k * 3 + 1 + g.rng.below(3),
                hx(&g.hostile(false)),
                optn(g, &[0, 1, 100, 1 << 33]),
                optn(g, &[0, 1, 100, 1 << 33]),
                if g.rng.chance(1, 3) { "~".to_string() } else { hx(&g.hostile(false)) },
                ce,
                if g.rng.chance(1, 3) { "~".to_string() } else { hx(&g.hostile(false)) },
                attrs(g),
                cc,
                if g.rng.chance(1, 3) { "~".to_string() } else { hx(&g.hostile(false)) },
                groups_tok(&g.groups(false)),
            ));
        }
        let r = ctx.step(e, &line);
        ctx.evaluations += 1;
        ctx.count(&format!("rxabs-{}", r.split(' ').next().unwrap_or("")));
        if i < 2 {
            ctx.sample(format!("{} -> {}", &line[..line.len().min(160)], &r[..r.len().min(120)]));
        }
    }
    ctx.end_case(e);
}

/// fixed witnesses (replayed every run): D12 groups, D20 late successor, D10 receiver underflow
fn witness_cases(ctx: &mut Ctx, e: &mut FdtEngine) {
    let oti = OtiSpec { enc: 0, inst: 0, b: 64, e: 1400, p: 0, scheme: None };
    // D12: per-object groups
    e.reset();
    ctx.case("witness-D12-groups");
    {
        let mut c = Case { ctx, e, now: 1_700_000_000_000_000, tois: vec![], reads: 0 };
        c.op(&cfg_line(true, 1, 3_600_000_000, &oti, &Some(vec!["G".into()]), 0));
        c.op(&add_line("file:///object1", "plain/txt", 0, 0, 0, None, &None, &Some(vec!["Test1".into(), "a&b".into()]), "~", &None, 2, "~", 0));
        c.publish();
        c.drain(50);
        c.op(&format!("fdtabs cur {}", c.now));
    }
    ctx.end_case(e);
    // D20: duration 1 s, published at x.9 s, polled every 100 ms
    e.reset();
    ctx.case("witness-D20-short-duration");
    {
        let mut c = Case { ctx, e, now: 1_700_000_000_900_000, tois: vec![], reads: 0 };
        c.op(&cfg_line(true, 5, 1_000_000, &oti, &None, 0));
        c.op(&add_line("file:///a", "t", 1, 0, 0, None, &None, &None, "~", &None, 1, "d1000000", 0));
        c.publish();
        for _ in 0..14 {
            c.drain(20);
            c.now += 100_000;
        }
    }
    ctx.end_case(e);
    // being-transferred mode: object removed while its first transfer is running, next object started meanwhile
    e.reset();
    ctx.case("witness-obt-removed-in-transmission");
    {
        let mut c = Case { ctx, e, now: 1_700_000_000_000_000, tois: vec![], reads: 0 };
        c.op(&cfg_line(false, 1, 3_600_000_000, &oti, &None, 0));
        c.op(&add_line("file:///a", "t", 6000, 1, 0, None, &None, &None, "~", &None, 1, "~", 0));
        for _ in 0..4 {
            c.rd();
        }
        c.op("fdtabs rm 1");
        c.op(&add_line("file:///b", "t", 3, 1, 0, None, &None, &None, "~", &None, 1, "~", 0));
        c.drain(60);
        c.finish();
    }
    // D10: Max-Number-of-Encoding-Symbols < Maximum-Source-Block-Length (FDT level and File level)
    e.reset();
    ctx.case("witness-D10-max-n-lt-b");
    ctx.step(e, &format!("fdtabs rxabs 1700000000000000 3908988900 ~ 0,0,64,1400,10,~ 1 F 1 {} 5 5 ~ ~ ~ ~ ~ ~ ~", hx("file:///a")));
    ctx.step(e, &format!("fdtabs rxabs 1700000000000000 3908988900 ~ ~ 1 F 1 {} 5 5 ~ ~ ~ 5,0,64,1400,63,~ ~ ~ ~", hx("file:///a")));
    ctx.end_case(e);
}

pub fn run(ctx: &mut Ctx, e: &mut FdtEngine) {
    ctx.rule = "op histories (add/remove/publish/set_complete/read with advancing time, both publish modes, hostile metadata, \
                per-object OTI overrides of all schemes, cache-control variants, groups, start ids incl. the 2^20 wrap, durations 1 s .. 7 d, FDT cenc) \
                on a real Sender; every emitted instance read by expat and by flute's Receiver and compared with the Lean model; \
                non-trivial = history with >= 1 object and >= 1 fully emitted instance, distinct by configuration + op shape".to_string();
    let mut g = G { rng: Rng::new(ctx.seed), ws: true, forbidden: true };
    witness_cases(ctx, e);
    let thorough = ctx.tier_thorough;
    let n_hist = if thorough { 1500 } else { 160 };
    for i in 0..n_hist {
        random_case(ctx, e, &mut g, i);
    }
    let durs: &[u64] = if thorough {
        &[1_000_000, 2_000_000, 5_000_000, 10_000_000, 10_500_000, 11_000_000, 20_000_000, 30_000_000, 31_000_000, 40_000_000, 60_000_000]
    } else {
        &[0, 1_000_000, 10_000_000, 11_000_000, 30_000_000, 31_000_000, 60_000_000]
    };
    let mut k = 0;
    for d in durs {
        for step in [250_000u64, 1_000_000] {
            for frac in [0u64, 500_000, 999_999] {
                if !thorough && step == 250_000 && frac == 500_000 {
                    continue;
                }
                supersede_case(ctx, e, &mut g, *d, step, frac, k);
                k += 1;
            }
        }
    }
    let mut k = 0;
    for dur in [31_000_000u64, 60_000_000, 3_600_000_000] {
        for delay in [2_000_000u64, 6_000_000, 20_000_000] {
            late_first_read_case(ctx, e, &mut g, dur, delay, k);
            k += 1;
        }
    }
    for (i, (full, grow)) in [(true, false), (false, false), (true, true), (false, true)].iter().enumerate() {
        admission_case(ctx, e, &mut g, *full, *grow, i as u64);
    }
    wrap_case(ctx, e, &mut g, if thorough { 120 } else { 30 });
    wrap_case(ctx, e, &mut g, 8);
    rxabs_cases(ctx, e, &mut g, if thorough { 6000 } else { 800 });
    ctx.sample("fdtabs cfg f 1048575 2000000 0,0,64,1400,0,~ ~ 0 ; add ... ; pub t ; rd t p -> ok pop 1048575 ; rd ... ; inst 1048575 -> I <exp> ~ 1 ~ 0,0,64,1400,64,~ 1 F 1 ...".to_string());
}
