//! The property clauses of C10 evaluated on what the independent XML reader (expat) saw.
//! Expectations are built from what the engine announced through the public API only.
use crate::*;

pub struct PFile {
    pub toi: String,
    pub loc: String,
    pub clen: String,
    pub tlen: String,
    pub ctype: String,
    pub cenc: String,
    pub md5: String,
    pub oti: String,
    pub cc: String,
    pub etag: String,
    pub groups: String,
}

pub struct PInst {
    pub exp: String,
    pub groups: String,
    pub files: Vec<PFile>,
}

pub fn parse_iline(l: &str) -> Option<PInst> {
    let t: Vec<&str> = l.split(' ').collect();
    if t.len() < 4 || t[0] != "I" {
        return None;
    }
    let n: usize = t[3].parse().ok()?;
    if t.len() != 4 + 12 * n {
        return None;
    }
    let mut files = Vec::new();
    for i in 0..n {
        let f = &t[4 + 12 * i..4 + 12 * (i + 1)];
        if f[0] != "F" {
            return None;
        }
        files.push(PFile {
            toi: f[1].into(), loc: f[2].into(), clen: f[3].into(), tlen: f[4].into(), ctype: f[5].into(), cenc: f[6].into(),
            md5: f[7].into(), oti: f[8].into(), cc: f[9].into(), etag: f[10].into(), groups: f[11].into(),
        });
    }
    Some(PInst { exp: t[1].into(), groups: t[2].into(), files })
}

/// The compared line shows the values as ANNOUNCED where the independent reader's value differs from them exactly by the
/// XML 1.0 normalisation of literally written TAB / LF / CR (finding fdtabs-1, reported by `check_content` as an oracle
/// class): the correspondence stays about the sender's abstract instance, the finding stays an oracle matter.
pub fn raw_line(eng: &FdtEngine, line: &str) -> String {
    let cfg = match eng.cfg.as_ref() {
        Some(c) => c,
        None => return line.to_string(),
    };
    let mut t: Vec<String> = line.split(' ').map(|x| x.to_string()).collect();
    if t.len() < 4 || t[0] != "I" {
        return line.to_string();
    }
    let n: usize = match t[3].parse() {
        Ok(n) => n,
        Err(_) => return line.to_string(),
    };
    if t.len() != 4 + 12 * n {
        return line.to_string();
    }
    let cg: Vec<String> = cfg.groups.clone().unwrap_or_default();
    if t[2] != list_hx(&cg) && t[2] == list_hx(&cg.iter().map(|x| norm_text(x)).collect::<Vec<_>>()) {
        t[2] = list_hx(&cg);
    }
    for i in 0..n {
        let b = 4 + 12 * i;
        let ob = match t[b + 1].parse::<u128>().ok().and_then(|toi| eng.objs.get(&toi)) {
            Some(o) => o,
            None => continue,
        };
        let fix = |tok: &mut String, orig: String, normed: String| {
            if *tok != orig && *tok == normed {
                *tok = orig;
            }
        };
        fix(&mut t[b + 5], hx(&ob.ctype), hx(&norm_attr(&ob.ctype)));
        fix(&mut t[b + 7], opt_hx(&ob.md5), opt_hx(&ob.md5.as_ref().map(|x| norm_attr(x))));
        fix(&mut t[b + 10], opt_hx(&ob.etag), opt_hx(&ob.etag.as_ref().map(|x| norm_attr(x))));
        let g = ob.groups.clone().unwrap_or_default();
        fix(&mut t[b + 11], list_hx(&g), list_hx(&g.iter().map(|x| norm_text(x)).collect::<Vec<_>>()));
    }
    t.join(" ")
}

/// the OTI the object is really sent with (override or session default, Z = number of source blocks)
pub fn effective_oti(cfg: &SCfg, ob: &ObjRec) -> OtiSpec {
    let mut o = ob.oti.clone().unwrap_or_else(|| cfg.oti.clone());
    if o.enc == 6 || o.enc == 1 {
        let nb = (hk::block_partitioning(o.b as u64, ob.tlen, o.e as u64).3 as u32).max(1);
        if let Some((k, _, n, al)) = o.scheme {
            if (o.enc == 6 && k == 1) || (o.enc == 1 && k == 2) {
                o.scheme = Some((k, nb, n, al));
            }
        }
    }
    o
}

/// FEC-OTI attribute tokens `enc,inst,maxsbl,esl,maxn,ssi` an RFC 6726 reader must end up with
pub fn oti_tokens(o: &OtiSpec) -> Vec<String> {
    let ssi = match (o.enc, o.scheme) {
        (2, Some((0, m, g, _))) => format!("{:02x}{:02x}", m & 255, g & 255),
        (6, Some((1, z, n, al))) => format!("{:02x}{:02x}{:02x}{:02x}", z & 255, (n >> 8) & 255, n & 255, al & 255),
        (1, Some((2, z, n, al))) => format!("{:02x}{:02x}{:02x}{:02x}", (z >> 8) & 255, z & 255, n & 255, al & 255),
        _ => "~".to_string(),
    };
    vec![o.enc.to_string(), o.inst.to_string(), o.b.to_string(), o.e.to_string(), (o.b as u64 + o.p as u64).to_string(), ssi]
}

/// what a conformant XML 1.0 reader makes of a string written literally into an attribute value (§2.11 + §3.3.3)
pub fn norm_attr(s: &str) -> String {
    s.replace("\r\n", " ").replace(['\r', '\n', '\t'], " ")
}

/// ... and into element content (§2.11 end-of-line handling)
pub fn norm_text(s: &str) -> String {
    s.replace("\r\n", "\n").replace('\r', "\n")
}

pub const WS_CLASS: &str = "xml-unescaped-tab-lf-cr";

pub fn cc_token(cc: &Option<Cc>, t_pub: u64) -> String {
    match cc {
        None => "~".into(),
        Some(Cc::NoCache) => "nc".into(),
        Some(Cc::MaxStale) => "ms".into(),
        Some(Cc::In(d)) => format!("ex{}", ((t_pub + d) / 1_000_000 + NTP_OFF) & 0xFFFF_FFFF),
        Some(Cc::At(t)) => format!("ex{}", (t / 1_000_000 + NTP_OFF) & 0xFFFF_FFFF),
    }
}

/// compare one parsed instance with the announcement at publish time `t_pub`; `snaps` = candidate TOI sets
pub fn check_content(eng: &FdtEngine, what: &str, line: &str, t_pub: u64, snaps: &[Vec<u128>], o: &mut Oracle) {
    let cfg = eng.cfg.as_ref().unwrap();
    if line.starts_with("XMLERR") {
        o.fail("xml-not-wellformed", &format!("{}: independent parser rejects the instance: {}", what, line));
        return;
    }
    let p = match parse_iline(line) {
        Some(p) => p,
        None => {
            o.fail("xml-not-wellformed", &format!("{}: not an FDT-Instance as read by expat: {}", what, &line[..line.len().min(200)]));
            return;
        }
    };
    let want_exp = t_pub / 1_000_000 + NTP_OFF + cfg.dur_us / 1_000_000;
    if p.exp != want_exp.to_string() {
        o.fail(if want_exp >= (1u64 << 32) { "ntp-era1-expiry" } else { "expires" }, &format!("{}: Expires={} but publish time {} us + duration {} us gives {}", what, p.exp, t_pub, cfg.dur_us, want_exp));
    }
    let cg: Vec<String> = cfg.groups.clone().unwrap_or_default();
    let want_groups = list_hx(&cg);
    if p.groups != want_groups {
        let normed: Vec<String> = cg.iter().map(|x| norm_text(x)).collect();
        o.fail(if p.groups == list_hx(&normed) { WS_CLASS } else { "fdt-groups" }, &format!("{}: FDT-level groups {} != configured {}", what, p.groups, want_groups));
    }
    let got: Vec<String> = p.files.iter().map(|f| f.toi.clone()).collect();
    let ok_set = snaps.iter().any(|s| s.iter().map(|t| t.to_string()).collect::<Vec<_>>() == got);
    if !ok_set {
        o.fail(
            if cfg.full { "file-set-full" } else { "file-set-being-transferred" },
            &format!("{}: instance lists TOIs {:?}, announced at publish time {:?}", what, got, snaps),
        );
    }
    for f in &p.files {
        let toi: u128 = match f.toi.parse() {
            Ok(t) => t,
            Err(_) => continue,
        };
        let ob = match eng.objs.get(&toi) {
            Some(ob) => ob,
            None => continue,
        };
        // `alt` = the value a conformant reader derives from the literally written string; a difference that is exactly
        // that normalisation is the recorded finding fdtabs-1, any other difference is the attribute's own class
        let mut cmp = |class: &str, got: &str, want: String, alt: Option<String>| {
            if got != want {
                let c = if alt.as_deref() == Some(got) { WS_CLASS.to_string() } else { class.to_string() };
                o.fail(&c, &format!("{}: TOI {} {}: read {} announced {}", what, toi, class, &got[..got.len().min(120)], &want[..want.len().min(120)]));
            }
        };
        cmp("attr-location", &f.loc, hx(&ob.loc), Some(hx(&norm_attr(&ob.loc))));
        cmp("attr-content-length", &f.clen, ob.clen.to_string(), None);
        cmp("attr-transfer-length", &f.tlen, ob.tlen.to_string(), None);
        cmp("attr-type", &f.ctype, hx(&ob.ctype), Some(hx(&norm_attr(&ob.ctype))));
        cmp("attr-encoding", &f.cenc, if ob.cenc == 0 { "~".into() } else { cenc_of(ob.cenc).to_str().to_string() }, None);
        cmp("attr-md5", &f.md5, opt_hx(&ob.md5), Some(opt_hx(&ob.md5.as_ref().map(|x| norm_attr(x)))));
        cmp("attr-etag", &f.etag, opt_hx(&ob.etag), Some(opt_hx(&ob.etag.as_ref().map(|x| norm_attr(x)))));
        let g = ob.groups.clone().unwrap_or_default();
        cmp("attr-groups", &f.groups, list_hx(&g), Some(list_hx(&g.iter().map(|x| norm_text(x)).collect::<Vec<_>>())));
        cmp("attr-cache", &f.cc, cc_token(&ob.cc, t_pub), None);
        let eff = effective_oti(cfg, ob);
        let want = oti_tokens(&eff);
        let got: Vec<String> = if f.oti == "~" { vec!["~".to_string(); 6] } else { f.oti.split(',').map(|x| x.to_string()).collect() };
        if got != want {
            let class = if eff.enc == 1 && got[..5] == want[..5] { "attr-oti-raptor-z" } else { "attr-oti" };
            o.fail(class, &format!("{}: TOI {} FEC OTI resolved from the FDT {:?} != OTI the object is sent with {:?}", what, toi, got, want));
        }
    }
}

pub fn check_instance(eng: &FdtEngine, ix: usize, o: &mut Oracle) {
    let i = &eng.insts[ix];
    let line = i.iline.clone().unwrap_or_default();
    check_content(eng, &format!("instance id {} (publication #{})", i.id, ix), &line, i.exp.time, &i.exp.snaps, o);
    // being-transferred mode, literal reading of "the objects in transmission": an object the application removed while its
    // (unstoppable first) transfer is running is still being sent but is no longer listed (finding fdtabs-5)
    if !eng.cfg.as_ref().unwrap().full {
        if let Some(p) = parse_iline(&line) {
            for t in &i.exp.removed_tx {
                if !p.files.iter().any(|f| f.toi == t.to_string()) {
                    o.fail("obt-removed-object-in-transmission-not-listed", &format!(
                        "instance id {} published while TOI {} (removed by the application, transfer still running) is in transmission does not list it", i.id, t));
                }
            }
        }
    }
}

pub fn check_current(eng: &FdtEngine, now: u64, line: &str, o: &mut Oracle) {
    let snap = eng.shadow_listed();
    check_content(eng, "fdt_xml_data", line, now, &[snap], o);
}
