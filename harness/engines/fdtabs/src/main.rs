//! C10: abstract FDT instances.  Drives a real `flute::sender::Sender` through op histories, obtains every
//! emitted FDT instance (reassembled from the TOI-0 packets of `read()` and from `fdt_xml_data`), reads it with
//! an independent XML parser (python3 expat) and with flute's own receiver (`fdt_received` + the
//! `ObjectMetadata` given to `new_object_writer`), prints canonical observation lines for the Lean model and
//! evaluates the property clauses (oracle) on what the two readers saw.
mod gen;
mod oracle;
mod rx;

use flute::core::UDPEndpoint;
use flute::sender::*;
use flute::verif_hooks as hk;
use harness_core::{guarded, Ctx, Engine, Oracle};
use std::collections::{BTreeMap, HashSet, VecDeque};
use std::io::{BufRead, BufReader, Write};
use std::panic::AssertUnwindSafe;
use std::process::{Child, ChildStdin, ChildStdout, Command, Stdio};
use std::sync::{Arc, Mutex};
use std::time::{Duration, SystemTime};

pub const NTP_OFF: u64 = 2208988800;

pub fn st(us: u64) -> SystemTime {
    SystemTime::UNIX_EPOCH + Duration::from_micros(us)
}

pub fn hx(s: &str) -> String {
    harness_core::hex(s.as_bytes())
}

pub fn unhx(t: &str) -> Option<String> {
    if t == "-" {
        return Some(String::new());
    }
    if t.len() % 2 != 0 || t.is_empty() {
        return None;
    }
    let mut b = Vec::new();
    for i in (0..t.len()).step_by(2) {
        b.push(u8::from_str_radix(t.get(i..i + 2)?, 16).ok()?);
    }
    String::from_utf8(b).ok()
}

pub fn opt_hx(s: &Option<String>) -> String {
    match s {
        None => "~".into(),
        Some(s) => hx(s),
    }
}

pub fn list_hx(g: &[String]) -> String {
    if g.is_empty() {
        "~".into()
    } else {
        g.iter().map(|x| hx(x)).collect::<Vec<_>>().join(",")
    }
}

// ------------------------------------------------------------------------------------------------
// independent XML reader (python3 expat), one process per run

pub struct Expat {
    child: Child,
    sin: ChildStdin,
    sout: BufReader<ChildStdout>,
}

impl Expat {
    pub fn new() -> Expat {
        let mut child = Command::new("python3")
            .arg("-u")
            .arg("-c")
            .arg(include_str!("expat.py"))
            .stdin(Stdio::piped())
            .stdout(Stdio::piped())
            .spawn()
            .expect("python3 (expat) is required by the fdtabs engine");
        let sin = child.stdin.take().unwrap();
        let sout = BufReader::new(child.stdout.take().unwrap());
        Expat { child, sin, sout }
    }
    pub fn parse(&mut self, xml: &[u8]) -> String {
        let mut line = harness_core::hex(xml);
        line.push('\n');
        self.sin.write_all(line.as_bytes()).unwrap();
        self.sin.flush().unwrap();
        let mut out = String::new();
        self.sout.read_line(&mut out).unwrap();
        out.trim_end().to_string()
    }
}

impl Drop for Expat {
    fn drop(&mut self) {
        let _ = self.child.kill();
        let _ = self.child.wait();
    }
}

// ------------------------------------------------------------------------------------------------
// what the engine announced (source of the oracle's expectations)

#[derive(Clone, Debug, PartialEq)]
pub struct OtiSpec {
    pub enc: u8,
    pub inst: u16,
    pub b: u32,
    pub e: u16,
    pub p: u32,
    pub scheme: Option<(u8, u32, u32, u32)>,
}

impl OtiSpec {
    pub fn parse(t: &str) -> Option<OtiSpec> {
        let v: Vec<&str> = t.split(',').collect();
        if v.len() != 6 {
            return None;
        }
        let scheme = if v[5] == "~" {
            None
        } else {
            let s: Vec<&str> = v[5].split('.').collect();
            let k = match s[0] {
                "m" => 0u8,
                "q" => 1,
                "r" => 2,
                _ => return None,
            };
            if (k == 0 && s.len() != 3) || (k != 0 && s.len() != 4) {
                return None;
            }
            let a: u32 = s[1].parse().ok()?;
            let b: u32 = s[2].parse().ok()?;
            let c: u32 = if k == 0 { 0 } else { s[3].parse().ok()? };
            Some((k, a, b, c))
        };
        Some(OtiSpec {
            enc: v[0].parse().ok()?,
            inst: v[1].parse().ok()?,
            b: v[2].parse().ok()?,
            e: v[3].parse().ok()?,
            p: v[4].parse().ok()?,
            scheme,
        })
    }
    pub fn show(&self) -> String {
        let s = match self.scheme {
            None => "~".to_string(),
            Some((0, m, g, _)) => format!("m.{}.{}", m, g),
            Some((1, z, n, al)) => format!("q.{}.{}.{}", z, n, al),
            Some((_, z, n, al)) => format!("r.{}.{}.{}", z, n, al),
        };
        format!("{},{},{},{},{},{}", self.enc, self.inst, self.b, self.e, self.p, s)
    }
    pub fn to_oti(&self, inband: bool) -> Option<flute::core::Oti> {
        hk::make_oti(self.enc, self.inst, self.b, self.e, self.p, self.scheme, inband)
    }
    pub fn from_oti(o: &flute::core::Oti) -> OtiSpec {
        OtiSpec {
            enc: o.fec_encoding_id as u8,
            inst: o.fec_instance_id,
            b: o.maximum_source_block_length,
            e: o.encoding_symbol_length,
            p: o.max_number_of_parity_symbols,
            scheme: hk::oti_scheme_specific(o),
        }
    }
}

#[derive(Clone, Debug, PartialEq)]
pub enum Cc {
    NoCache,
    MaxStale,
    In(u64),
    At(u64),
}

#[derive(Clone, Debug)]
pub struct ObjRec {
    pub toi: u128,
    pub loc: String,
    pub ctype: String,
    pub clen: u64,
    pub tlen: u64,
    pub cenc: u8,
    pub md5: Option<String>,
    pub etag: Option<String>,
    pub groups: Option<Vec<String>>,
    pub cc: Option<Cc>,
    pub oti: Option<OtiSpec>,
    pub mtc: u32,
    pub carousel: bool,
    pub flags: u32,
    // shadow life cycle, from API-visible events only
    pub removed: bool,
    pub finished: bool,
    pub transferring: bool,
    pub done: u32,
}

/// a publication the oracle knows must have happened (or, for `auto`, infers from the wire)
#[derive(Clone, Debug)]
pub struct ExpPub {
    pub time: u64,
    /// candidate TOI sets announced at publish time (one, or two when the exact instant inside a `read`
    /// call is not observable)
    pub snaps: Vec<Vec<u128>>,
    pub auto: bool,
    /// objects removed by the application whose transfer was still running at publish time (Start seen, no Stop yet)
    pub removed_tx: Vec<u128>,
}

pub struct Inst {
    pub id: u32,
    pub exp: ExpPub,
    pub pkts: Vec<Vec<u8>>,
    pub xml: Option<Vec<u8>>,
    pub iline: Option<String>,
}

struct Asm {
    id: u32,
    tl: usize,
    e: usize,
    quad: (u64, u64, u64, u64),
    got: HashSet<(u32, u32)>,
    need: u64,
    buf: Vec<u8>,
    cenc: u8,
    done: bool,
}

struct Obs(Mutex<Vec<(bool, u128)>>);
impl Subscriber for Obs {
    fn on_sender_event(&self, evt: &Event, _now: SystemTime) {
        let mut g = self.0.lock().unwrap();
        match evt {
            Event::StartTransfer(f) => g.push((true, f.toi)),
            Event::StopTransfer(f) => g.push((false, f.toi)),
        }
    }
}

pub struct SCfg {
    pub full: bool,
    pub start_id: u32,
    pub dur_us: u64,
    pub oti: OtiSpec,
    pub groups: Option<Vec<String>>,
    pub fdt_cenc: u8,
}

pub struct FdtEngine {
    pub py: Expat,
    pub sender: Option<Sender>,
    pub cfg: Option<SCfg>,
    obs: Arc<Obs>,
    pub objs: BTreeMap<u128, ObjRec>,
    pub expq: VecDeque<ExpPub>,
    pub insts: Vec<Inst>,
    asm: Option<Asm>,
    last_tr_id: Option<u32>,
    pub newly_complete: Vec<u32>,
    pub complete_set: bool,
    pub dead: bool,
    // supersede oracle: (time of last poll, max poll gap since the latest publication, latest publication)
    pub last_poll: Option<u64>,
    pub sup_gap: u64,
    pub sup_ref: Option<u64>,
    /// idle polls later than publish time + duration - 5 s and before the expiry of the latest publication, and the number of
    /// instances that were still queued at the first of them (superseded_before_expiry_partial: more due polls than that)
    pub due_polls: u64,
    pub due_pending: u64,
    pub pubs_noted: u64,
    pub admitted_now: bool,
    pub sup_reported: bool,
    pub latest_pub: Option<(u64, u64)>, // (publish time µs, expiry µs) of the latest publication seen (explicit/auto)
    pub stats_pubs: u64,
}

pub fn cenc_of(c: u8) -> flute::core::lct::Cenc {
    use flute::core::lct::Cenc;
    match c {
        1 => Cenc::Zlib,
        2 => Cenc::Deflate,
        3 => Cenc::Gzip,
        _ => Cenc::Null,
    }
}

pub fn content(len: usize, seed: u8) -> Vec<u8> {
    (0..len).map(|i| ((i / 3) as u8).wrapping_mul(7).wrapping_add(seed)).collect()
}

fn inflate(data: &[u8], cenc: u8) -> Option<Vec<u8>> {
    use std::io::Read;
    let mut out = Vec::new();
    let r = match cenc {
        0 => {
            out.extend_from_slice(data);
            Ok(0)
        }
        1 => flate2::read::ZlibDecoder::new(data).read_to_end(&mut out),
        2 => flate2::read::DeflateDecoder::new(data).read_to_end(&mut out),
        _ => flate2::read::GzDecoder::new(data).read_to_end(&mut out),
    };
    r.ok().map(|_| out)
}

impl FdtEngine {
    pub fn new() -> FdtEngine {
        FdtEngine {
            py: Expat::new(),
            sender: None,
            cfg: None,
            obs: Arc::new(Obs(Mutex::new(Vec::new()))),
            objs: BTreeMap::new(),
            expq: VecDeque::new(),
            insts: Vec::new(),
            asm: None,
            last_tr_id: None,
            newly_complete: Vec::new(),
            complete_set: false,
            dead: false,
            last_poll: None,
            sup_gap: 0,
            sup_ref: None,
            due_polls: 0,
            due_pending: 0,
            pubs_noted: 0,
            admitted_now: true,
            sup_reported: false,
            latest_pub: None,
            stats_pubs: 0,
        }
    }

    fn clear(&mut self) {
        self.sender = None;
        self.cfg = None;
        self.obs.0.lock().unwrap().clear();
        self.objs.clear();
        self.expq.clear();
        self.insts.clear();
        self.asm = None;
        self.last_tr_id = None;
        self.newly_complete.clear();
        self.complete_set = false;
        self.dead = false;
        self.last_poll = None;
        self.sup_gap = 0;
        self.sup_ref = None;
        self.due_polls = 0;
        self.due_pending = 0;
        self.pubs_noted = 0;
        self.sup_reported = false;
        self.latest_pub = None;
    }

    /// the shadow "announced" set: added, not removed, not finished (and in transmission in OBT mode)
    pub fn shadow_listed(&self) -> Vec<u128> {
        let full = self.cfg.as_ref().map(|c| c.full).unwrap_or(true);
        self.objs
            .values()
            .filter(|o| !o.removed && !o.finished && (full || o.transferring))
            .map(|o| o.toi)
            .collect()
    }

    /// would `FileDesc::new` accept the FDT object built now?  (the rules of filedesc.rs on the `fdt_cenc`-compressed
    /// length of the serialised instance, under the session default OTI)
    pub fn admits_now(&self, now: u64) -> bool {
        let (cfg, s) = match (self.cfg.as_ref(), self.sender.as_ref()) {
            (Some(c), Some(s)) => (c, s),
            _ => return true,
        };
        let o = &cfg.oti;
        let oti = match o.to_oti(true) {
            Some(x) => x,
            None => return true,
        };
        let mtl = oti.max_transfer_length() as u64;
        let groups_plain = cfg.groups.as_ref().map(|g| g.iter().all(|x| x.chars().all(|c| c >= ' ' && c < '\u{fffe}'))).unwrap_or(true);
        if groups_plain && mtl >= (1 << 24) && o.b as u64 + o.p as u64 <= 255 && o.enc != 6 && o.enc != 1 && !((o.enc == 5 || o.enc == 129) && o.p == 0) {
            return true; // far above any instance this engine generates: skip the serialisation
        }
        let xml = match guarded(AssertUnwindSafe(|| s.fdt_xml_data(st(now)))) {
            Ok(Ok(x)) => x,
            Ok(Err(_)) => return false, // `to_xml` itself refuses (FDT-level group XML 1.0 cannot carry)
            Err(_) => return true,
        };
        let len = if cfg.fdt_cenc == 0 {
            xml.len() as u64
        } else {
            match flute::sender::compress::compress_buffer(&xml, cenc_of(cfg.fdt_cenc)) {
                Ok(c) => c.len() as u64,
                Err(_) => return true,
            }
        };
        if len > mtl {
            return false;
        }
        let (al, asm, nl, nb) = hk::block_partitioning(o.b as u64, len, o.e as u64);
        let raptor_small = (nl > 0 && (al == 2 || al == 3)) || (nb > nl && (asm == 2 || asm == 3));
        match o.enc {
            5 => o.p != 0 && o.b as u64 + o.p as u64 <= 255 && al + o.p as u64 <= 255,
            129 => o.p != 0 && o.b as u64 + o.p as u64 <= 65535 && al + o.p as u64 <= 255,
            6 => al <= 56403 && o.scheme.is_some() && nb <= 255,
            1 => al <= 8192 && !raptor_small && o.scheme.is_some() && nb <= 65535,
            _ => true,
        }
    }

    pub fn removed_in_tx(&self) -> Vec<u128> {
        self.objs.values().filter(|o| o.removed && o.transferring).map(|o| o.toi).collect()
    }

    fn note_publication(&mut self, time: u64) {
        let dur = self.cfg.as_ref().unwrap().dur_us;
        let expiry = (time / 1_000_000 + dur / 1_000_000) * 1_000_000;
        self.latest_pub = Some((time, expiry));
        self.sup_gap = 0;
        self.sup_ref = Some(time);
        self.due_polls = 0;
        self.due_pending = 0;
        self.pubs_noted += 1;
        self.sup_reported = false;
        self.stats_pubs += 1;
    }

    fn op_cfg(&mut self, t: &[&str]) -> String {
        // cfg <mode> <startId> <durUs> <oti> <groups> <fdtcenc> <toiBits> <toiInit>
        if t.len() != 8 {
            return "bad-op".into();
        }
        let full = match t[0] {
            "f" => true,
            "o" => false,
            _ => return "bad-op".into(),
        };
        let (sid, dur, oti, fc) = match (t[1].parse::<u32>(), t[2].parse::<u64>(), OtiSpec::parse(t[3]), t[5].parse::<u8>()) {
            (Ok(a), Ok(b), Some(c), Ok(d)) => (a, b, c, d),
            _ => return "bad-op".into(),
        };
        let groups = if t[4] == "~" {
            None
        } else {
            match t[4].split(',').map(unhx).collect::<Option<Vec<String>>>() {
                Some(g) => Some(g),
                None => return "bad-op".into(),
            }
        };
        let o = match oti.to_oti(true) {
            Some(o) => o,
            None => return "bad-op".into(),
        };
        let toi_len = match t[6] {
            "16" => TOIMaxLength::ToiMax16,
            "32" => TOIMaxLength::ToiMax32,
            "48" => TOIMaxLength::ToiMax48,
            "64" => TOIMaxLength::ToiMax64,
            "80" => TOIMaxLength::ToiMax80,
            "112" => TOIMaxLength::ToiMax112,
            _ => return "bad-op".into(),
        };
        let toi_init: u128 = match t[7].parse() {
            Ok(x) => x,
            Err(_) => return "bad-op".into(),
        };
        self.clear();
        let mut c = Config::default();
        c.fdt_duration = Duration::from_micros(dur);
        c.fdt_start_id = sid;
        c.fdt_cenc = cenc_of(fc);
        c.fdt_publish_mode = if full { FDTPublishMode::FullFDT } else { FDTPublishMode::ObjectsBeingTransferred };
        c.groups = groups.clone();
        c.toi_initial_value = Some(toi_init);
        c.toi_max_length = toi_len;
        c.fdt_carousel_mode = CarouselRepeatMode::DelayBetweenTransfers(Duration::from_millis(200));
        c.interleave_blocks = 1;
        let ep = UDPEndpoint::new(None, "224.0.0.1".to_owned(), 1234);
        let mut s = Sender::new(ep, 1, &o, &c);
        s.subscribe(self.obs.clone());
        self.sender = Some(s);
        self.cfg = Some(SCfg { full, start_id: sid, dur_us: dur, oti, groups, fdt_cenc: fc });
        "ok".into()
    }

    fn op_add(&mut self, t: &[&str]) -> String {
        // add <loc> <type> <clen> <tlen> <cenc> <md5> <etag> <groups> <cc> <oti> <mtc> <car> <data> <flags> [<toi|~>]
        // The trailing token is the TOI flute reported for this add (`~`: refused).  WHICH value an implicit allocation
        // returns is property C15's (engine `toi`): here it is an input of the model, written by the generator after the
        // call; on replay it is checked against what the implementation reports now.
        if t.len() == 15 {
            let r = self.op_add(&t[..14]);
            return match (r.strip_prefix("ok "), t[14]) {
                (Some(toi), h) if h == toi => "ok".into(),
                (Some(toi), _) => format!("TOI-MISMATCH {}", toi),
                (None, _) => r,
            };
        }
        if t.len() != 14 || self.sender.is_none() {
            return "bad-op".into();
        }
        let (loc, ctype) = match (unhx(t[0]), unhx(t[1])) {
            (Some(a), Some(b)) => (a, b),
            _ => return "bad-op".into(),
        };
        let (clen, tlen, cenc, mtc, flags) = match (t[2].parse::<u64>(), t[3].parse::<u64>(), t[4].parse::<u8>(), t[10].parse::<u32>(), t[13].parse::<u32>()) {
            (Ok(a), Ok(b), Ok(c), Ok(d), Ok(e)) if c <= 3 => (a, b, c, d, e),
            _ => return "bad-op".into(),
        };
        let opt = |x: &str| -> Option<Option<String>> {
            if x == "~" {
                Some(None)
            } else {
                unhx(x).map(Some)
            }
        };
        let (md5, etag) = match (opt(t[5]), opt(t[6])) {
            (Some(a), Some(b)) => (a, b),
            _ => return "bad-op".into(),
        };
        let groups = if t[7] == "~" {
            None
        } else {
            match t[7].split(',').map(unhx).collect::<Option<Vec<String>>>() {
                Some(g) => Some(g),
                None => return "bad-op".into(),
            }
        };
        let cc = match t[8] {
            "~" => None,
            "nc" => Some(Cc::NoCache),
            "ms" => Some(Cc::MaxStale),
            x if x.starts_with("in") => match x[2..].parse() {
                Ok(n) => Some(Cc::In(n)),
                _ => return "bad-op".into(),
            },
            x if x.starts_with("at") => match x[2..].parse() {
                Ok(n) => Some(Cc::At(n)),
                _ => return "bad-op".into(),
            },
            _ => return "bad-op".into(),
        };
        let oti = if t[9] == "~" {
            None
        } else {
            match OtiSpec::parse(t[9]) {
                Some(o) => Some(o),
                None => return "bad-op".into(),
            }
        };
        let car = match t[11] {
            "~" => None,
            x if x.starts_with('d') => match x[1..].parse::<u64>() {
                Ok(n) => Some(CarouselRepeatMode::DelayBetweenTransfers(Duration::from_micros(n))),
                _ => return "bad-op".into(),
            },
            x if x.starts_with('i') => match x[1..].parse::<u64>() {
                Ok(n) => Some(CarouselRepeatMode::IntervalBetweenStartTimes(Duration::from_micros(n))),
                _ => return "bad-op".into(),
            },
            _ => return "bad-op".into(),
        };
        let (dlen, dseed) = match t[12].split_once('x').map(|(a, b)| (a.parse::<usize>(), b.parse::<u8>())) {
            Some((Ok(a), Ok(b))) => (a, b),
            _ => return "bad-op".into(),
        };
        let url = match url::Url::parse(&loc) {
            Ok(u) => u,
            Err(_) => return "bad-op".into(),
        };
        let mut tc = TransferConfig::default();
        tc.max_transfer_count = mtc;
        tc.carousel_mode = car;
        tc.cache_control = cc.as_ref().map(|c| match c {
            Cc::NoCache => CacheControl::NoCache,
            Cc::MaxStale => CacheControl::MaxStale,
            Cc::In(d) => CacheControl::Expires(Duration::from_micros(*d)),
            Cc::At(t) => CacheControl::ExpiresAt(st(*t)),
        });
        tc.groups = groups.clone();
        tc.cenc = cenc_of(cenc);
        tc.inband_cenc = flags & 4 != 0;
        tc.e_tag = etag.clone();
        if let Some(o) = &oti {
            tc.oti = match o.to_oti(flags & 2 != 0) {
                Some(x) => Some(x),
                None => return "bad-op".into(),
            };
        }
        let computed = flags & 1 != 0;
        let mut obj = match ObjectDesc::create_from_buffer(content(dlen, dseed), &ctype, &url, computed, tc) {
            Ok(o) => o,
            Err(_) => return "ERR-CREATE".into(),
        };
        if !computed {
            obj.md5 = md5.clone();
        }
        // values the library determined must be the ones on the op line (they are inputs of the model)
        if obj.content_length != clen || obj.transfer_length != tlen || obj.md5 != md5 || obj.content_location.to_string() != loc {
            return format!("HINT-MISMATCH clen={} tlen={} md5={} loc={}", obj.content_length, obj.transfer_length, opt_hx(&obj.md5), hx(&obj.content_location.to_string()));
        }
        let s = self.sender.as_mut().unwrap();
        let r = guarded(AssertUnwindSafe(|| s.add_object(0, obj)));
        match r {
            Err(_) => "PANIC".into(),
            Ok(Err(_)) => "ERR".into(),
            Ok(Ok(toi)) => {
                self.objs.insert(
                    toi,
                    ObjRec {
                        toi, loc, ctype, clen, tlen, cenc, md5, etag, groups, cc, oti, mtc,
                        carousel: car.is_some(),
                        flags,
                        removed: false, finished: false, transferring: false, done: 0,
                    },
                );
                format!("ok {}", toi)
            }
        }
    }

    /// one `Sender::read(now)`: returns (hints, observation)
    pub fn do_read(&mut self, now: u64, o: &mut Oracle) -> (Vec<String>, String) {
        if self.sender.is_none() || self.dead {
            return (vec![], "bad-op".into());
        }
        self.obs.0.lock().unwrap().clear();
        let snap_before = self.shadow_listed();
        let s = self.sender.as_mut().unwrap();
        let r = guarded(AssertUnwindSafe(|| s.read(st(now))));
        let evs: Vec<(bool, u128)> = self.obs.0.lock().unwrap().drain(..).collect();
        let pkt = match r {
            Err(loc) => {
                self.dead = true;
                let _ = loc;
                return (vec!["x".into()], "PANIC".to_string());
            }
            Ok(p) => p,
        };
        let ev_h: Vec<String> = evs.iter().map(|(st, t)| format!("{}{}", if *st { "s" } else { "e" }, t)).collect();
        // classify
        let mut fdt_first: Option<u32> = None;
        let mut fdt_version: u32 = 0;
        let mut fdt_npk: u64 = 0;
        let mut fdt_pkt = false;
        if let Some(p) = &pkt {
            if let Ok(a) = flute::core::alc::parse_alc_pkt(p) {
                if a.lct.toi == 0 {
                    fdt_pkt = true;
                    if let (Some(oti), Some(fi)) = (a.oti.as_ref(), a.fdt_info.as_ref()) {
                        if let Ok(pid) = flute::core::alc::parse_payload_id(&a, oti) {
                            if pid.sbn == 0 && pid.esi == 0 {
                                fdt_first = Some(fi.fdt_instance_id);
                                fdt_version = fi.version;
                                // packets of this FDT transfer: source symbols + the parity symbols of every block
                                let l = a.transfer_length.unwrap_or(0);
                                let c = &self.cfg.as_ref().unwrap().oti;
                                let q = hk::block_partitioning(c.b as u64, l, c.e as u64);
                                fdt_npk = (l + c.e as u64 - 1) / (c.e as u64).max(1) + c.p as u64 * q.3;
                            }
                        }
                    }
                }
            }
        }
        let mut hints: Vec<String> = Vec::new();
        let polled;
        if fdt_pkt && fdt_first.is_none() {
            hints.extend(ev_h.clone());
            polled = false;
        } else if fdt_pkt {
            hints.push("p".into());
            if !ev_h.is_empty() {
                hints.extend(ev_h.clone());
                hints.push("p".into());
            }
            polled = true;
        } else if pkt.is_some() {
            hints.push("p".into());
            hints.extend(ev_h.clone());
            polled = true;
        } else {
            hints.push("p".into());
            hints.extend(ev_h.clone());
            hints.push("p".into());
            polled = true;
        }
        // shadow bookkeeping (API-visible events only)
        let full = self.cfg.as_ref().unwrap().full;
        for (start, t) in &evs {
            if let Some(ob) = self.objs.get_mut(t) {
                if *start {
                    ob.transferring = true;
                } else {
                    ob.transferring = false;
                    ob.done += 1;
                    if !ob.carousel && ob.done >= ob.mtc {
                        ob.finished = true;
                    }
                }
            }
            if *start && !full && self.admits_now(now) {
                let snap = self.shadow_listed();
                self.expq.push_back(ExpPub { time: now, snaps: vec![snap], auto: false, removed_tx: self.removed_in_tx() });
                self.note_publication(now);
            }
        }
        let snap_after = self.shadow_listed();
        // only calls in which a publication can be attempted need the (costly) admission outcome
        if fdt_first.is_some() {
            hints.insert(0, format!("n{}", fdt_npk));
        }
        let admitted = if polled || !evs.is_empty() { self.admits_now(now) } else { true };
        if !admitted {
            hints.insert(0, "X".into());
        }
        self.admitted_now = admitted;
        // supersede oracle (evaluated at polls, before a republication of this very call is accounted)
        if polled {
            // gap to the previous poll, or to the latest publication when no poll came after it
            if let Some(r) = self.sup_ref {
                self.sup_gap = self.sup_gap.max(now.saturating_sub(r));
            }
            self.check_supersede(now, o);
            self.sup_ref = Some(now);
            self.last_poll = Some(now);
        }
        let mut obs = "ok".to_string();
        if let Some(id) = fdt_first {
            if self.last_tr_id != Some(id) {
                // a new instance left the queue
                let exp = match self.expq.pop_front() {
                    Some(e) => e,
                    None => {
                        // not announced by publish()/StartTransfer: the sender republished in this call
                        self.note_publication_auto(now, o);
                        ExpPub { time: now, snaps: vec![snap_before.clone(), snap_after.clone()], auto: true, removed_tx: Vec::new() }
                    }
                };
                let k = self.insts.len() as u64;
                let want = ((self.cfg.as_ref().unwrap().start_id as u64 + k) % (1 << 20)) as u32;
                if id != want {
                    o.fail("id-sequence", &format!("publication #{} carries instance id {} instead of (start {} + {}) mod 2^20 = {}", k, id, self.cfg.as_ref().unwrap().start_id, k, want));
                }
                // one id never denotes two different contents within the wrap window
                let lo = self.insts.len().saturating_sub((1 << 20) - 1);
                if self.insts[lo..].iter().any(|i| i.id == id) {
                    o.fail("id-reused", &format!("instance id {} reused within the last 2^20-1 publications", id));
                }
                self.insts.push(Inst { id, exp, pkts: Vec::new(), xml: None, iline: None });
                let _ = fdt_version;
                obs = format!("ok pop {}", id);
            }
            self.last_tr_id = Some(id);
        }
        if fdt_pkt {
            let p = pkt.as_ref().unwrap().clone();
            self.feed_fdt(&p, fdt_first, o);
        }
        (hints, obs)
    }

    fn note_publication_auto(&mut self, now: u64, _o: &mut Oracle) {
        self.note_publication(now);
    }

    /// "an instance is superseded before it expires as long as the sender is polled": at a poll at or after the
    /// expiry of the latest publication, with every poll gap since that publication <= 1 s, no successor exists
    fn check_supersede(&mut self, now: u64, o: &mut Oracle) {
        let (pt, expiry) = match self.latest_pub {
            Some(x) => x,
            None => return,
        };
        let dur = self.cfg.as_ref().unwrap().dur_us;
        // the polls the theorem counts: later than publish time + duration - 5 s (duration > 30 s), before the expiry
        if dur > 30_000_000 && now > pt + dur - 5_000_000 && now < expiry {
            if self.due_polls == 0 {
                self.due_pending = self.pubs_noted.saturating_sub(self.insts.len() as u64);
            }
            self.due_polls += 1;
        }
        if self.sup_reported || now < expiry {
            return;
        }
        // either polled at least every second since the publication (all durations) or - duration > 30 s - more due
        // polls than instances that were waiting (Flute.Props.C10.superseded_before_expiry_partial)
        let steady = self.sup_gap <= 1_000_000;
        let enough_due = dur > 30_000_000 && self.due_polls > self.due_pending;
        if !steady && !enough_due {
            return;
        }
        self.sup_reported = true;
        let class = if !self.admitted_now {
            "fdt-refused-no-successor"
        } else if dur <= 30_000_000 {
            "supersede-after-expiry-short-duration"
        } else {
            "supersede-after-expiry"
        };
        o.fail(class, &format!(
            "instance published at {} us (fdt_duration {} us, Expires = {} s) has no successor at the poll at {} us although polled {} (max gap {} us; {} polls later than publish + duration - 5 s before the expiry, {} instance(s) were queued)",
            pt, dur, expiry / 1_000_000 + NTP_OFF, now, if steady { "at least every second" } else { "in the due window" }, self.sup_gap.max(1), self.due_polls, self.due_pending));
    }

    fn feed_fdt(&mut self, p: &[u8], first: Option<u32>, o: &mut Oracle) {
        let a = match flute::core::alc::parse_alc_pkt(p) {
            Ok(a) => a,
            Err(_) => return,
        };
        let (oti, fi) = match (a.oti.as_ref(), a.fdt_info.as_ref()) {
            (Some(x), Some(y)) => (x, y),
            _ => return,
        };
        let pid = match flute::core::alc::parse_payload_id(&a, oti) {
            Ok(x) => x,
            Err(_) => return,
        };
        if first.is_some() {
            let tl = a.transfer_length.unwrap_or(0) as usize;
            let e = oti.encoding_symbol_length as usize;
            let quad = hk::block_partitioning(oti.maximum_source_block_length as u64, tl as u64, e as u64);
            let need = (tl as u64 + e as u64 - 1) / e.max(1) as u64;
            self.asm = Some(Asm {
                id: fi.fdt_instance_id, tl, e, quad, got: HashSet::new(), need, buf: vec![0u8; tl],
                cenc: a.cenc.map(|c| c as u8).unwrap_or(0), done: false,
            });
        }
        let inst_idx = self.insts.iter().rposition(|i| i.id == fi.fdt_instance_id);
        let asm = match self.asm.as_mut() {
            Some(x) if x.id == fi.fdt_instance_id && !x.done => x,
            _ => return,
        };
        if let Some(ix) = inst_idx {
            if self.insts[ix].xml.is_none() {
                self.insts[ix].pkts.push(p.to_vec());
            }
        }
        let (al, asm_, nl, nb) = asm.quad;
        if (pid.sbn as u64) < nb {
            let k = if (pid.sbn as u64) < nl { al } else { asm_ };
            if (pid.esi as u64) < k {
                let first_sym = if (pid.sbn as u64) <= nl { pid.sbn as u64 * al } else { nl * al + (pid.sbn as u64 - nl) * asm_ };
                let off = ((first_sym + pid.esi as u64) as usize) * asm.e;
                let payload = &a.data[a.data_payload_offset..];
                if off < asm.tl && asm.got.insert((pid.sbn, pid.esi)) {
                    let n = payload.len().min(asm.tl - off);
                    asm.buf[off..off + n].copy_from_slice(&payload[..n]);
                }
            }
        }
        if asm.got.len() as u64 >= asm.need {
            asm.done = true;
            let raw = std::mem::take(&mut asm.buf);
            let cenc = asm.cenc;
            if let Some(ix) = inst_idx {
                if self.insts[ix].xml.is_none() {
                    match inflate(&raw, cenc) {
                        Some(xml) => {
                            let line = self.py.parse(&xml);
                            self.insts[ix].xml = Some(xml);
                            self.insts[ix].iline = Some(line.clone());
                            let id = self.insts[ix].id;
                            self.newly_complete.push(id);
                            oracle::check_instance(self, ix, o);
                            // compared line: values as announced where only the recorded normalisation differs
                            self.insts[ix].iline = Some(oracle::raw_line(self, &line));
                        }
                        None => o.fail("fdt-cenc", &format!("FDT instance {} payload does not inflate (cenc {})", fi.fdt_instance_id, cenc)),
                    }
                }
            }
        }
    }

    fn op_rd(&mut self, t: &[&str], o: &mut Oracle) -> String {
        let now: u64 = match t.first().and_then(|x| x.parse().ok()) {
            Some(n) => n,
            None => return "bad-op".into(),
        };
        let (hints, obs) = self.do_read(now, o);
        let given: Vec<String> = t[1..].iter().map(|x| x.to_string()).collect();
        if hints != given && !obs.starts_with("PANIC") {
            return format!("HINT-MISMATCH {}", hints.join(" "));
        }
        obs
    }
}

impl Engine for FdtEngine {
    fn reset(&mut self) {
        self.clear();
    }

    fn exec(&mut self, op: &str, o: &mut Oracle) -> String {
        let t: Vec<&str> = op.split(' ').collect();
        if t.len() < 2 || t[0] != "fdtabs" {
            return "bad-op".into();
        }
        let a = &t[2..];
        match t[1] {
            "cfg" => self.op_cfg(a),
            "add" => self.op_add(a),
            "rxabs" => rx::op_rxabs(self, a, o),
            _ if self.sender.is_none() || self.dead => "bad-op".into(),
            "rm" => match a.first().and_then(|x| x.parse::<u128>().ok()) {
                Some(toi) if a.len() == 1 => {
                    let r = self.sender.as_mut().unwrap().remove_object(toi);
                    if r {
                        if let Some(ob) = self.objs.get_mut(&toi) {
                            ob.removed = true;
                        }
                    }
                    r.to_string()
                }
                _ => "bad-op".into(),
            },
            "pub" => match a.first().and_then(|x| x.parse::<u64>().ok()) {
                // `X`: this publish() was refused (the FDT object does not pass FileDesc::new under the session default OTI,
                // or to_xml refuses a group) - an observation of the implementation fed to the model as input
                Some(now) if a.len() == 1 || (a.len() == 2 && a[1] == "X") => {
                    let expect_refused = a.len() == 2;
                    let s = self.sender.as_mut().unwrap();
                    match guarded(AssertUnwindSafe(|| s.publish(st(now)))) {
                        Ok(Ok(())) => {
                            let snap = self.shadow_listed();
                            self.expq.push_back(ExpPub { time: now, snaps: vec![snap], auto: false, removed_tx: self.removed_in_tx() });
                            self.note_publication(now);
                            if expect_refused { "HINT-MISMATCH ok".into() } else { "ok".into() }
                        }
                        Ok(Err(_)) => "ERR".into(),
                        Err(_) => "PANIC".to_string(),
                    }
                }
                _ => "bad-op".into(),
            },
            "complete" if a.is_empty() => {
                self.sender.as_mut().unwrap().set_complete();
                self.complete_set = true;
                "ok".into()
            }
            "rd" => self.op_rd(a, o),
            "inst" => match a.first().and_then(|x| x.parse::<u32>().ok()) {
                Some(id) if a.len() == 1 => match self.insts.iter().rev().find(|i| i.id == id) {
                    Some(i) => i.iline.clone().unwrap_or_else(|| "incomplete".into()),
                    None => "none".into(),
                },
                _ => "bad-op".into(),
            },
            "rx" => match (a.first().and_then(|x| x.parse::<u32>().ok()), a.get(1).and_then(|x| x.parse::<u64>().ok())) {
                (Some(id), Some(now)) if a.len() == 3 && ["a", "b", "c"].contains(&a[2]) => rx::op_rx(self, id, now, a[2], o),
                _ => "bad-op".into(),
            },
            "cur" => match a.first().and_then(|x| x.parse::<u64>().ok()) {
                Some(now) if a.len() == 1 => {
                    let s = self.sender.as_ref().unwrap();
                    match guarded(AssertUnwindSafe(|| s.fdt_xml_data(st(now)))) {
                        Ok(Ok(xml)) => {
                            let line = self.py.parse(&xml);
                            oracle::check_current(self, now, &line, o);
                            oracle::raw_line(self, &line)
                        }
                        Ok(Err(_)) => "ERR".into(),
                        Err(_) => "PANIC".to_string(),
                    }
                }
                _ => "bad-op".into(),
            },
            "fl" if a.is_empty() => {
                let s = self.sender.as_ref().unwrap();
                let mut k: Vec<u128> = s.get_objects_in_fdt().keys().cloned().collect();
                k.sort();
                let want: Vec<u128> = self.objs.values().filter(|o| !o.removed && !o.finished).map(|o| o.toi).collect();
                if k != want {
                    o.fail("files-set", &format!("objects in FDT {:?}, announced (added, not removed, not finished) {:?}", k, want));
                }
                if k.is_empty() {
                    "fl ~".into()
                } else {
                    format!("fl {}", k.iter().map(|x| x.to_string()).collect::<Vec<_>>().join(","))
                }
            }
            _ => "bad-op".into(),
        }
    }
}

fn run(ctx: &mut Ctx, _eng: &mut dyn Engine) {
    let mut e = FdtEngine::new();
    gen::run(ctx, &mut e);
}

fn main() {
    harness_core::engine_main("fdtabs", || Box::new(FdtEngine::new()), run);
}
