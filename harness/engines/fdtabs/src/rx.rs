//! flute's own reading of an FDT instance: a real `Receiver` with a recording `ObjectWriterBuilder`
//! (`fdt_received` + the `ObjectMetadata` handed to `new_object_writer` for every listed TOI).
use crate::*;
use flute::receiver::writer::{ObjectCacheControl, ObjectMetadata, ObjectWriterBuilder, ObjectWriterBuilderResult};
use flute::receiver::{Config as RConfig, Receiver};
use std::cell::RefCell;
use std::rc::Rc;

#[derive(Default)]
pub struct Rec {
    pub fdt: RefCell<Vec<(String, SystemTime)>>,
    pub metas: RefCell<Vec<(u128, ObjectMetadata)>>,
}

impl ObjectWriterBuilder for Rec {
    fn new_object_writer(&self, _e: &UDPEndpoint, _tsi: &u64, toi: &u128, meta: &ObjectMetadata, _now: SystemTime) -> ObjectWriterBuilderResult {
        self.metas.borrow_mut().push((*toi, meta.clone()));
        ObjectWriterBuilderResult::Abort
    }
    fn update_cache_control(&self, _e: &UDPEndpoint, _tsi: &u64, _toi: &u128, _meta: &ObjectMetadata, _now: SystemTime) {}
    fn fdt_received(&self, _e: &UDPEndpoint, _tsi: &u64, fdt_xml: &str, expires: SystemTime, _meta: &ObjectMetadata, _d: Duration, _now: SystemTime, _ext: Option<SystemTime>) {
        self.fdt.borrow_mut().push((fdt_xml.to_string(), expires));
    }
}

fn us(t: SystemTime) -> u64 {
    t.duration_since(SystemTime::UNIX_EPOCH).map(|d| d.as_micros() as u64).unwrap_or(0)
}

fn show_cache(c: &ObjectCacheControl) -> String {
    match c {
        ObjectCacheControl::NoCache => "nc".into(),
        ObjectCacheControl::MaxStale => "ms".into(),
        ObjectCacheControl::ExpiresAt(t) => format!("at{}", us(*t)),
        ObjectCacheControl::ExpiresAtHint(t) => format!("hint{}", us(*t)),
    }
}

pub fn show_meta(toi: u128, m: &ObjectMetadata, fti_view: bool) -> String {
    // `fti_view`: the object packet reached the receiver before the FDT, so the OTI may stem from EXT_FTI, which does not
    // carry every field (parity, B of the rateless schemes): only encoding id and symbol length are compared then
    let oti = match &m.oti {
        Some(o) if fti_view => format!("{}:{}", o.fec_encoding_id as u8, o.encoding_symbol_length),
        Some(o) => OtiSpec::from_oti(o).show(),
        None => "~".into(),
    };
    format!(
        "M {} {} {} {} {} {} {} {} {} {} {}",
        toi,
        hx(&m.content_location),
        m.content_length.map(|x| x.to_string()).unwrap_or("~".into()),
        m.transfer_length.map(|x| x.to_string()).unwrap_or("~".into()),
        opt_hx(&m.content_type),
        m.cenc.map(|c| (c as u8).to_string()).unwrap_or("~".into()),
        opt_hx(&m.md5),
        oti,
        show_cache(&m.cache_control),
        opt_hx(&m.e_tag),
        list_hx(m.groups.as_deref().unwrap_or(&[])),
    )
}

fn object_pkt(toi: u128, now: u64) -> Vec<u8> {
    let oti = hk::make_oti(0, 0, 8, 16, 0, None, false).unwrap();
    let p = hk::PktFields {
        payload: vec![0u8; 1],
        transfer_length: 1,
        esi: 0,
        sbn: 0,
        toi,
        fdt_id: None,
        cenc: flute::core::lct::Cenc::Null,
        inband_cenc: false,
        close_object: false,
        source_block_length: 1,
        sender_current_time: false,
    };
    hk::new_alc_pkt(&oti, &0u128, 1, &p, false, st(now))
}

/// the first packet of an object as the sender would emit it: in-band FTI unless a per-object OTI says otherwise,
/// EXT_CENC iff `inband_cenc`, one source symbol
pub fn signalled_pkt(eng: &FdtEngine, toi: u128, now: u64) -> Vec<u8> {
    let (cfg, ob) = match (eng.cfg.as_ref(), eng.objs.get(&toi)) {
        (Some(c), Some(o)) => (c, o),
        _ => return object_pkt(toi, now),
    };
    let eff = oracle::effective_oti(cfg, ob);
    let inband_fti = if ob.oti.is_some() { ob.flags & 2 != 0 } else { true };
    let oti = match eff.to_oti(inband_fti) {
        Some(o) => o,
        None => return object_pkt(toi, now),
    };
    let q = hk::block_partitioning(eff.b as u64, ob.tlen, eff.e as u64);
    let n = (eff.e as u64).min(ob.tlen) as usize;
    let p = hk::PktFields {
        payload: vec![0u8; n],
        transfer_length: ob.tlen,
        esi: 0,
        sbn: 0,
        toi,
        fdt_id: None,
        cenc: cenc_of(ob.cenc),
        inband_cenc: ob.flags & 4 != 0,
        close_object: false,
        source_block_length: q.0 as u32,
        sender_current_time: false,
    };
    hk::new_alc_pkt(&oti, &0u128, 1, &p, false, st(now))
}

/// push the FDT packets and one packet per listed object (`obj_first`: the object packets reach the receiver before the
/// FDT); returns the canonical `R ...` line (or PANIC) and the record
pub fn receive(pkts: &[Vec<u8>], objs: &[(u128, Vec<u8>)], obj_first: bool, now: u64) -> (String, Option<Rc<Rec>>) {
    let rec = Rc::new(Rec::default());
    let ep = UDPEndpoint::new(None, "224.0.0.1".to_owned(), 1234);
    let mut cfg = RConfig::default();
    cfg.enable_fdt_expiration_check = false;
    let mut r = Receiver::new(&ep, 1, rec.clone(), Some(cfg));
    let res = guarded(AssertUnwindSafe(|| {
        if obj_first {
            for (_, p) in objs {
                let _ = r.push_data(p, st(now));
            }
        }
        for p in pkts {
            let _ = r.push_data(p, st(now));
        }
        if !obj_first {
            for (_, p) in objs {
                let _ = r.push_data(p, st(now));
            }
        }
    }));
    if let Err(loc) = res {
        return (format!("PANIC {}", loc), None);
    }
    let fdt = rec.fdt.borrow();
    if fdt.is_empty() {
        return ("R nofdt".into(), Some(rec.clone()));
    }
    let mut out = format!("R {} {}", us(fdt[0].1), objs.len());
    let metas = rec.metas.borrow();
    for (t, _) in objs {
        match metas.iter().find(|(x, _)| x == t) {
            Some((_, m)) => {
                out.push(' ');
                out.push_str(&show_meta(*t, m, obj_first));
            }
            None => out.push_str(&format!(" M {} nooti", t)),
        }
    }
    drop(metas);
    drop(fdt);
    (out, Some(rec))
}

pub fn op_rx(eng: &mut FdtEngine, id: u32, now: u64, variant: &str, o: &mut Oracle) -> String {
    let ix = match eng.insts.iter().rposition(|i| i.id == id) {
        Some(ix) => ix,
        None => return "none".into(),
    };
    let (line, pkts, xml, t_pub) = {
        let i = &eng.insts[ix];
        match (&i.iline, &i.xml) {
            (Some(l), Some(x)) => (l.clone(), i.pkts.clone(), x.clone(), i.exp.time),
            _ => return "incomplete".into(),
        }
    };
    let p = match oracle::parse_iline(&line) {
        Some(p) => p,
        None => return "R noparse".into(),
    };
    let tois: Vec<u128> = p.files.iter().filter_map(|f| f.toi.parse().ok()).collect();
    // a: FDT first, bare object packets; b: FDT first, packets with the object's own in-band signalling;
    // c: the object packets reach the receiver BEFORE the FDT (re-ordering / late join)
    let objs: Vec<(u128, Vec<u8>)> = tois
        .iter()
        .map(|t| (*t, if variant == "a" { object_pkt(*t, now) } else { signalled_pkt(eng, *t, now) }))
        .collect();
    let (out, rec) = receive(&pkts, &objs, variant == "c", now);
    let what = format!("flute receiver on instance id {} (delivery {})", id, match variant { "a" => "FDT then bare packets", "b" => "FDT then signalled packets", _ => "object packets before the FDT" });
    let rec = match rec {
        Some(r) => r,
        None => {
            o.fail("rx-panic", &format!("{}: receiver panics: {}", what, out));
            return "PANIC".into();
        }
    };
    if rec.fdt.borrow().is_empty() {
        o.fail("rx-no-fdt", &format!("{}: fdt_received never called for a sender-emitted instance", what));
        return out;
    }
    if rec.fdt.borrow()[0].0.as_bytes() != &xml[..] {
        o.fail("rx-xml-differs", &format!("{}: XML handed to fdt_received differs from the reassembled TOI-0 payload", what));
    }
    // receiver_reads_same: flute's extraction returns the sender's values
    let cfg = eng.cfg.as_ref().unwrap();
    let want_exp = (t_pub / 1_000_000 + cfg.dur_us / 1_000_000) * 1_000_000;
    let got_exp = us(rec.fdt.borrow()[0].1);
    // NTP era 1 (finding fdtabs-4): the 32-bit seconds of the expiry wrap on 2036-02-07T06:28:16Z
    let era1 = |secs_utc: u64| secs_utc + NTP_OFF >= (1u64 << 32);
    let exp_era1 = era1(want_exp / 1_000_000);
    if got_exp != want_exp {
        o.fail(if exp_era1 { "ntp-era1-expiry" } else { "rx-expires" }, &format!("{}: expiry handed to fdt_received {} us != publish time + duration (floored) {} us", what, got_exp, want_exp));
    }
    let metas = rec.metas.borrow();
    for t in &tois {
        let ob = match eng.objs.get(t) {
            Some(ob) => ob,
            None => continue,
        };
        let m = match metas.iter().find(|(x, _)| x == t) {
            Some((_, m)) => m,
            None => {
                o.fail("rx-no-metadata", &format!("{}: no ObjectMetadata for listed TOI {}", what, t));
                continue;
            }
        };
        let mut cmp = |class: &str, ok: bool, got: String, want: String| {
            if !ok {
                o.fail(class, &format!("{}: TOI {} {}: receiver has {} sender announced {}", what, t, class, &got[..got.len().min(120)], &want[..want.len().min(120)]));
            }
        };
        let ws = |s: &str| s.contains('\t') || s.contains('\n') || s.contains('\r');
        let cl = |base: &str, orig: &str| if ws(orig) { format!("{}-ws", base) } else { base.to_string() };
        cmp(&cl("rx-location", &ob.loc), m.content_location == ob.loc, hx(&m.content_location), hx(&ob.loc));
        cmp("rx-content-length", m.content_length == Some(ob.clen as usize), format!("{:?}", m.content_length), ob.clen.to_string());
        cmp("rx-transfer-length", m.transfer_length == Some(ob.tlen as usize), format!("{:?}", m.transfer_length), ob.tlen.to_string());
        cmp(&cl("rx-type", &ob.ctype), m.content_type.as_deref() == Some(&ob.ctype), opt_hx(&m.content_type), hx(&ob.ctype));
        cmp("rx-encoding", m.cenc.map(|c| c as u8) == Some(ob.cenc), format!("{:?}", m.cenc), ob.cenc.to_string());
        cmp(&cl("rx-md5", ob.md5.as_deref().unwrap_or("")), m.md5 == ob.md5, opt_hx(&m.md5), opt_hx(&ob.md5));
        cmp(&cl("rx-etag", ob.etag.as_deref().unwrap_or("")), m.e_tag == ob.etag, opt_hx(&m.e_tag), opt_hx(&ob.etag));
        let mut g: Vec<String> = cfg.groups.clone().unwrap_or_default();
        g.extend(ob.groups.clone().unwrap_or_default());
        let gg = m.groups.clone().unwrap_or_default();
        // finding D23 only when the difference is exactly quick-xml's end-of-line normalisation of element text
        let eol11 = |s: &str| s.replace("\r\n", "\n").replace("\r\u{85}", "\n").replace(['\r', '\u{85}', '\u{2028}'], "\n");
        let normed: Vec<String> = g.iter().map(|x| eol11(x)).collect();
        let gclass = if gg != g && gg == normed { "rx-groups-eol11".to_string() } else { cl("rx-groups", &g.join("")) };
        cmp(&gclass, gg == g, list_hx(&gg), list_hx(&g));
        let want_cc = match &ob.cc {
            None => format!("hint{}", want_exp),
            Some(Cc::NoCache) => "nc".into(),
            Some(Cc::MaxStale) => "ms".into(),
            Some(Cc::In(d)) => format!("at{}", (t_pub + d) / 1_000_000 * 1_000_000),
            Some(Cc::At(x)) => format!("at{}", x / 1_000_000 * 1_000_000),
        };
        let cc_era1 = match &ob.cc {
            None => exp_era1,
            Some(Cc::In(d)) => era1((t_pub + d) / 1_000_000),
            Some(Cc::At(x)) => era1(x / 1_000_000),
            _ => false,
        };
        cmp(if cc_era1 { "ntp-era1-expiry" } else { "rx-cache" }, show_cache(&m.cache_control) == want_cc, show_cache(&m.cache_control), want_cc.clone());
        let eff = oracle::effective_oti(cfg, ob);
        let got = m.oti.as_ref().map(OtiSpec::from_oti);
        let class = if eff.enc == 1 { "rx-oti-raptor-z" } else { "rx-oti" };
        if variant == "c" {
            let ok = got.as_ref().map(|g| g.enc == eff.enc && g.e == eff.e).unwrap_or(false);
            cmp(class, ok, got.map(|g| g.show()).unwrap_or("~".into()), eff.show());
        } else {
            cmp(class, got.as_ref() == Some(&eff), got.map(|g| g.show()).unwrap_or("~".into()), eff.show());
        }
    }
    out
}

// ------------------------------------------------------------------------------------------------
// `rxabs`: an abstract instance given literally, rendered to XML by the harness and fed to the receiver

fn esc(s: &str) -> String {
    let mut o = String::new();
    for c in s.chars() {
        match c {
            '&' => o.push_str("&amp;"),
            '<' => o.push_str("&lt;"),
            '>' => o.push_str("&gt;"),
            '"' => o.push_str("&quot;"),
            '\t' | '\n' | '\r' => o.push_str(&format!("&#{};", c as u32)),
            c => o.push(c),
        }
    }
    o
}

fn oti_attrs(t: &str) -> Option<String> {
    if t == "~" {
        return Some(String::new());
    }
    let v: Vec<&str> = t.split(',').collect();
    if v.len() != 6 {
        return None;
    }
    let names = ["FEC-OTI-FEC-Encoding-ID", "FEC-OTI-FEC-Instance-ID", "FEC-OTI-Maximum-Source-Block-Length",
        "FEC-OTI-Encoding-Symbol-Length", "FEC-OTI-Max-Number-of-Encoding-Symbols"];
    let mut s = String::new();
    for i in 0..5 {
        if v[i] != "~" {
            v[i].parse::<u64>().ok()?;
            s.push_str(&format!(" {}=\"{}\"", names[i], v[i]));
        }
    }
    if v[5] != "~" {
        use base64::Engine as _;
        let raw: Vec<u8> = if v[5] == "-" {
            vec![]
        } else {
            (0..v[5].len()).step_by(2).map(|i| u8::from_str_radix(v[5].get(i..i + 2)?, 16).ok()).collect::<Option<Vec<u8>>>()?
        };
        s.push_str(&format!(" FEC-OTI-Scheme-Specific-Info=\"{}\"", base64::engine::general_purpose::STANDARD.encode(raw)));
    }
    Some(s)
}

fn groups_xml(t: &str) -> Option<String> {
    if t == "~" {
        return Some(String::new());
    }
    let mut s = String::new();
    for g in t.split(',') {
        // element text is written the way the sender writes it (TAB / LF / CR literally), so that the receiver's
        // end-of-line normalisation of element content applies as it does to a real instance
        let t = esc(&unhx(g)?).replace("&#9;", "\t").replace("&#10;", "\n").replace("&#13;", "\r");
        s.push_str(&format!("<mbms2005:Group>{}</mbms2005:Group>", t));
    }
    Some(s)
}

/// `<now> <exp> <groups> <oti> <n> {F <toi> <loc> <clen> <tlen> <type> <cenc> <md5> <oti> <cc> <etag> <groups>}`
pub fn render(a: &[&str]) -> Option<(u64, Vec<u8>, Vec<u128>)> {
    if a.len() < 5 {
        return None;
    }
    let now: u64 = a[0].parse().ok()?;
    a[1].parse::<u128>().ok()?;
    let n: usize = a[4].parse().ok()?;
    if a.len() != 5 + 12 * n {
        return None;
    }
    let mut x = String::from("<?xml version=\"1.0\" encoding=\"UTF-8\"?><FDT-Instance xmlns=\"urn:IETF:metadata:2005:FLUTE:FDT\" xmlns:mbms2005=\"urn:3GPP:metadata:2005:MBMS:FLUTE:FDT\" xmlns:mbms2007=\"urn:3GPP:metadata:2007:MBMS:FLUTE:FDT\" xmlns:mbms2012=\"urn:3GPP:metadata:2012:MBMS:FLUTE:FDT\"");
    x.push_str(&format!(" Expires=\"{}\"{}>", a[1], oti_attrs(a[3])?));
    let mut tois = Vec::new();
    for i in 0..n {
        let f = &a[5 + 12 * i..5 + 12 * (i + 1)];
        if f[0] != "F" {
            return None;
        }
        let toi: u128 = f[1].parse().ok()?;
        tois.push(toi);
        x.push_str(&format!("<File Content-Location=\"{}\" TOI=\"{}\"", esc(&unhx(f[2])?), toi));
        if f[3] != "~" {
            x.push_str(&format!(" Content-Length=\"{}\"", f[3].parse::<u64>().ok()?));
        }
        if f[4] != "~" {
            x.push_str(&format!(" Transfer-Length=\"{}\"", f[4].parse::<u64>().ok()?));
        }
        if f[5] != "~" {
            x.push_str(&format!(" Content-Type=\"{}\"", esc(&unhx(f[5])?)));
        }
        if f[6] != "~" {
            if !["null", "zlib", "deflate", "gzip"].contains(&f[6]) {
                return None;
            }
            x.push_str(&format!(" Content-Encoding=\"{}\"", f[6]));
        }
        if f[7] != "~" {
            x.push_str(&format!(" Content-MD5=\"{}\"", esc(&unhx(f[7])?)));
        }
        x.push_str(&oti_attrs(f[8])?);
        if f[10] != "~" {
            x.push_str(&format!(" mbms2012:File-ETag=\"{}\"", esc(&unhx(f[10])?)));
        }
        x.push('>');
        match f[9] {
            "~" => {}
            "nc" => x.push_str("<mbms2007:Cache-Control><mbms2007:no-cache>true</mbms2007:no-cache></mbms2007:Cache-Control>"),
            "ms" => x.push_str("<mbms2007:Cache-Control><mbms2007:max-stale>true</mbms2007:max-stale></mbms2007:Cache-Control>"),
            c if c.starts_with("ex") => {
                let v: u32 = c[2..].parse().ok()?;
                x.push_str(&format!("<mbms2007:Cache-Control><mbms2007:Expires>{}</mbms2007:Expires></mbms2007:Cache-Control>", v));
            }
            _ => return None,
        }
        x.push_str(&groups_xml(f[11])?);
        x.push_str("</File>");
    }
    x.push_str(&groups_xml(a[2])?);
    x.push_str("</FDT-Instance>");
    Some((now, x.into_bytes(), tois))
}

pub fn fdt_pkts(xml: &[u8], fdt_id: u32, now: u64) -> Vec<Vec<u8>> {
    let e = 1024usize;
    let oti = hk::make_oti(0, 0, 1024, e as u16, 0, None, true).unwrap();
    let mut out = Vec::new();
    let n = (xml.len() + e - 1) / e;
    for i in 0..n.max(1) {
        let chunk = &xml[(i * e).min(xml.len())..((i + 1) * e).min(xml.len())];
        let p = hk::PktFields {
            payload: chunk.to_vec(),
            transfer_length: xml.len() as u64,
            esi: i as u32,
            sbn: 0,
            toi: 0,
            fdt_id: Some(fdt_id),
            cenc: flute::core::lct::Cenc::Null,
            inband_cenc: false,
            close_object: false,
            source_block_length: n as u32,
            sender_current_time: false,
        };
        out.push(hk::new_alc_pkt(&oti, &0u128, 1, &p, false, st(now)));
    }
    out
}

pub fn op_rxabs(eng: &mut FdtEngine, a: &[&str], _o: &mut Oracle) -> String {
    let (now, xml, mut tois) = match render(a) {
        Some(x) => x,
        None => return "bad-op".into(),
    };
    // the harness' own rendering must itself be well-formed and say what the op line says
    let chk = eng.py.parse(&xml);
    if chk.starts_with("XMLERR") {
        return format!("HARNESS-XML {}", chk);
    }
    tois.sort();
    let objs: Vec<(u128, Vec<u8>)> = tois.iter().map(|t| (*t, object_pkt(*t, now))).collect();
    let (out, _) = receive(&fdt_pkts(&xml, 7, now), &objs, false, now);
    if out.starts_with("PANIC") {
        return "PANIC".into();
    }
    out
}
