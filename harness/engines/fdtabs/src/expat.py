#!/usr/bin/env python3
# Independent reader of FDT instances (xml.parsers.expat, namespace aware).  One request per line on
# stdin (hex of the XML bytes), one canonical line on stdout:
#   I <expires> <groups> <n> {F <toi> <loc> <clen> <tlen> <type> <cenc> <md5> <oti> <cc> <etag> <groups>}
# <oti> of a file = the FEC-OTI attributes as an RFC 6726 reader resolves them: the File element's when it carries an
# encoding id, else the FDT-Instance's; the scheme-specific info only for the schemes that define one (1, 2, 6).
# Complete / FullFDT and WHERE the attributes are written are not part of the property and are not printed.
# or `XMLERR <reason>` when the document is not well-formed / not an FDT-Instance.
import sys, base64, binascii
import xml.parsers.expat as expat

NS_FDT = "urn:IETF:metadata:2005:FLUTE:FDT"
NS05 = "urn:3GPP:metadata:2005:MBMS:FLUTE:FDT"
NS07 = "urn:3GPP:metadata:2007:MBMS:FLUTE:FDT"
NS08 = "urn:3GPP:metadata:2008:MBMS:FLUTE:FDT_ext"
NS12 = "urn:3GPP:metadata:2012:MBMS:FLUTE:FDT"


def hx(s):
    if s is None:
        return "~"
    b = s.encode("utf-8")
    return b.hex() if b else "-"


def num(s):
    if s is None:
        return "~"
    return s if (s.isdigit() and s.isascii()) else "?" + hx(s)


def boolean(s):
    if s is None:
        return "~"
    return "1" if s == "true" else ("0" if s == "false" else "?" + hx(s))


def oti(a, inst=None):
    keys = ["FEC-OTI-FEC-Encoding-ID", "FEC-OTI-FEC-Instance-ID", "FEC-OTI-Maximum-Source-Block-Length",
            "FEC-OTI-Encoding-Symbol-Length", "FEC-OTI-Max-Number-of-Encoding-Symbols"]
    if inst is not None and a.get(keys[0]) is None:
        a = inst
    vals = [a.get(k) for k in keys]
    ssi = a.get("FEC-OTI-Scheme-Specific-Info")
    if vals[0] not in ("1", "2", "6"):
        ssi = None
    if all(v is None for v in vals) and ssi is None:
        return "~"
    if ssi is None:
        s = "~"
    else:
        try:
            raw = base64.b64decode(ssi, validate=True)
            s = raw.hex() if raw else "-"
        except (binascii.Error, ValueError):
            s = "?" + hx(ssi)
    return ",".join([num(v) for v in vals] + [s])


def groups(g):
    return ",".join(hx(x) for x in g) if g else "~"


def parse(data):
    p = expat.ParserCreate(namespace_separator=" ")
    p.buffer_text = True
    stack = []          # element names
    root = {"attrs": None, "groups": [], "files": []}
    cur = {"file": None, "text": None, "cc": None}

    def start(name, attrs):
        depth = len(stack)
        stack.append(name)
        cur["text"] = ""
        if depth == 0:
            if name != NS_FDT + " FDT-Instance":
                raise ValueError("root element is " + name)
            root["attrs"] = attrs
        elif depth == 1 and name == NS_FDT + " File":
            cur["file"] = {"attrs": attrs, "groups": [], "cc": None}
        elif depth == 2 and cur["file"] is not None and name == NS07 + " Cache-Control":
            if cur["file"]["cc"] is not None:
                raise ValueError("two Cache-Control")
            cur["file"]["cc"] = []

    def end(name):
        stack.pop()
        depth = len(stack)
        text = cur["text"] or ""
        cur["text"] = ""
        if depth == 1 and name == NS05 + " Group":
            root["groups"].append(text)
        elif depth == 1 and name == NS_FDT + " File":
            root["files"].append(cur["file"])
            cur["file"] = None
        elif depth == 2 and cur["file"] is not None and name == NS05 + " Group":
            cur["file"]["groups"].append(text)
        elif depth == 3 and cur["file"] is not None and cur["file"]["cc"] is not None and stack[-1] == NS07 + " Cache-Control":
            local = name.split(" ")[-1]
            if not name.startswith(NS07 + " "):
                raise ValueError("cache-control child in namespace " + name)
            cur["file"]["cc"].append((local, text))

    def chars(d):
        if cur["text"] is not None:
            cur["text"] += d

    p.StartElementHandler = start
    p.EndElementHandler = end
    p.CharacterDataHandler = chars
    p.Parse(data, True)
    a = root["attrs"]
    if a is None:
        raise ValueError("no root")
    out = ["I", num(a.get("Expires")), groups(root["groups"])]
    files = []
    for f in root["files"]:
        fa = f["attrs"]
        toi = fa.get("TOI")
        key = int(toi) if (toi is not None and toi.isdigit() and toi.isascii()) else -1
        cc = f["cc"]
        if cc is None:
            c = "~"
        elif len(cc) != 1:
            c = "?%d" % len(cc)
        else:
            k, v = cc[0]
            if k == "no-cache":
                c = "nc" if v == "true" else "nc?" + hx(v)
            elif k == "max-stale":
                c = "ms" if v == "true" else "ms?" + hx(v)
            elif k == "Expires":
                c = "ex" + num(v)
            else:
                c = "?" + hx(k)
        ce = fa.get("Content-Encoding")
        files.append((key, " ".join([
            "F", num(toi), hx(fa.get("Content-Location")), num(fa.get("Content-Length")), num(fa.get("Transfer-Length")),
            hx(fa.get("Content-Type")), ("~" if ce is None else (ce if ce in ("null", "zlib", "deflate", "gzip") else "?" + hx(ce))),
            hx(fa.get("Content-MD5")), oti(fa, a), c, hx(fa.get(NS12 + " File-ETag")), groups(f["groups"])])))
    files.sort(key=lambda x: x[0])
    out.append(str(len(files)))
    out += [x[1] for x in files]
    return " ".join(out)


def main():
    for line in sys.stdin:
        line = line.strip()
        if not line:
            continue
        try:
            data = b"" if line == "-" else bytes.fromhex(line)
            res = parse(data)
        except expat.ExpatError as e:
            res = "XMLERR " + str(e).replace(" ", "_")
        except Exception as e:  # noqa
            res = "XMLERR " + type(e).__name__ + ":" + str(e).replace(" ", "_")
        sys.stdout.write(res + "\n")
        sys.stdout.flush()


main()
