//! Stand-alone decoder AND encoder of the ALC/LCT/FLUTE wire format, written from the RFC packet
//! diagrams only.  It shares NO code with the crate under test (no `use flute`), so that engines can
//! use it as the "independent implementation of the RFCs" of property C06 (copy this file as is).
//!
//!  * RFC 5651 §5.1  LCT header (V, C, PSI, S, O, H, Res, A, B, HDR_LEN, CP, CCI, TSI, TOI)
//!  * RFC 5651 §5.2  header extensions (HET < 128: HET, HEL, 4*HEL-2 octets; HET >= 128: one word)
//!  * RFC 5651 §5.2.2 EXT_TIME (HET 2), RFC 6726 §3.4.1 EXT_FDT (192), §3.4.3 EXT_CENC (193)
//!  * EXT_FTI (HET 64) and FEC payload id of FEC Encoding IDs 0 (RFC 5445 §3), 129 (RFC 5445 §5),
//!    5 and 2 (RFC 5510 §5/§4), 6 (RFC 6330 §3.3), 1 (RFC 5053 §3.2)
//!  * RFC 5905 §6 NTP timestamps (EXT_TIME SCT-High / SCT-Low)
//!
//! Everything is expressed with one generic bit reader / bit writer over network bit order (most
//! significant bit first); every layout is a list of field widths copied from the RFC diagram.
//! `show_decode` prints the canonical text form compared with the Lean specification
//! `Flute.Spec.Wire.showDecode` (model driver op `rfc`).
#![allow(dead_code)]

// ------------------------------------------------------------------------------------------------
// bit level
// ------------------------------------------------------------------------------------------------

/// the `w`-bit field (w <= 128) starting at bit `pos` of `data` (bit 0 = MSB of octet 0).
/// Panics when the field is not inside `data` (callers check lengths first).
pub fn read_bits(data: &[u8], pos: usize, w: usize) -> u128 {
    assert!(w <= 128 && pos + w <= 8 * data.len(), "read_bits outside the octet string");
    let mut v: u128 = 0;
    let mut p = pos;
    let end = pos + w;
    while p < end {
        let off = p % 8;
        let take = (8 - off).min(end - p);
        let chunk = (data[p / 8] >> (8 - off - take)) & (((1u16 << take) - 1) as u8);
        v = (v << take) | chunk as u128;
        p += take;
    }
    v
}

/// Appends fields most-significant-bit first.
#[derive(Default, Clone)]
pub struct BitWriter {
    buf: Vec<u8>,
    nbits: usize,
}

impl BitWriter {
    pub fn new() -> BitWriter {
        BitWriter::default()
    }
    /// append the low `w` bits (w <= 128) of `v`
    pub fn put(&mut self, w: usize, v: u128) {
        assert!(w <= 128);
        let mut left = w;
        while left > 0 {
            let off = self.nbits % 8;
            if off == 0 {
                self.buf.push(0);
            }
            let take = (8 - off).min(left);
            let chunk = ((v >> (left - take)) & ((1u128 << take) - 1)) as u8;
            let last = self.buf.len() - 1;
            self.buf[last] |= chunk << (8 - off - take);
            self.nbits += take;
            left -= take;
        }
    }
    pub fn put_bytes(&mut self, b: &[u8]) {
        for x in b {
            self.put(8, *x as u128);
        }
    }
    pub fn bits(&self) -> usize {
        self.nbits
    }
    /// the octets written (the total width must be a multiple of 8)
    pub fn finish(self) -> Vec<u8> {
        assert!(self.nbits % 8 == 0, "diagram is not a whole number of octets");
        self.buf
    }
}

fn fits(v: u128, bits: usize) -> bool {
    bits >= 128 || v < (1u128 << bits)
}

// ------------------------------------------------------------------------------------------------
// LCT header and header extensions (RFC 5651 §5.1, §5.2)
// ------------------------------------------------------------------------------------------------

pub const HET_TIME: u8 = 2;
pub const HET_FTI: u8 = 64;
pub const HET_FDT: u8 = 192;
pub const HET_CENC: u8 = 193;

/// One header extension.  `body` = the octets after HET (HET >= 128: exactly 3 octets; `hel` is
/// unused and 0) or after HET and HEL (HET < 128: 4*HEL - 2 octets).
#[derive(Clone, Debug, PartialEq, Eq)]
pub struct Ext {
    pub het: u8,
    pub hel: u8,
    pub body: Vec<u8>,
}

impl Ext {
    /// a variable-length extension (HET < 128); `body.len()` must be `4*hel - 2`
    pub fn var(het: u8, hel: u8, body: Vec<u8>) -> Ext {
        assert!(het < 128 && hel >= 1 && body.len() == 4 * hel as usize - 2);
        Ext { het, hel, body }
    }
    /// a fixed-length extension (HET >= 128) with its 24 bits of content
    pub fn fixed(het: u8, body: [u8; 3]) -> Ext {
        assert!(het >= 128);
        Ext { het, hel: 0, body: body.to_vec() }
    }
    pub fn is_valid(&self) -> bool {
        if self.het < 128 {
            self.hel >= 1 && self.body.len() == 4 * self.hel as usize - 2
        } else {
            self.body.len() == 3
        }
    }
    /// length in 32-bit words
    pub fn words(&self) -> usize {
        if self.het < 128 {
            self.hel as usize
        } else {
            1
        }
    }
    /// the octets of the extension
    pub fn encode(&self) -> Vec<u8> {
        let mut w = BitWriter::new();
        w.put(8, self.het as u128);
        if self.het < 128 {
            w.put(8, self.hel as u128);
        }
        w.put_bytes(&self.body);
        w.finish()
    }
}

/// what a receiver looking for extension type `het` finds: the first extension of that type
pub fn find_ext(exts: &[Ext], het: u8) -> Option<&Ext> {
    exts.iter().find(|e| e.het == het)
}

/// The fields of an LCT header.  `c s o h` are the width flags chosen by the sender; `hdr_len` is
/// filled by the decoder (32-bit words) and IGNORED by the encoder, which computes it.
#[derive(Clone, Debug, PartialEq, Eq)]
pub struct LctFields {
    pub v: u8,
    pub c: u8,
    pub psi: u8,
    pub s: u8,
    pub o: u8,
    pub h: u8,
    /// the 2 reserved bits (senders: 0, receivers: ignore)
    pub res: u8,
    pub a: u8,
    pub b: u8,
    pub hdr_len: u8,
    pub cp: u8,
    pub cci: u128,
    pub tsi: u64,
    pub toi: u128,
    pub exts: Vec<Ext>,
}

impl LctFields {
    pub fn cci_bits(&self) -> usize {
        32 * (self.c as usize + 1)
    }
    pub fn tsi_bits(&self) -> usize {
        32 * self.s as usize + 16 * self.h as usize
    }
    pub fn toi_bits(&self) -> usize {
        32 * self.o as usize + 16 * self.h as usize
    }
    /// octets of the fixed part (first word + CCI + TSI + TOI) = offset of the first extension
    pub fn fixed_octets(&self) -> usize {
        (32 + self.cci_bits() + self.tsi_bits() + self.toi_bits()) / 8
    }
    /// HDR_LEN a sender has to write: total header length in 32-bit words
    pub fn hdr_words(&self) -> usize {
        self.fixed_octets() / 4 + self.exts.iter().map(|e| e.words()).sum::<usize>()
    }
    /// a header a conforming sender may emit
    pub fn is_valid(&self) -> bool {
        self.v == 1
            && self.c < 4
            && self.psi < 4
            && self.s < 2
            && self.o < 4
            && self.h < 2
            && self.res == 0
            && self.a < 2
            && self.b < 2
            && fits(self.cci, self.cci_bits())
            && fits(self.tsi as u128, self.tsi_bits())
            && fits(self.toi, self.toi_bits())
            && self.hdr_words() <= 255
            && self.exts.iter().all(|e| e.is_valid())
    }
}

/// Encode an LCT header with the caller's width flags and extension list; HDR_LEN is computed.
/// Panics if the header is longer than 255 words or a value does not fit its field
/// (check `is_valid()` / `hdr_words()` first).
pub fn encode_lct(f: &LctFields) -> Vec<u8> {
    let words = f.hdr_words();
    assert!(words <= 255, "LCT header longer than 255 words");
    assert!(f.c < 4 && f.psi < 4 && f.s < 2 && f.o < 4 && f.h < 2 && f.res < 4 && f.a < 2 && f.b < 2 && f.v < 16);
    assert!(fits(f.cci, f.cci_bits()) && fits(f.tsi as u128, f.tsi_bits()) && fits(f.toi, f.toi_bits()));
    let mut w = BitWriter::new();
    w.put(4, f.v as u128);
    w.put(2, f.c as u128);
    w.put(2, f.psi as u128);
    w.put(1, f.s as u128);
    w.put(2, f.o as u128);
    w.put(1, f.h as u128);
    w.put(2, f.res as u128);
    w.put(1, f.a as u128);
    w.put(1, f.b as u128);
    w.put(8, words as u128);
    w.put(8, f.cp as u128);
    w.put(f.cci_bits(), f.cci);
    w.put(f.tsi_bits(), f.tsi as u128);
    w.put(f.toi_bits(), f.toi);
    for e in &f.exts {
        assert!(e.is_valid(), "malformed extension");
        w.put_bytes(&e.encode());
    }
    w.finish()
}

/// Split an extension area (a whole number of 32-bit words) into extensions; `None` if malformed
/// (HEL = 0, an extension running past the end, fewer than 4 octets left over).
pub fn decode_exts(area: &[u8]) -> Option<Vec<Ext>> {
    let mut out = Vec::new();
    let mut d = area;
    while !d.is_empty() {
        if d.len() < 4 {
            return None;
        }
        let het = read_bits(d, 0, 8) as u8;
        if het < 128 {
            let hel = read_bits(d, 8, 8) as usize;
            if hel == 0 || 4 * hel > d.len() {
                return None;
            }
            out.push(Ext { het, hel: hel as u8, body: d[2..4 * hel].to_vec() });
            d = &d[4 * hel..];
        } else {
            out.push(Ext { het, hel: 0, body: d[1..4].to_vec() });
            d = &d[4..];
        }
    }
    Some(out)
}

/// Decode the LCT header at the start of a datagram (LCT version 1 only).  The header is
/// `4 * hdr_len` octets long.  `None`: shorter than one word, wrong version, HDR_LEN smaller than
/// the fixed part or larger than the datagram, malformed extension area.
pub fn decode_lct(d: &[u8]) -> Option<LctFields> {
    if d.len() < 4 {
        return None;
    }
    let v = read_bits(d, 0, 4) as u8;
    let c = read_bits(d, 4, 2) as u8;
    let psi = read_bits(d, 6, 2) as u8;
    let s = read_bits(d, 8, 1) as u8;
    let o = read_bits(d, 9, 2) as u8;
    let h = read_bits(d, 11, 1) as u8;
    let res = read_bits(d, 12, 2) as u8;
    let a = read_bits(d, 14, 1) as u8;
    let b = read_bits(d, 15, 1) as u8;
    let hdr_len = read_bits(d, 16, 8) as u8;
    let cp = read_bits(d, 24, 8) as u8;
    if v != 1 {
        return None;
    }
    let mut f = LctFields { v, c, psi, s, o, h, res, a, b, hdr_len, cp, cci: 0, tsi: 0, toi: 0, exts: Vec::new() };
    let fixed = f.fixed_octets();
    let total = 4 * hdr_len as usize;
    if total < fixed || total > d.len() {
        return None;
    }
    let hdr = &d[..total];
    f.cci = read_bits(hdr, 32, f.cci_bits());
    f.tsi = read_bits(hdr, 32 + f.cci_bits(), f.tsi_bits()) as u64;
    f.toi = read_bits(hdr, 32 + f.cci_bits() + f.tsi_bits(), f.toi_bits());
    f.exts = decode_exts(&hdr[fixed..])?;
    Some(f)
}

/// the minimal legal width flags `(c, s, o, h)` for the given values, `None` if a value is too wide
/// (TSI > 48 bits, TOI > 112 bits).  With `h = 1` both TSI and TOI get an extra half-word.
pub fn minimal_widths(cci: u128, tsi: u64, toi: u128) -> Option<(u8, u8, u8, u8)> {
    let c = (0..4u8).find(|c| fits(cci, 32 * (*c as usize + 1)))?;
    let mut best: Option<(usize, u8, u8, u8)> = None;
    for h in 0..2u8 {
        for s in 0..2u8 {
            for o in 0..4u8 {
                let tb = 32 * s as usize + 16 * h as usize;
                let ob = 32 * o as usize + 16 * h as usize;
                if fits(tsi as u128, tb) && fits(toi, ob) && best.map_or(true, |b| tb + ob < b.0) {
                    best = Some((tb + ob, s, o, h));
                }
            }
        }
    }
    best.map(|(_, s, o, h)| (c, s, o, h))
}

/// every legal width flag choice `(c, s, o, h)` for the values (each value fits its field)
pub fn legal_widths(cci: u128, tsi: u64, toi: u128) -> Vec<(u8, u8, u8, u8)> {
    let mut v = Vec::new();
    for c in 0..4u8 {
        for s in 0..2u8 {
            for o in 0..4u8 {
                for h in 0..2u8 {
                    if fits(cci, 32 * (c as usize + 1))
                        && fits(tsi as u128, 32 * s as usize + 16 * h as usize)
                        && fits(toi, 32 * o as usize + 16 * h as usize)
                    {
                        v.push((c, s, o, h));
                    }
                }
            }
        }
    }
    v
}

/// Re-serialise the LCT header of datagram `d` with other width flags `(c, s, o, h)`: version, PSI, A, B,
/// codepoint, CCI, TSI, TOI, the extension list and the octets after the header are unchanged, the
/// reserved bits become 0 and HDR_LEN is recomputed.  `None` if `d` does not decode, a flag is out of
/// range, a value does not fit the requested width or the new header is longer than 255 words.
/// (`Flute.Spec.Wire.rewidth`, driver op `rewidth`.)
pub fn rewidth(d: &[u8], c: u64, s: u64, o: u64, h: u64) -> Option<Vec<u8>> {
    let f = decode_lct(d)?;
    if c > 3 || s > 1 || o > 3 || h > 1 {
        return None;
    }
    let old_len = 4 * f.hdr_len as usize;
    let g = LctFields { c: c as u8, s: s as u8, o: o as u8, h: h as u8, res: 0, hdr_len: 0, ..f };
    if !fits(g.cci, g.cci_bits()) || !fits(g.tsi as u128, g.tsi_bits()) || !fits(g.toi, g.toi_bits()) || g.hdr_words() > 255 {
        return None;
    }
    let mut out = encode_lct(&g);
    out.extend_from_slice(&d[old_len..]);
    Some(out)
}

// ------------------------------------------------------------------------------------------------
// EXT_FDT, EXT_CENC, EXT_TIME
// ------------------------------------------------------------------------------------------------

/// EXT_FDT: | HET = 192 (8) | V (4) | FDT Instance ID (20) |
pub fn enc_ext_fdt(version: u8, instance_id: u32) -> Ext {
    assert!(version < 16 && instance_id < (1 << 20));
    let mut w = BitWriter::new();
    w.put(4, version as u128);
    w.put(20, instance_id as u128);
    Ext { het: HET_FDT, hel: 0, body: w.finish() }
}

/// `(FLUTE version, FDT instance id)`
pub fn dec_ext_fdt(e: &Ext) -> Option<(u8, u32)> {
    if e.het != HET_FDT || e.body.len() != 3 {
        return None;
    }
    Some((read_bits(&e.body, 0, 4) as u8, read_bits(&e.body, 4, 20) as u32))
}

/// EXT_CENC: | HET = 193 (8) | CENC (8) | Reserved (16) = 0 |
pub fn enc_ext_cenc(cenc: u8) -> Ext {
    Ext { het: HET_CENC, hel: 0, body: vec![cenc, 0, 0] }
}

pub fn dec_ext_cenc(e: &Ext) -> Option<u8> {
    if e.het != HET_CENC || e.body.len() != 3 {
        return None;
    }
    Some(e.body[0])
}

/// the 16 reserved bits of an EXT_CENC
pub fn ext_cenc_reserved(e: &Ext) -> u16 {
    read_bits(&e.body, 8, 16) as u16
}

/// The content of an EXT_TIME (RFC 5651 §5.2.2):
/// | HET = 2 (8) | HEL (8) | SCT-High (1) SCT-Low (1) ERT (1) SLC (1) reserved (4) PI-specific (8) |
/// followed by the 32-bit time values present, in the order SCT-High, SCT-Low, ERT, SLC.
#[derive(Clone, Debug, Default, PartialEq, Eq)]
pub struct ExtTime {
    pub sct_hi: Option<u32>,
    pub sct_low: Option<u32>,
    pub ert: Option<u32>,
    pub slc: Option<u32>,
    pub reserved: u8,
    pub pi_specific: u8,
}

pub fn enc_ext_time(t: &ExtTime) -> Ext {
    let vals = [t.sct_hi, t.sct_low, t.ert, t.slc];
    let mut w = BitWriter::new();
    for v in vals {
        w.put(1, v.is_some() as u128);
    }
    w.put(4, t.reserved as u128);
    w.put(8, t.pi_specific as u128);
    let mut n = 1u8;
    for v in vals.into_iter().flatten() {
        w.put(32, v as u128);
        n += 1;
    }
    Ext { het: HET_TIME, hel: n, body: w.finish() }
}

/// EXT_TIME carrying the sender current time as a 64-bit NTP timestamp (SCT-High and SCT-Low)
pub fn enc_ext_time_sct(ntp_seconds: u32, ntp_fraction: u32) -> Ext {
    enc_ext_time(&ExtTime { sct_hi: Some(ntp_seconds), sct_low: Some(ntp_fraction), ..Default::default() })
}

/// all fields of an EXT_TIME; `None` when HEL does not match the Use flags
pub fn dec_ext_time(e: &Ext) -> Option<ExtTime> {
    if e.het != HET_TIME || e.hel == 0 || e.body.len() != 4 * e.hel as usize - 2 {
        return None;
    }
    let flags: Vec<bool> = (0..4).map(|i| read_bits(&e.body, i, 1) == 1).collect();
    let n = flags.iter().filter(|x| **x).count();
    if e.hel as usize != 1 + n {
        return None;
    }
    let mut pos = 16;
    let mut vals = [None; 4];
    for i in 0..4 {
        if flags[i] {
            vals[i] = Some(read_bits(&e.body, pos, 32) as u32);
            pos += 32;
        }
    }
    Some(ExtTime {
        sct_hi: vals[0],
        sct_low: vals[1],
        ert: vals[2],
        slc: vals[3],
        reserved: read_bits(&e.body, 4, 4) as u8,
        pi_specific: read_bits(&e.body, 8, 8) as u8,
    })
}

/// the sender current time of an EXT_TIME: `(NTP seconds, NTP fraction)`; `None` when the extension
/// is malformed or carries no SCT-High (fraction 0 when SCT-Low is absent)
pub fn dec_ext_time_sct(e: &Ext) -> Option<(u32, u32)> {
    let t = dec_ext_time(e)?;
    let hi = t.sct_hi?;
    Some((hi, t.sct_low.unwrap_or(0)))
}

// ------------------------------------------------------------------------------------------------
// NTP timestamps (RFC 5905 §6): 32-bit seconds since 1900-01-01, 32-bit binary fraction
// ------------------------------------------------------------------------------------------------

/// seconds between 1900-01-01 and 1970-01-01: 70 years including 17 leap days
pub const NTP_UNIX_OFFSET: u64 = (70 * 365 + 17) * 86400;

/// whole microseconds since the UNIX epoch of an NTP timestamp, truncating the fraction;
/// `None` for instants before 1970
pub fn ntp_to_micros_floor(secs: u32, frac: u32) -> Option<u64> {
    let s = (secs as u64).checked_sub(NTP_UNIX_OFFSET)?;
    Some(s * 1_000_000 + ((frac as u64 * 1_000_000) >> 32))
}

/// the same, rounding the fraction to the nearest microsecond
pub fn ntp_to_micros_round(secs: u32, frac: u32) -> Option<u64> {
    let s = (secs as u64).checked_sub(NTP_UNIX_OFFSET)?;
    Some(s * 1_000_000 + ((frac as u64 * 1_000_000 + (1 << 31)) >> 32))
}

/// The smallest NTP timestamp inside the microsecond `[us, us+1)` after the UNIX epoch (fraction
/// rounded UP, so that a truncating receiver reads back exactly `us`); `None` past the NTP era.
pub fn micros_to_ntp(us: u64) -> Option<(u32, u32)> {
    let secs = us / 1_000_000 + NTP_UNIX_OFFSET;
    if secs > u32::MAX as u64 {
        return None;
    }
    let sub = (us % 1_000_000) as u128;
    let frac = ((sub << 32) + 999_999) / 1_000_000;
    Some((secs as u32, frac as u32))
}

// ------------------------------------------------------------------------------------------------
// EXT_FTI (HET 64) per FEC Encoding ID
// ------------------------------------------------------------------------------------------------

pub const FEC_NOCODE: u8 = 0;
pub const FEC_RAPTOR: u8 = 1;
pub const FEC_RS2M: u8 = 2;
pub const FEC_RS28: u8 = 5;
pub const FEC_RAPTORQ: u8 = 6;
pub const FEC_SMALL_BLOCK: u8 = 129;
pub const KNOWN_FEC: [u8; 6] = [0, 1, 2, 5, 6, 129];

pub fn known_fec(fec: u8) -> bool {
    KNOWN_FEC.contains(&fec)
}

/// The EXT_FTI diagram after HET/HEL: `(HEL, [(width in bits, is a value)])`; fields that are not
/// values are reserved / padding (sent as 0).  Values in diagram order:
///   0   (RFC 5445 §3.2):  L(48) res(16) E(16) B(32)                      -> [L, E, B]
///   129 (RFC 5445 §5.2):  L(48) FEC-instance(16) E(16) B(16) max_n(16)   -> [L, inst, E, B, max_n]
///   5   (RFC 5510 §5.2):  L(48) E(16) B(8) max_n(8)                      -> [L, E, B, max_n]
///   2   (RFC 5510 §4.2):  L(48) m(8) G(8) E(16) B(16) max_n(16)          -> [L, m, G, E, B, max_n]
///   6   (RFC 6330 §3.3):  F(40) res(8) T(16) Z(8) N(16) Al(8) pad(16)    -> [F, T, Z, N, Al]
///   1   (RFC 5053 §3.2):  F(48) res(16) T(16) Z(16) N(8) Al(8)           -> [F, T, Z, N, Al]
pub fn fti_layout(fec: u8) -> Option<(u8, &'static [(usize, bool)])> {
    match fec {
        0 => Some((4, &[(48, true), (16, false), (16, true), (32, true)])),
        129 => Some((4, &[(48, true), (16, true), (16, true), (16, true), (16, true)])),
        5 => Some((3, &[(48, true), (16, true), (8, true), (8, true)])),
        2 => Some((4, &[(48, true), (8, true), (8, true), (16, true), (16, true), (16, true)])),
        6 => Some((4, &[(40, true), (8, false), (16, true), (8, true), (16, true), (8, true), (16, false)])),
        1 => Some((4, &[(48, true), (16, false), (16, true), (16, true), (8, true), (8, true)])),
        _ => None,
    }
}

/// number of values and the width of each, in diagram order
pub fn fti_value_widths(fec: u8) -> Option<Vec<usize>> {
    fti_layout(fec).map(|(_, l)| l.iter().filter(|f| f.1).map(|f| f.0).collect())
}

/// Build the EXT_FTI of scheme `fec` from its values in diagram order; `None` for an unknown
/// scheme, a wrong number of values or a value wider than its field.
pub fn encode_fti(fec: u8, vals: &[u64]) -> Option<Ext> {
    let (hel, layout) = fti_layout(fec)?;
    let mut w = BitWriter::new();
    let mut it = vals.iter();
    for (width, is_val) in layout {
        if *is_val {
            let v = *it.next()? as u128;
            if !fits(v, *width) {
                return None;
            }
            w.put(*width, v);
        } else {
            w.put(*width, 0);
        }
    }
    if it.next().is_some() {
        return None;
    }
    Some(Ext { het: HET_FTI, hel, body: w.finish() })
}

/// The values of an EXT_FTI in diagram order (without HET/HEL/reserved/padding); `None` if the
/// extension has not the HEL the scheme prescribes.
pub fn decode_fti(fec: u8, e: &Ext) -> Option<Vec<u64>> {
    let (hel, layout) = fti_layout(fec)?;
    if e.het != HET_FTI || e.hel != hel || e.body.len() != 4 * hel as usize - 2 {
        return None;
    }
    let mut pos = 0;
    let mut out = Vec::new();
    for (width, is_val) in layout {
        if *is_val {
            out.push(read_bits(&e.body, pos, *width) as u64);
        }
        pos += width;
    }
    Some(out)
}

/// all reserved / padding fields of a well-formed EXT_FTI are zero
pub fn fti_reserved_zero(fec: u8, e: &Ext) -> bool {
    let Some((hel, layout)) = fti_layout(fec) else { return false };
    if e.het != HET_FTI || e.hel != hel || e.body.len() != 4 * hel as usize - 2 {
        return false;
    }
    let mut pos = 0;
    for (width, is_val) in layout {
        if !*is_val && read_bits(&e.body, pos, *width) != 0 {
            return false;
        }
        pos += width;
    }
    true
}

// ------------------------------------------------------------------------------------------------
// FEC payload id per FEC Encoding ID
// ------------------------------------------------------------------------------------------------

/// `(SBN, ESI, source block length)`; the source block length only exists for FEC Encoding ID 129
pub type Fpid = (u32, u32, Option<u32>);

/// FEC payload id length in octets
pub fn fpid_octets(fec: u8) -> usize {
    if fec == 129 {
        8
    } else {
        4
    }
}

/// field widths `(SBN, source block length, ESI)`; `m` only matters for FEC Encoding ID 2:
///   0, 1: SBN(16) ESI(16)    129: SBN(32) SBL(16) ESI(16)    5: SBN(24) ESI(8)
///   2: SBN(32-m) ESI(m)      6: SBN(8) ESI(24)
pub fn fpid_widths(fec: u8, m: u8) -> Option<(usize, usize, usize)> {
    match fec {
        0 | 1 => Some((16, 0, 16)),
        129 => Some((32, 16, 16)),
        5 => Some((24, 0, 8)),
        2 if m <= 32 => Some((32 - m as usize, 0, m as usize)),
        6 => Some((8, 0, 24)),
        _ => None,
    }
}

pub fn encode_fpid(fec: u8, m: u8, id: Fpid) -> Option<Vec<u8>> {
    let (ws, wl, we) = fpid_widths(fec, m)?;
    let sbl = if wl > 0 { id.2? } else { 0 };
    if !fits(id.0 as u128, ws) || !fits(sbl as u128, wl) || !fits(id.1 as u128, we) {
        return None;
    }
    let mut w = BitWriter::new();
    w.put(ws, id.0 as u128);
    w.put(wl, sbl as u128);
    w.put(we, id.1 as u128);
    Some(w.finish())
}

/// decode a FEC payload id given as exactly `fpid_octets(fec)` octets
pub fn decode_fpid(fec: u8, m: u8, p: &[u8]) -> Option<Fpid> {
    if !known_fec(fec) || p.len() != fpid_octets(fec) {
        return None;
    }
    let (ws, wl, we) = fpid_widths(fec, m)?;
    let sbn = read_bits(p, 0, ws) as u32;
    let sbl = if wl > 0 { Some(read_bits(p, ws, wl) as u32) } else { None };
    let esi = read_bits(p, ws + wl, we) as u32;
    Some((sbn, esi, sbl))
}

// ------------------------------------------------------------------------------------------------
// whole datagram
// ------------------------------------------------------------------------------------------------

/// Everything an independent FLUTE receiver reads from a datagram.  In FLUTE the codepoint carries
/// the FEC Encoding ID (RFC 6726 §5.1 / RFC 3926 §5.1.4).
#[derive(Clone, Debug)]
pub struct Decoded {
    pub lct: LctFields,
    /// header length in octets (= offset of the FEC payload id)
    pub hdr_octets: usize,
    /// first EXT_FDT `(version, instance id)`
    pub fdt: Option<(u8, u32)>,
    /// first EXT_CENC
    pub cenc: Option<u8>,
    /// first EXT_TIME, if it is well formed and carries SCT-High: `(NTP seconds, NTP fraction)`
    pub sct: Option<(u32, u32)>,
    /// an EXT_FTI is present
    pub fti_present: bool,
    /// values of the first EXT_FTI under the layout of scheme `cp` (`None`: absent, unknown scheme, wrong HEL)
    pub fti: Option<Vec<u64>>,
    /// the `m` used for the payload id of FEC Encoding ID 2 (from the EXT_FTI, 0 meaning the default 8; else 8)
    pub m: u8,
    /// FEC payload id (`None`: unknown scheme or datagram too short)
    pub pid: Option<Fpid>,
    /// offset of the payload (`None` when there is no complete FEC payload id)
    pub payload_offset: Option<usize>,
}

pub fn decode_packet(d: &[u8]) -> Option<Decoded> {
    let lct = decode_lct(d)?;
    let hdr_octets = 4 * lct.hdr_len as usize;
    let cp = lct.cp;
    let fdt = find_ext(&lct.exts, HET_FDT).and_then(dec_ext_fdt);
    let cenc = find_ext(&lct.exts, HET_CENC).and_then(dec_ext_cenc);
    let sct = find_ext(&lct.exts, HET_TIME).and_then(dec_ext_time_sct);
    let fti_ext = find_ext(&lct.exts, HET_FTI);
    let fti = if known_fec(cp) { fti_ext.and_then(|e| decode_fti(cp, e)) } else { None };
    let m = match &fti {
        Some(v) if cp == FEC_RS2M && v.len() >= 2 => {
            if v[1] == 0 {
                8
            } else {
                v[1] as u8
            }
        }
        _ => 8,
    };
    let n = fpid_octets(cp);
    let (pid, payload_offset) = if known_fec(cp) && d.len() >= hdr_octets + n {
        (decode_fpid(cp, m, &d[hdr_octets..hdr_octets + n]), Some(hdr_octets + n))
    } else {
        (None, None)
    };
    Some(Decoded { fti_present: fti_ext.is_some(), lct, hdr_octets, fdt, cenc, sct, fti, m, pid, payload_offset })
}

pub fn hex(b: &[u8]) -> String {
    if b.is_empty() {
        return "-".to_string();
    }
    let mut s = String::with_capacity(2 * b.len());
    for x in b {
        s.push(char::from_digit((*x >> 4) as u32, 16).unwrap());
        s.push(char::from_digit((*x & 15) as u32, 16).unwrap());
    }
    s
}

/// lowercase hex -> octets; `-` (or the empty string) is the empty octet string
pub fn unhex(s: &str) -> Option<Vec<u8>> {
    if s == "-" {
        return Some(Vec::new());
    }
    let b = s.as_bytes();
    if b.len() % 2 != 0 {
        return None;
    }
    let nib = |c: u8| match c {
        b'0'..=b'9' => Some(c - b'0'),
        b'a'..=b'f' => Some(c - b'a' + 10),
        _ => None,
    };
    let mut out = Vec::with_capacity(b.len() / 2);
    for p in b.chunks(2) {
        out.push(nib(p[0])? * 16 + nib(p[1])?);
    }
    Some(out)
}

fn opt<T>(v: &Option<T>, f: impl Fn(&T) -> String) -> String {
    match v {
        Some(x) => f(x),
        None => "-".to_string(),
    }
}

/// Canonical text form of a datagram, identical to `Flute.Spec.Wire.showDecode`:
/// `ok V= C= PSI= S= O= H= A= B= HL= CP= CCI= TSI= TOI= X=<het.hel.body;...|-> FDT=<v:id|-> CENC=<n|->
///  SCT=<secs:frac|-> FTI=<v,v,...|BAD|-> PID=<sbn,esi,sbl|->` or `ERR`.
pub fn show_decode(d: &[u8]) -> String {
    let Some(p) = decode_packet(d) else { return "ERR".to_string() };
    let f = &p.lct;
    let x = if f.exts.is_empty() {
        "-".to_string()
    } else {
        f.exts.iter().map(|e| format!("{}.{}.{}", e.het, e.hel, hex(&e.body))).collect::<Vec<_>>().join(";")
    };
    let fti = match (p.fti_present, &p.fti) {
        (false, _) => "-".to_string(),
        (true, None) => "BAD".to_string(),
        (true, Some(v)) => v.iter().map(|x| x.to_string()).collect::<Vec<_>>().join(","),
    };
    format!(
        "ok V={} C={} PSI={} S={} O={} H={} A={} B={} HL={} CP={} CCI={} TSI={} TOI={} X={} FDT={} CENC={} SCT={} FTI={} PID={}",
        f.v,
        f.c,
        f.psi,
        f.s,
        f.o,
        f.h,
        f.a,
        f.b,
        f.hdr_len,
        f.cp,
        f.cci,
        f.tsi,
        f.toi,
        x,
        opt(&p.fdt, |v| format!("{}:{}", v.0, v.1)),
        opt(&p.cenc, |v| v.to_string()),
        opt(&p.sct, |v| format!("{}:{}", v.0, v.1)),
        fti,
        opt(&p.pid, |v| format!("{},{},{}", v.0, v.1, opt(&v.2, |s| s.to_string()))),
    )
}

/// round-trip self test of this file (encoder vs decoder), used by engines at start-up
pub fn self_test() -> Result<(), String> {
    let f = LctFields {
        v: 1,
        c: 2,
        psi: 1,
        s: 1,
        o: 2,
        h: 1,
        res: 0,
        a: 1,
        b: 0,
        hdr_len: 0,
        cp: 5,
        cci: (1u128 << 95) | 7,
        tsi: (1u64 << 47) | 3,
        toi: (1u128 << 79) | 9,
        exts: vec![
            Ext::var(10, 2, vec![1, 2, 3, 4, 5, 6]),
            enc_ext_fdt(2, 0xABCDE),
            enc_ext_time_sct(3_900_000_000, 0x8000_0000),
            encode_fti(5, &[(1 << 48) - 1, 1424, 200, 255]).ok_or("encode_fti")?,
            enc_ext_cenc(3),
        ],
    };
    let mut bytes = encode_lct(&f);
    bytes.extend(encode_fpid(5, 8, (0xABCDEF, 0x12, None)).ok_or("encode_fpid")?);
    let p = decode_packet(&bytes).ok_or("decode_packet")?;
    let mut g = p.lct.clone();
    if g.hdr_len as usize != f.hdr_words() {
        return Err("HDR_LEN".into());
    }
    g.hdr_len = 0;
    if g != f {
        return Err(format!("LCT fields differ: {:?} vs {:?}", g, f));
    }
    if p.fdt != Some((2, 0xABCDE)) || p.cenc != Some(3) || p.sct != Some((3_900_000_000, 0x8000_0000)) {
        return Err("extensions differ".into());
    }
    if p.fti != Some(vec![(1 << 48) - 1, 1424, 200, 255]) || p.pid != Some((0xABCDEF, 0x12, None)) {
        return Err("FTI / payload id differ".into());
    }
    for fec in KNOWN_FEC {
        let widths = fti_value_widths(fec).unwrap();
        let vals: Vec<u64> = widths.iter().enumerate().map(|(i, w)| ((1u64 << (*w - 1)) | i as u64) & ((1u64 << *w) - 1)).collect();
        let e = encode_fti(fec, &vals).ok_or("encode_fti")?;
        if decode_fti(fec, &e) != Some(vals.clone()) || !fti_reserved_zero(fec, &e) || !e.is_valid() {
            return Err(format!("FTI round trip of scheme {}", fec));
        }
        for m in [1u8, 8, 16, 31] {
            let (ws, wl, we) = fpid_widths(fec, m).unwrap();
            let id: Fpid = (
                ((1u64 << ws) - 1) as u32,
                (((1u64 << we) - 1) as u32) & 0xFFFF_FFFE,
                if wl > 0 { Some(0x8001) } else { None },
            );
            let b = encode_fpid(fec, m, id).ok_or("encode_fpid")?;
            if decode_fpid(fec, m, &b) != Some(id) {
                return Err(format!("payload id round trip of scheme {}", fec));
            }
        }
    }
    for us in [0u64, 1, 15625, 999_999, 1_700_000_000_123_457, (u32::MAX as u64 - NTP_UNIX_OFFSET) * 1_000_000 + 999_999] {
        let (s, fr) = micros_to_ntp(us).ok_or("micros_to_ntp")?;
        if ntp_to_micros_floor(s, fr) != Some(us) {
            return Err(format!("NTP round trip of {}", us));
        }
    }
    Ok(())
}
