//! Generator family `sender-range` (property C06): the field-range hypotheses of the C06 theorems
//! (FDT instance id < 2^20, TSI < 2^48, Reed-Solomon max_n within its field; RaptorQ transfer length
//! < 2^40) checked against what a REAL `flute::sender::Sender`, configured through the public API at and
//! beyond those ranges, actually emits.  Every packet is read with the independent decoder `rfcdec`.
//! Oracle-only, plus a few `wire parse` / `wire rfc` ops so the Lean model sees the bytes.  EVERY real-code
//! call happens inside `Engine::exec` of the op `wire session sender-range <case> <params>` (model answer `ok`,
//! `PANIC` if flute panics; watchdog-covered, replayable with `eng-wire exec`):
//!   fdt-start-id <start> <rfc3926 0|1> <two instances 0|1> | tsi <tsi> | rs <fec> <B> <parity>
//! the generator only emits the ops and reads the packets they stashed.  Each class is NARROW - it fires only for its own input class, one line per session, and is
//! silent for a sender that either encodes the configured value or refuses the configuration:
//!   C06:sender-fdt-start-id-ge-2^20   Config.fdt_start_id >= 2^20: EXT_FDT id != start & 0xFFFFF, version
//!                                     damaged, or the session is not delivered by a real Receiver
//!   C06:sender-fdt-id                 the same checks for start ids < 2^20 (control)
//!   C06:sender-tsi-ge-2^48            Sender::new(tsi >= 2^48): the TSI on the wire is not the session's TSI
//!   C06:sender-tsi                    the same for tsi < 2^48 (control)
//!   C06:sender-rs28-maxn-wrap         RS GF(2^8) OTI with B > 255 or B + parity > 255 accepted: EXT_FTI B / max_n wrapped
//!   C06:sender-rs28us-maxn-wrap       FEC 129 OTI with B + parity >= 2^16 accepted: EXT_FTI max_n wrapped
//!   C06:sender-rs-fti                 the same checks for in-range Reed-Solomon OTIs (control)
use crate::generator::G;
use crate::rewidth::{endpoint, run_rx, t0, Stream};
use crate::Stash;
use harness_core::Oracle;
use crate::rfcdec as rd;
use flute::core::Oti;
use flute::sender::{self, ObjectDesc, Sender, TransferConfig};
use flute::verif_hooks as hk;
use harness_core::{guarded, hex};
use std::panic::AssertUnwindSafe;
use std::time::{Duration, SystemTime};

fn url(name: &str) -> url::Url {
    url::Url::parse(&format!("file:///sender-range/{}", name)).unwrap()
}

fn content(n: usize, salt: u8) -> Vec<u8> {
    (0..n).map(|i| (i as u8).wrapping_mul(31).wrapping_add(salt)).collect()
}

/// read the sender until it has nothing left (FDT carousel included); `None` if it never finishes.
/// Panics propagate to the caller's `guarded`.
fn drain(snd: &mut Sender, now: &mut SystemTime) -> Option<Stream> {
    {
        let mut out: Stream = Vec::new();
        let mut idle = 0;
        while out.len() < 5000 {
            match snd.read(*now) {
                Some(d) => {
                    out.push((d, *now));
                    *now += Duration::from_millis(1);
                    idle = 0;
                }
                None => {
                    if snd.nb_objects() == 0 {
                        break;
                    }
                    idle += 1;
                    if idle > 500 {
                        return None;
                    }
                    *now += Duration::from_millis(50);
                }
            }
        }
        Some(out)
    }
}

fn buffer_object(name: &str, data: Vec<u8>) -> Option<Box<ObjectDesc>> {
    ObjectDesc::create_from_buffer(data, "application/octet-stream", &url(name), true, TransferConfig::default()).ok()
}

/// the model sees the first FDT packet and the first object packet of the session
fn show_to_model(g: &mut G, stream: &[Vec<u8>]) {
    let first_fdt = stream.iter().find(|d| rd::decode_lct(d).map_or(false, |f| f.toi == 0));
    let first_obj = stream.iter().find(|d| rd::decode_lct(d).map_or(true, |f| f.toi != 0));
    for d in first_fdt.into_iter().chain(first_obj) {
        let h = hex(d);
        g.step(&format!("wire parse {}", h));
        g.step(&format!("wire rfc {}", h));
    }
}

fn add(st: &mut Stash, key: &str, n: usize) {
    st.note(key, n as u64);
}

fn stash_stream(st: &mut Stash, stream: &Stream) {
    st.produced = true;
    st.stream = stream.iter().map(|(d, _)| d.clone()).collect();
}

/// `Err(location)` = flute panicked
type Done = Result<(), String>;

// ---------------------------------------------------------------------------------------------------
// 1. Config.fdt_start_id
// ---------------------------------------------------------------------------------------------------
fn fdt_start_id(o: &mut Oracle, st: &mut Stash, start: u32, rfc3926: bool, two_instances: bool) -> Done {
    let class = if start >= (1 << 20) { "C06:sender-fdt-start-id-ge-2^20" } else { "C06:sender-fdt-id" };
    let what = format!("Config.fdt_start_id={:#x} profile={}", start, if rfc3926 { "RFC3926" } else { "RFC6726" });
    let tsi = 7;
    let config = sender::Config {
        fdt_start_id: start,
        profile: if rfc3926 { sender::Profile::RFC3926 } else { sender::Profile::RFC6726 },
        ..Default::default()
    };
    let oti = Oti::new_no_code(64, 16);
    let objs: Vec<Vec<u8>> = vec![content(300, 1), content(100, 2)];
    let r = guarded(AssertUnwindSafe(|| -> Option<(Stream, usize)> {
        let mut snd = Sender::new(endpoint(), tsi, &oti, &config);
        let mut now = t0();
        snd.add_object(0, buffer_object("a.bin", objs[0].clone())?).ok()?;
        snd.publish(now).ok()?;
        let mut stream = drain(&mut snd, &mut now)?;
        let first_len = stream.len();
        if two_instances {
            snd.add_object(0, buffer_object("b.bin", objs[1].clone())?).ok()?;
            snd.publish(now).ok()?;
            stream.extend(drain(&mut snd, &mut now)?);
        }
        Some((stream, first_len))
    }));
    let (stream, first_len) = match r? {
        Some(x) => x,
        None => {
            add(st, "sender-range:fdt-start-id:session-refused-or-failed", 1);
            return Ok(());
        }
    };
    stash_stream(st, &stream);
    add(st, "sender-range:fdt-start-id:sessions", 1);
    let want_v: u8 = if rfc3926 { 1 } else { 2 };
    let ids: Vec<u32> = (0..if two_instances { 2u32 } else { 1 }).map(|k| start.wrapping_add(k) & 0xFFFFF).collect();
    let mut bad: Vec<String> = Vec::new();
    let mut nb_fdt = 0;
    let mut seen_last = false;
    for (i, (d, _)) in stream.iter().enumerate() {
        let Some(p) = rd::decode_packet(d) else {
            bad.push(format!("packet {} not decodable: {}", i, hex(d)));
            continue;
        };
        if p.lct.toi != 0 {
            continue;
        }
        nb_fdt += 1;
        // packets of the first reading carry instance 0, later ones instance 0 (carousel) or 1
        let allowed: &[u32] = if i < first_len { &ids[..1] } else { &ids[..] };
        match p.fdt {
            Some((v, id)) if v == want_v && allowed.contains(&id) => {
                if id == *ids.last().unwrap() {
                    seen_last = true;
                }
            }
            other => bad.push(format!("TOI-0 packet {} carries EXT_FDT (version, id) = {:?}, expected version {} id in {:?}: {}", i, other, want_v, allowed, crate::short(&hex(d)))),
        }
    }
    add(st, "sender-range:fdt-start-id:toi0-packets", nb_fdt);
    if nb_fdt == 0 || !seen_last {
        bad.push(format!("no TOI-0 packet carries the latest FDT instance id {:?} ({} TOI-0 packets)", ids.last(), nb_fdt));
    }
    // delivery through a real receiver
    let rx = run_rx(tsi, &stream);
    let nobj = if two_instances { 2 } else { 1 };
    let mut got: Vec<&Vec<u8>> = rx.objs.iter().filter(|o| o.complete && !o.error).map(|o| &o.data).collect();
    let mut sent: Vec<&Vec<u8>> = objs[..nobj].iter().collect();
    got.sort();
    sent.sort();
    if got != sent {
        bad.push(format!("a real Receiver delivers {} of {} objects (FDT instances received: {}, push errors: {}, panic: {:?})", got.len(), nobj, rx.fdts.len(), rx.push_errors, rx.panic));
    }
    if !bad.is_empty() {
        add(st, &format!("sender-range:fires:{}", class), bad.len());
        o.fail(class, &format!("{}: {} problem(s), first: {}", what, bad.len(), bad[0]));
    } else {
        st.nontrivial.push(format!("sender-range:fdt:{}:{}:{}", start, rfc3926, two_instances));
    }
    match rx.panic {
        Some(loc) => Err(loc),
        None => Ok(()),
    }
}

// ---------------------------------------------------------------------------------------------------
// 2. TSI
// ---------------------------------------------------------------------------------------------------
fn tsi_range(o: &mut Oracle, st: &mut Stash, tsi: u64) -> Done {
    let class = if tsi >= (1 << 48) { "C06:sender-tsi-ge-2^48" } else { "C06:sender-tsi" };
    let oti = Oti::new_no_code(64, 16);
    let r = guarded(AssertUnwindSafe(|| -> Option<Stream> {
        let mut snd = Sender::new(endpoint(), tsi, &oti, &sender::Config::default());
        let mut now = t0();
        snd.add_object(0, buffer_object("t.bin", content(200, 3))?).ok()?;
        snd.publish(now).ok()?;
        drain(&mut snd, &mut now)
    }));
    let stream = match r? {
        Some(x) => x,
        None => {
            add(st, "sender-range:tsi:session-refused-or-failed", 1);
            return Ok(());
        }
    };
    stash_stream(st, &stream);
    add(st, "sender-range:tsi:sessions", 1);
    add(st, "sender-range:tsi:packets", stream.len());
    let wrong: Vec<&Vec<u8>> = stream.iter().map(|(d, _)| d).filter(|d| rd::decode_lct(d).map_or(true, |f| f.tsi != tsi)).collect();
    if let Some(d) = wrong.first() {
        add(st, &format!("sender-range:fires:{}", class), wrong.len());
        o.fail(
            class,
            &format!(
                "Sender::new(tsi={}) : {} of {} packets do not carry the session's TSI, e.g. the independent decoder reads TSI={:?} ({} bits) in {}",
                tsi,
                wrong.len(),
                stream.len(),
                rd::decode_lct(d).map(|f| f.tsi),
                rd::decode_lct(d).map_or(0, |f| f.tsi_bits()),
                crate::short(&hex(d))
            ),
        );
    } else {
        st.nontrivial.push(format!("sender-range:tsi:{}", tsi));
    }
    Ok(())
}

// ---------------------------------------------------------------------------------------------------
// 3. Reed-Solomon B / max_n
// ---------------------------------------------------------------------------------------------------
fn rs_range(o: &mut Oracle, st: &mut Stash, fec: u8, b: u32, parity: u32) -> Done {
    let limit: u64 = if fec == 5 { 255 } else { 65535 };
    let in_range = b as u64 <= limit && b as u64 + parity as u64 <= limit;
    let class = match (in_range, fec) {
        (true, _) => "C06:sender-rs-fti",
        (false, 5) => "C06:sender-rs28-maxn-wrap",
        (false, _) => "C06:sender-rs28us-maxn-wrap",
    };
    let e: u16 = 64;
    let r = guarded(AssertUnwindSafe(|| -> Option<Stream> {
        let oti = hk::make_oti(fec, 0, b, e, parity, None, true)?;
        let mut snd = Sender::new(endpoint(), 9, &oti, &sender::Config::default());
        let mut now = t0();
        // a 1-symbol object
        snd.add_object(0, buffer_object("rs.bin", content(e as usize, 4))?).ok()?;
        snd.publish(now).ok()?;
        drain(&mut snd, &mut now)
    }));
    let stream = match r? {
        Some(x) => x,
        None => {
            // refusing an OTI that does not fit the EXT_FTI is the correct behaviour
            add(st, &format!("sender-range:rs:fec{}-B{}-p{}:refused-by-the-sender", fec, b, parity), 1);
            return Ok(());
        }
    };
    stash_stream(st, &stream);
    add(st, &format!("sender-range:rs:fec{}-B{}-p{}:packets-produced", fec, b, parity), 1);
    let mut nb_fti = 0;
    let mut wrong: Vec<String> = Vec::new();
    for (d, _) in &stream {
        let Some(p) = rd::decode_packet(d) else {
            wrong.push(format!("sender packet not decodable: {}", crate::short(&hex(d))));
            continue;
        };
        if !p.fti_present {
            continue;
        }
        nb_fti += 1;
        // diagram order: 5 -> [L, E, B, max_n]; 129 -> [L, inst, E, B, max_n]
        let (gb, gn) = match (&p.fti, fec) {
            (Some(v), 5) => (v[2], v[3]),
            (Some(v), _) => (v[3], v[4]),
            (None, _) => (u64::MAX, u64::MAX),
        };
        if gb != b as u64 || gn != b as u64 + parity as u64 {
            wrong.push(format!("EXT_FTI carries B={} max_n={} in {}", gb, gn, crate::short(&hex(d))));
        }
    }
    add(st, "sender-range:rs:packets-with-fti", nb_fti);
    if nb_fti == 0 {
        o.fail("C06:harness-bug", &format!("{} sender packets, none with EXT_FTI (FDT packets always carry one)", stream.len()));
    }
    if let Some(w) = wrong.first() {
        add(st, &format!("sender-range:fires:{}", class), wrong.len());
        o.fail(
            class,
            &format!("sender accepts the FEC {} OTI B={} parity={} (max_n={}): {} of {} EXT_FTI do not carry it, e.g. {}", fec, b, parity, b as u64 + parity as u64, wrong.len(), nb_fti, w),
        );
    } else if nb_fti > 0 {
        st.nontrivial.push(format!("sender-range:rs:{}:{}:{}", fec, b, parity));
    }
    Ok(())
}

/// `wire session sender-range <case> <params>`
pub(crate) fn exec(t: &[&str], o: &mut Oracle, st: &mut Stash) -> Option<String> {
    let n = |s: &str, bits: u32| crate::nat_lt(s, bits);
    let done = match (*t.first()?, t.len()) {
        ("fdt-start-id", 4) => fdt_start_id(o, st, n(t[1], 32)? as u32, crate::b01(t[2])?, crate::b01(t[3])?),
        ("tsi", 2) => tsi_range(o, st, n(t[1], 64)? as u64),
        ("rs", 4) if t[1] == "5" || t[1] == "129" => rs_range(o, st, n(t[1], 8)? as u8, n(t[2], 32)? as u32, n(t[3], 32)? as u32),
        _ => return None,
    };
    Some(match done {
        Ok(()) => "ok".to_string(),
        Err(loc) => {
            st.note(&format!("sender-range:panic:{}", loc), 1);
            "PANIC".to_string()
        }
    })
}

/// generator side: the op, then the statistics and the packets it stashed
fn session(g: &mut G, case: &str, params: &str) {
    g.ctx.case(&format!("sender-range/{}-{}", case, params.replace(' ', "-")));
    g.step(&format!("wire session sender-range {} {}", case, params));
    let (stream, notes, keys) = {
        let mut st = g.stash.borrow_mut();
        (std::mem::take(&mut st.stream), std::mem::take(&mut st.notes), std::mem::take(&mut st.nontrivial))
    };
    for (k, n) in notes {
        *g.ctx.dist.entry(k).or_insert(0) += n;
    }
    for k in keys {
        g.ctx.nontrivial(&k);
    }
    show_to_model(g, &stream);
}

pub fn run(g: &mut G) {
    for (start, rfc3926, two) in [
        (1u32, false, false),
        (1, true, true),
        (0xFFFFF, false, true),
        (0x100000, false, false),
        (0x0100_0005, false, true),
        (0x0100_0005, true, false),
        (0xFFFF_FFFF, false, true),
    ] {
        session(g, "fdt-start-id", &format!("{} {} {}", start, rfc3926 as u8, two as u8));
    }
    for tsi in [(1u64 << 48) - 1, 1 << 48, (1 << 48) + 5, u64::MAX] {
        session(g, "tsi", &tsi.to_string());
    }
    for (fec, b, parity) in [(5u8, 200u32, 55u32), (5, 200, 56), (5, 255, 1), (5, 300, 4), (129, 65534, 1), (129, 65535, 1), (129, 40000, 30000), (129, 70000, 2)] {
        session(g, "rs", &format!("{} {} {}", fec, b, parity));
    }
    // RaptorQ transfer length around 2^40 at the hook level only (model correspondence; `C06:fti-ne-rfc-6` of the
    // `pkt` op where tl < 2^40): the largest RaptorQ object flute's sender accepts is below 2^40 (Z <= 255 blocks
    // of <= 56403 symbols of <= 65535 bytes), so there is no sender-level case
    g.ctx.case("sender-range/raptorq-tl-hook");
    for tl in [(1u64 << 40) - 1, 1 << 40, (1 << 40) + 9, (1 << 44) - 1] {
        let obs = g.step(&format!("wire pkt 6 0 {} {} 0 rq:1:1:1 1 0 11 1 - 0 0 0 0 - 0 {} 0 0 -", 1u32 << 24, 65535, tl));
        if let Some(h) = obs.strip_prefix("ok ") {
            let h = h.to_string();
            g.step(&format!("wire parse {}", h));
            g.step(&format!("wire rfc {}", h));
        }
    }
}
