//! Generator family `sender-range` (property C06): the field-range hypotheses of the C06 theorems
//! (FDT instance id < 2^20, TSI < 2^48, Reed-Solomon max_n within its field, RaptorQ transfer length
//! < 2^40) checked against what a REAL `flute::sender::Sender`, configured through the public API at and
//! beyond those ranges, actually emits.  Every packet is read with the independent decoder `rfcdec`.
//! Oracle-only (`ctx.oracle_fail`), plus a few `wire parse` / `wire rfc` ops so the Lean model sees the
//! bytes.  Each class is NARROW - it fires only for its own input class, one line per session, and is
//! silent for a sender that either encodes the configured value or refuses the configuration:
//!   C06:sender-fdt-start-id-ge-2^20   Config.fdt_start_id >= 2^20: EXT_FDT id != start & 0xFFFFF, version
//!                                     damaged, or the session is not delivered by a real Receiver
//!   C06:sender-fdt-id                 the same checks for start ids < 2^20 (control)
//!   C06:sender-tsi-ge-2^48            Sender::new(tsi >= 2^48): the TSI on the wire is not the session's TSI
//!   C06:sender-tsi                    the same for tsi < 2^48 (control)
//!   C06:sender-rs28-maxn-wrap         RS GF(2^8) OTI with B > 255 or B + parity > 255 accepted: EXT_FTI B / max_n wrapped
//!   C06:sender-rs28us-maxn-wrap       FEC 129 OTI with B + parity >= 2^16 accepted: EXT_FTI max_n wrapped
//!   C06:sender-rs-fti                 the same checks for in-range Reed-Solomon OTIs (control)
//!   C06:raptorq-tl-ge-2^40            the sender accepts a RaptorQ object of transfer length >= 2^40 whose
//!                                     EXT_FTI (40-bit F) cannot carry it
//!   C06:raptorq-tl                    RaptorQ transfer length 2^40 - 1 not carried exactly (control)
use crate::generator::G;
use crate::rewidth::{endpoint, run_rx, t0, Stream};
use crate::rfcdec as rd;
use flute::core::lct::Cenc;
use flute::core::Oti;
use flute::sender::{self, ObjectDesc, Sender, TransferConfig};
use flute::verif_hooks as hk;
use harness_core::{guarded, hex};
use std::panic::AssertUnwindSafe;
use std::time::{Duration, SystemTime};

fn url(name: &str) -> url::Url {
    url::Url::parse(&format!("file:///sender-range/{}", name)).unwrap()
}

fn content(n: usize, salt: u8) -> Vec<u8> {
    (0..n).map(|i| (i as u8).wrapping_mul(31).wrapping_add(salt)).collect()
}

/// read the sender until it has nothing left (FDT carousel included); `None` on a sender panic / hang
fn drain(snd: &mut Sender, now: &mut SystemTime) -> Option<Stream> {
    guarded(AssertUnwindSafe(|| {
        let mut out: Stream = Vec::new();
        let mut idle = 0;
        while out.len() < 5000 {
            match snd.read(*now) {
                Some(d) => {
                    out.push((d, *now));
                    *now += Duration::from_millis(1);
                    idle = 0;
                }
                None => {
                    if snd.nb_objects() == 0 {
                        break;
                    }
                    idle += 1;
                    if idle > 500 {
                        return None;
                    }
                    *now += Duration::from_millis(50);
                }
            }
        }
        Some(out)
    }))
    .ok()
    .flatten()
}

fn buffer_object(name: &str, data: Vec<u8>) -> Option<Box<ObjectDesc>> {
    ObjectDesc::create_from_buffer(data, "application/octet-stream", &url(name), true, TransferConfig::default()).ok()
}

/// the model sees the first FDT packet and the first object packet of the session
fn show_to_model(g: &mut G, stream: &Stream) {
    let first_fdt = stream.iter().find(|(d, _)| rd::decode_lct(d).map_or(false, |f| f.toi == 0));
    let first_obj = stream.iter().find(|(d, _)| rd::decode_lct(d).map_or(true, |f| f.toi != 0));
    for (d, _) in first_fdt.into_iter().chain(first_obj) {
        let h = hex(d);
        g.step(&format!("wire parse {}", h));
        g.step(&format!("wire rfc {}", h));
    }
}

fn add(g: &mut G, key: &str, n: usize) {
    *g.ctx.dist.entry(key.to_string()).or_insert(0) += n as u64;
}

// ---------------------------------------------------------------------------------------------------
// 1. Config.fdt_start_id
// ---------------------------------------------------------------------------------------------------
fn fdt_start_id(g: &mut G, start: u32, rfc3926: bool, two_instances: bool) {
    g.ctx.case(&format!("sender-range/fdt-start-id-{:#x}{}{}", start, if rfc3926 { "-rfc3926" } else { "" }, if two_instances { "-2" } else { "" }));
    let class = if start >= (1 << 20) { "C06:sender-fdt-start-id-ge-2^20" } else { "C06:sender-fdt-id" };
    let what = format!("Config.fdt_start_id={:#x} profile={}", start, if rfc3926 { "RFC3926" } else { "RFC6726" });
    let tsi = 7;
    let config = sender::Config {
        fdt_start_id: start,
        profile: if rfc3926 { sender::Profile::RFC3926 } else { sender::Profile::RFC6726 },
        ..Default::default()
    };
    let oti = Oti::new_no_code(64, 16);
    let objs: Vec<Vec<u8>> = vec![content(300, 1), content(100, 2)];
    let r = guarded(AssertUnwindSafe(|| -> Option<(Stream, usize)> {
        let mut snd = Sender::new(endpoint(), tsi, &oti, &config);
        let mut now = t0();
        snd.add_object(0, buffer_object("a.bin", objs[0].clone())?).ok()?;
        snd.publish(now).ok()?;
        let mut stream = drain(&mut snd, &mut now)?;
        let first_len = stream.len();
        if two_instances {
            snd.add_object(0, buffer_object("b.bin", objs[1].clone())?).ok()?;
            snd.publish(now).ok()?;
            stream.extend(drain(&mut snd, &mut now)?);
        }
        Some((stream, first_len))
    }));
    let (stream, first_len) = match r {
        Ok(Some(x)) => x,
        _ => {
            g.ctx.count("sender-range:fdt-start-id:session-refused-or-failed");
            return;
        }
    };
    g.ctx.count("sender-range:fdt-start-id:sessions");
    let want_v: u8 = if rfc3926 { 1 } else { 2 };
    let ids: Vec<u32> = (0..if two_instances { 2u32 } else { 1 }).map(|k| start.wrapping_add(k) & 0xFFFFF).collect();
    let mut bad: Vec<String> = Vec::new();
    let mut nb_fdt = 0;
    let mut seen_last = false;
    for (i, (d, _)) in stream.iter().enumerate() {
        let Some(p) = rd::decode_packet(d) else {
            bad.push(format!("packet {} not decodable: {}", i, hex(d)));
            continue;
        };
        if p.lct.toi != 0 {
            continue;
        }
        nb_fdt += 1;
        // packets of the first reading carry instance 0, later ones instance 0 (carousel) or 1
        let allowed: &[u32] = if i < first_len { &ids[..1] } else { &ids[..] };
        match p.fdt {
            Some((v, id)) if v == want_v && allowed.contains(&id) => {
                if id == *ids.last().unwrap() {
                    seen_last = true;
                }
            }
            other => bad.push(format!("TOI-0 packet {} carries EXT_FDT (version, id) = {:?}, expected version {} id in {:?}: {}", i, other, want_v, allowed, crate::short(&hex(d)))),
        }
    }
    add(g, "sender-range:fdt-start-id:toi0-packets", nb_fdt);
    if nb_fdt == 0 || !seen_last {
        bad.push(format!("no TOI-0 packet carries the latest FDT instance id {:?} ({} TOI-0 packets)", ids.last(), nb_fdt));
    }
    // delivery through a real receiver
    let rx = run_rx(tsi, &stream);
    let nobj = if two_instances { 2 } else { 1 };
    let mut got: Vec<&Vec<u8>> = rx.objs.iter().filter(|o| o.complete && !o.error).map(|o| &o.data).collect();
    let mut sent: Vec<&Vec<u8>> = objs[..nobj].iter().collect();
    got.sort();
    sent.sort();
    if rx.panic.is_some() || got != sent {
        bad.push(format!("a real Receiver delivers {} of {} objects (FDT instances received: {}, push errors: {}, panic: {:?})", got.len(), nobj, rx.fdts.len(), rx.push_errors, rx.panic));
    }
    if !bad.is_empty() {
        add(g, &format!("sender-range:fires:{}", class), bad.len());
        g.ctx.oracle_fail(class, &format!("{}: {} problem(s), first: {}", what, bad.len(), bad[0]));
    } else {
        g.ctx.nontrivial(&format!("sender-range:fdt:{}:{}:{}", start, rfc3926, two_instances));
    }
    show_to_model(g, &stream);
}

// ---------------------------------------------------------------------------------------------------
// 2. TSI
// ---------------------------------------------------------------------------------------------------
fn tsi_range(g: &mut G, tsi: u64) {
    g.ctx.case(&format!("sender-range/tsi-{:#x}", tsi));
    let class = if tsi >= (1 << 48) { "C06:sender-tsi-ge-2^48" } else { "C06:sender-tsi" };
    let oti = Oti::new_no_code(64, 16);
    let r = guarded(AssertUnwindSafe(|| -> Option<Stream> {
        let mut snd = Sender::new(endpoint(), tsi, &oti, &sender::Config::default());
        let mut now = t0();
        snd.add_object(0, buffer_object("t.bin", content(200, 3))?).ok()?;
        snd.publish(now).ok()?;
        drain(&mut snd, &mut now)
    }));
    let stream = match r {
        Ok(Some(x)) => x,
        _ => {
            g.ctx.count("sender-range:tsi:session-refused-or-failed");
            return;
        }
    };
    g.ctx.count("sender-range:tsi:sessions");
    add(g, "sender-range:tsi:packets", stream.len());
    let wrong: Vec<&Vec<u8>> = stream.iter().map(|(d, _)| d).filter(|d| rd::decode_lct(d).map_or(true, |f| f.tsi != tsi)).collect();
    if let Some(d) = wrong.first() {
        add(g, &format!("sender-range:fires:{}", class), wrong.len());
        g.ctx.oracle_fail(
            class,
            &format!(
                "Sender::new(tsi={}) : {} of {} packets do not carry the session's TSI, e.g. the independent decoder reads TSI={:?} ({} bits) in {}",
                tsi,
                wrong.len(),
                stream.len(),
                rd::decode_lct(d).map(|f| f.tsi),
                rd::decode_lct(d).map_or(0, |f| f.tsi_bits()),
                crate::short(&hex(d))
            ),
        );
    } else {
        g.ctx.nontrivial(&format!("sender-range:tsi:{}", tsi));
    }
    show_to_model(g, &stream);
}

// ---------------------------------------------------------------------------------------------------
// 3. Reed-Solomon B / max_n
// ---------------------------------------------------------------------------------------------------
fn rs_range(g: &mut G, fec: u8, b: u32, parity: u32) {
    g.ctx.case(&format!("sender-range/rs-fec{}-B{}-p{}", fec, b, parity));
    let limit: u64 = if fec == 5 { 255 } else { 65535 };
    let in_range = b as u64 <= limit && b as u64 + parity as u64 <= limit;
    let class = match (in_range, fec) {
        (true, _) => "C06:sender-rs-fti",
        (false, 5) => "C06:sender-rs28-maxn-wrap",
        (false, _) => "C06:sender-rs28us-maxn-wrap",
    };
    let e: u16 = 64;
    let Some(oti) = hk::make_oti(fec, 0, b, e, parity, None, true) else { return };
    let r = guarded(AssertUnwindSafe(|| -> Option<Stream> {
        let mut snd = Sender::new(endpoint(), 9, &oti, &sender::Config::default());
        let mut now = t0();
        // a 1-symbol object
        snd.add_object(0, buffer_object("rs.bin", content(e as usize, 4))?).ok()?;
        snd.publish(now).ok()?;
        drain(&mut snd, &mut now)
    }));
    let stream = match r {
        Ok(Some(x)) => x,
        _ => {
            // refusing an OTI that does not fit the EXT_FTI is the correct behaviour
            g.ctx.count(&format!("sender-range:rs:fec{}-B{}-p{}:refused-by-the-sender", fec, b, parity));
            return;
        }
    };
    g.ctx.count(&format!("sender-range:rs:fec{}-B{}-p{}:packets-produced", fec, b, parity));
    let mut nb_fti = 0;
    let mut wrong: Vec<String> = Vec::new();
    for (d, _) in &stream {
        let Some(p) = rd::decode_packet(d) else { continue };
        if !p.fti_present {
            continue;
        }
        nb_fti += 1;
        // diagram order: 5 -> [L, E, B, max_n]; 129 -> [L, inst, E, B, max_n]
        let (gb, gn) = match (&p.fti, fec) {
            (Some(v), 5) => (v[2], v[3]),
            (Some(v), _) => (v[3], v[4]),
            (None, _) => (u64::MAX, u64::MAX),
        };
        if gb != b as u64 || gn != b as u64 + parity as u64 {
            wrong.push(format!("EXT_FTI carries B={} max_n={} in {}", gb, gn, crate::short(&hex(d))));
        }
    }
    add(g, "sender-range:rs:packets-with-fti", nb_fti);
    if let Some(w) = wrong.first() {
        add(g, &format!("sender-range:fires:{}", class), wrong.len());
        g.ctx.oracle_fail(
            class,
            &format!("sender accepts the FEC {} OTI B={} parity={} (max_n={}): {} of {} EXT_FTI do not carry it, e.g. {}", fec, b, parity, b as u64 + parity as u64, wrong.len(), nb_fti, w),
        );
    } else if nb_fti > 0 {
        g.ctx.nontrivial(&format!("sender-range:rs:{}:{}:{}", fec, b, parity));
    }
    show_to_model(g, &stream);
}

// ---------------------------------------------------------------------------------------------------
// 4. RaptorQ transfer length
// ---------------------------------------------------------------------------------------------------

/// an object of `len` bytes that is never materialised (zeros)
#[derive(Debug)]
struct Sparse {
    len: u64,
    pos: u64,
}

impl std::io::Read for Sparse {
    fn read(&mut self, buf: &mut [u8]) -> std::io::Result<usize> {
        let n = (buf.len() as u64).min(self.len - self.pos.min(self.len)) as usize;
        buf[..n].fill(0);
        self.pos += n as u64;
        Ok(n)
    }
}

impl std::io::Seek for Sparse {
    fn seek(&mut self, p: std::io::SeekFrom) -> std::io::Result<u64> {
        let np = match p {
            std::io::SeekFrom::Start(x) => x as i128,
            std::io::SeekFrom::End(x) => self.len as i128 + x as i128,
            std::io::SeekFrom::Current(x) => self.pos as i128 + x as i128,
        };
        if np < 0 {
            return Err(std::io::Error::new(std::io::ErrorKind::InvalidInput, "seek before start"));
        }
        self.pos = np as u64;
        Ok(self.pos)
    }
}

fn raptorq_tl(g: &mut G, tl: u64) {
    g.ctx.case(&format!("sender-range/raptorq-tl-{:#x}", tl));
    let class = if tl >= (1 << 40) { "C06:raptorq-tl-ge-2^40" } else { "C06:raptorq-tl" };
    // B and E large enough for <= 255 source blocks, so that only the transfer-length cap can refuse
    let (b, e) = (1u32 << 24, 65535u16);
    let Some(oti) = hk::make_oti(6, 0, b, e, 0, Some((1, 1, 1, 1)), true) else { return };
    // does the real sender accept an object of this transfer length ?  (nothing is read from the source)
    let accepted = guarded(AssertUnwindSafe(|| -> Option<bool> {
        let mut snd = Sender::new(endpoint(), 11, &oti, &sender::Config::default());
        let desc = ObjectDesc::create_from_stream(Box::new(Sparse { len: tl, pos: 0 }), "application/octet-stream", &url("huge.bin"), false, TransferConfig { cenc: Cenc::Null, ..Default::default() }).ok()?;
        if desc.transfer_length != tl {
            return None;
        }
        Some(snd.add_object(0, desc).is_ok())
    }));
    let accepted = match accepted {
        Ok(Some(a)) => a,
        _ => {
            g.ctx.count("sender-range:raptorq-tl:object-not-constructible");
            return;
        }
    };
    g.ctx.count(&format!("sender-range:raptorq-tl:{:#x}:{}", tl, if accepted { "accepted-by-the-sender" } else { "refused-by-the-sender" }));
    // what the packet builder puts on the wire for this object (the object packets of the real session would
    // need a 1 TB source): EXT_FTI of an in-band-FTI object packet
    let op = format!("wire pkt 6 0 {} {} 0 rq:1:1:1 1 0 11 1 - 0 0 0 0 - 0 {} 0 0 -", b, e, tl);
    let obs = g.step(&op);
    let wire_tl = obs.strip_prefix("ok ").and_then(rd::unhex).and_then(|d| rd::decode_packet(&d)).and_then(|p| p.fti).map(|v| v[0]);
    if accepted && wire_tl != Some(tl) {
        add(g, &format!("sender-range:fires:{}", class), 1);
        g.ctx.oracle_fail(
            class,
            &format!(
                "Sender::add_object accepts a RaptorQ object of transfer length {} (Oti::max_transfer_length() = {}), but the 40-bit F field of its EXT_FTI carries {:?} :: op `{}` -> `{}`",
                tl,
                oti.max_transfer_length(),
                wire_tl,
                op,
                obs
            ),
        );
    } else {
        g.ctx.nontrivial(&format!("sender-range:raptorq-tl:{}:{}", tl, accepted));
    }
    if let Some(h) = obs.strip_prefix("ok ") {
        let h = h.to_string();
        g.step(&format!("wire parse {}", h));
        g.step(&format!("wire rfc {}", h));
    }
}

pub fn run(g: &mut G) {
    for (start, rfc3926, two) in [
        (1u32, false, false),
        (1, true, true),
        (0xFFFFF, false, true),
        (0x100000, false, false),
        (0x0100_0005, false, true),
        (0x0100_0005, true, false),
        (0xFFFF_FFFF, false, true),
    ] {
        fdt_start_id(g, start, rfc3926, two);
    }
    for tsi in [(1u64 << 48) - 1, 1 << 48, (1 << 48) + 5, u64::MAX] {
        tsi_range(g, tsi);
    }
    for (fec, b, parity) in [(5u8, 200u32, 55u32), (5, 200, 56), (5, 255, 1), (5, 300, 4), (129, 65534, 1), (129, 65535, 1), (129, 40000, 30000), (129, 70000, 2)] {
        rs_range(g, fec, b, parity);
    }
    for tl in [(1u64 << 40) - 1, 1 << 40, (1 << 40) + 9, (1 << 44) - 1] {
        raptorq_tl(g, tl);
    }
}
