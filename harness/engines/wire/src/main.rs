//! Engine `wire` (properties C06 wire format + C04 parser totality on the ALC/LCT decoding side).
//!
//! Runs the REAL flute code (`push_lct_header`, `new_alc_pkt`, `parse_alc_pkt`, `get_ext`,
//! `parse_payload_id`, `get_sender_current_time`, NTP conversions) in-process; the observation lines are
//! compared with the Lean model driver `drv_wire` (protocol: header of lean/FluteModel/Drv/Wire.lean).
//! The oracle is the property itself, evaluated against the stand-alone RFC decoder/encoder `rfcdec`
//! (shares no code with flute).  It is SELF-CONTAINED: every expectation is derived from the operation
//! line alone (op arguments for builds; `rfcdec`'s reading of the datagram for parses, restricted to
//! datagrams a conforming RFC sender may emit), so a single replayed op line re-fires it.
//! Oracle classes: `C04:panic-<file>:<line>` (panic on untrusted input), everything else `C06:...`.
mod generator;
mod rewidth;
mod rfcdec;
mod sender_range;

use flute::core::alc::{get_sender_current_time, parse_alc_pkt, parse_payload_id};
use flute::core::lct::{get_ext, push_lct_header, Cenc};
use flute::core::Oti;
use flute::verif_hooks as hk;
use harness_core::{guarded, hex, Engine, Oracle};
use rfcdec as rd;
use std::panic::AssertUnwindSafe;
use std::time::{Duration, UNIX_EPOCH};

// ------------------------------------------------------------------------------------------------
// token parsing (strict: anything else is `bad-op`)
// ------------------------------------------------------------------------------------------------

fn nat(s: &str) -> Option<u128> {
    if s.is_empty() || !s.bytes().all(|c| c.is_ascii_digit()) {
        return None;
    }
    s.parse().ok()
}
fn nat_lt(s: &str, bound_bits: u32) -> Option<u128> {
    nat(s).filter(|v| bound_bits >= 128 || *v < (1u128 << bound_bits))
}
fn b01(s: &str) -> Option<bool> {
    match s {
        "0" => Some(false),
        "1" => Some(true),
        _ => None,
    }
}
fn opt_nat(s: &str, bits: u32) -> Option<Option<u128>> {
    if s == "-" {
        Some(None)
    } else {
        nat_lt(s, bits).map(Some)
    }
}
fn sb(b: bool) -> &'static str {
    if b {
        "1"
    } else {
        "0"
    }
}

// ------------------------------------------------------------------------------------------------
// plain-value views of flute's types
// ------------------------------------------------------------------------------------------------

/// `Oti` as plain values; `ss` uses the `(kind, a, b, c)` convention of the hooks
#[derive(Clone, Debug, PartialEq)]
pub struct OtiV {
    pub fec: u8,
    pub inst: u16,
    pub b: u32,
    pub e: u16,
    pub parity: u32,
    pub ss: Option<(u8, u32, u32, u32)>,
    pub inband: bool,
}

impl OtiV {
    pub fn parse(t: &[&str]) -> Option<OtiV> {
        if t.len() != 7 {
            return None;
        }
        let ss = match t[5].split(':').collect::<Vec<_>>()[..] {
            ["-"] => None,
            ["rs", m, g] => Some((0, nat_lt(m, 8)? as u32, nat_lt(g, 8)? as u32, 0)),
            ["rq", z, n, al] => Some((1, nat_lt(z, 8)? as u32, nat_lt(n, 16)? as u32, nat_lt(al, 8)? as u32)),
            ["r", z, n, al] => Some((2, nat_lt(z, 16)? as u32, nat_lt(n, 8)? as u32, nat_lt(al, 8)? as u32)),
            _ => return None,
        };
        Some(OtiV {
            fec: nat_lt(t[0], 8)? as u8,
            inst: nat_lt(t[1], 16)? as u16,
            b: nat_lt(t[2], 32)? as u32,
            e: nat_lt(t[3], 16)? as u16,
            parity: nat_lt(t[4], 32)? as u32,
            ss,
            inband: b01(t[6])?,
        })
    }
    pub fn make(&self) -> Option<Oti> {
        hk::make_oti(self.fec, self.inst, self.b, self.e, self.parity, self.ss, self.inband)
    }
    pub fn of(o: &Oti) -> OtiV {
        OtiV {
            fec: o.fec_encoding_id as u8,
            inst: o.fec_instance_id,
            b: o.maximum_source_block_length,
            e: o.encoding_symbol_length,
            parity: o.max_number_of_parity_symbols,
            ss: hk::oti_scheme_specific(o),
            inband: o.inband_fti,
        }
    }
    pub fn show_ss(&self) -> String {
        match self.ss {
            None => "-".to_string(),
            Some((0, m, g, _)) => format!("rs:{}:{}", m, g),
            Some((1, z, n, al)) => format!("rq:{}:{}:{}", z, n, al),
            Some((_, z, n, al)) => format!("r:{}:{}:{}", z, n, al),
        }
    }
    /// `fec,inst,B,E,parity,ss,inband`
    pub fn show(&self) -> String {
        format!("{},{},{},{},{},{},{}", self.fec, self.inst, self.b, self.e, self.parity, self.show_ss(), sb(self.inband))
    }
    /// op-line form (space separated)
    pub fn tokens(&self) -> String {
        format!("{} {} {} {} {} {} {}", self.fec, self.inst, self.b, self.e, self.parity, self.show_ss(), sb(self.inband))
    }
    /// The values the EXT_FTI of this scheme carries, in RFC diagram order (see `rfcdec::fti_layout`);
    /// `None` when the scheme-specific part does not belong to the scheme.
    pub fn fti_vec(&self, tl: u64) -> Option<Vec<u64>> {
        let (b, e, maxn) = (self.b as u64, self.e as u64, self.b as u64 + self.parity as u64);
        match (self.fec, self.ss) {
            (0, _) => Some(vec![tl, e, b]),
            (129, _) => Some(vec![tl, self.inst as u64, e, b, maxn]),
            (5, _) => Some(vec![tl, e, b, maxn]),
            (2, Some((0, m, g, _))) => Some(vec![tl, m as u64, g as u64, e, b, maxn]),
            (6, Some((1, z, n, al))) => Some(vec![tl, e, z as u64, n as u64, al as u64]),
            (1, Some((2, z, n, al))) => Some(vec![tl, e, z as u64, n as u64, al as u64]),
            _ => None,
        }
    }
}

/// every value fits the width of its field in the scheme's EXT_FTI
fn fti_fits(fec: u8, v: &[u64]) -> bool {
    match rd::fti_value_widths(fec) {
        Some(w) => w.len() == v.len() && w.iter().zip(v).all(|(w, v)| *w >= 64 || *v < (1u64 << *w)),
        None => false,
    }
}

/// The FTI values denote parameters flute's receiver side is required to accept and return unchanged:
/// max_n >= B for the Reed-Solomon schemes; m, G >= 1 (0 is mapped to the defaults 8 / 1);
/// T, Z, Al >= 1 and Al | T for Raptor / RaptorQ (anything else is a refusable, invalid OTI).
fn fti_semantic_ok(fec: u8, v: &[u64]) -> bool {
    match fec {
        0 => true,
        129 => v[4] >= v[3],
        5 => v[3] >= v[2],
        2 => v[5] >= v[4] && (1..=31).contains(&v[1]) && v[2] >= 1,
        6 | 1 => v[1] >= 1 && v[2] >= 1 && v[4] >= 1 && v[1] % v[4] == 0,
        _ => false,
    }
}

/// The fields of the parsed `Oti` that are NOT wire values of the scheme's EXT_FTI: what flute has to fill in.
/// Schemes without FEC instance / parity / scheme-specific part: 0 / 0 / none.  Raptor and RaptorQ do not
/// transmit the maximum source block length: the receiver derives it from F, Z, T as
/// ceil(ceil(F / Z) / T) (RFC 6330 4.4.1.2 KL, RFC 5053 5.3.1.2; kept in 32 bits) - computed here independently.
/// `v` = the RFC-decoded FTI values in diagram order (semantically valid).  `Some(description)` on a mismatch.
fn fti_derived_mismatch(fec: u8, v: &[u64], ot: &OtiV) -> Option<String> {
    let mut bad = Vec::new();
    let want_inst: Option<u16> = if fec == 129 { None } else { Some(0) };
    if want_inst.map_or(false, |i| ot.inst != i) {
        bad.push(format!("fec_instance_id {} (want 0)", ot.inst));
    }
    if (fec == 0 || fec == 6 || fec == 1) && ot.parity != 0 {
        bad.push(format!("max_number_of_parity_symbols {} (want 0)", ot.parity));
    }
    if (fec == 0 || fec == 5 || fec == 129) && ot.ss.is_some() {
        bad.push(format!("scheme specific {} (want none)", ot.show_ss()));
    }
    if fec == 6 || fec == 1 {
        let (f, t, z) = (v[0] as u128, v[1] as u128, v[2] as u128);
        if t >= 1 && z >= 1 {
            let block = (f + z - 1) / z;
            let want_b = (((block + t - 1) / t) & 0xFFFF_FFFF) as u32;
            if ot.b != want_b {
                bad.push(format!("maximum_source_block_length {} but ceil(ceil(F/Z)/T) = {} for F={} Z={} T={}", ot.b, want_b, f, z, t));
            }
        }
    }
    if bad.is_empty() {
        None
    } else {
        Some(bad.join(", "))
    }
}

#[derive(Clone, Debug, PartialEq)]
struct LctObs {
    len: usize,
    cci: u128,
    tsi: u64,
    toi: u128,
    cp: u8,
    co: bool,
    cs: bool,
    extoff: u32,
}

impl LctObs {
    fn of(l: &flute::core::lct::LCTHeader) -> LctObs {
        LctObs {
            len: l.len,
            cci: l.cci,
            tsi: l.tsi,
            toi: l.toi,
            cp: l.cp,
            co: l.close_object,
            cs: l.close_session,
            extoff: l.header_ext_offset,
        }
    }
    fn show(&self) -> String {
        format!("{},{},{},{},{},{},{},{}", self.len, self.cci, self.tsi, self.toi, self.cp, sb(self.co), sb(self.cs), self.extoff)
    }
}

/// result of one flute call: value, `FluteError`, panic (location)
#[derive(Clone, Debug, PartialEq)]
enum Sub<T> {
    Ok(T),
    Err,
    Panic(String),
}

impl<T> Sub<T> {
    fn of<E>(r: Result<Result<T, E>, String>) -> Sub<T> {
        match r {
            Ok(Ok(v)) => Sub::Ok(v),
            Ok(Err(_)) => Sub::Err,
            Err(loc) => Sub::Panic(loc),
        }
    }
    fn show(&self, f: impl Fn(&T) -> String, prefix: &str) -> String {
        match self {
            Sub::Ok(v) => format!("{}{}", prefix, f(v)),
            Sub::Err => "ERR".to_string(),
            Sub::Panic(_) => "PANIC".to_string(),
        }
    }
    fn panic_loc(&self) -> Option<&str> {
        match self {
            Sub::Panic(l) => Some(l),
            _ => None,
        }
    }
}

type Pid = (u32, u32, Option<u32>);

fn show_pid(p: &Pid) -> String {
    format!("{},{},{}", p.0, p.1, p.2.map_or("-".to_string(), |v| v.to_string()))
}
fn show_opt<T: ToString>(v: &Option<T>) -> String {
    v.as_ref().map_or("-".to_string(), |x| x.to_string())
}

#[derive(Clone, Debug)]
struct ParseObs {
    lct: LctObs,
    oti: Option<OtiV>,
    tl: Option<u64>,
    cenc: Option<u8>,
    fdt: Option<(u32, u32)>,
    alcoff: usize,
    payoff: usize,
    /// `get_sender_current_time`: microseconds since the UNIX epoch
    sct: Sub<Option<u64>>,
    pid: Sub<Pid>,
}

/// which OTI `parse_payload_id` gets
enum PidOti<'a> {
    /// the packet's EXT_FTI oti if present, otherwise `make_oti(cp,0,0,0,0, cp==2 ? rs:8:1 : None, true)`
    Default,
    /// `make_oti(cp,0,0,0,0,Some((0,m,1,0)),true)`
    RsM(u8),
    Given(&'a Oti),
}

/// `parse_alc_pkt` + `get_sender_current_time` + `parse_payload_id`, every call guarded
fn flute_parse(data: &[u8], pid_oti: PidOti) -> Sub<ParseObs> {
    let r = guarded(AssertUnwindSafe(|| {
        parse_alc_pkt(data).map(|p| {
            let sct = Sub::of(guarded(AssertUnwindSafe(|| {
                get_sender_current_time(&p).map(|t| {
                    t.map(|t| t.duration_since(UNIX_EPOCH).map(|d| d.as_micros() as u64).unwrap_or(u64::MAX))
                })
            })));
            let cp = p.lct.cp;
            let oti: Option<Oti> = match &pid_oti {
                PidOti::Given(o) => Some((*o).clone()),
                PidOti::RsM(m) => hk::make_oti(cp, 0, 0, 0, 0, Some((0, *m as u32, 1, 0)), true),
                PidOti::Default => match &p.oti {
                    Some(o) => Some(o.clone()),
                    None => hk::make_oti(cp, 0, 0, 0, 0, if cp == 2 { Some((0, 8, 1, 0)) } else { None }, true),
                },
            };
            let pid = match oti {
                Some(oti) => Sub::of(guarded(AssertUnwindSafe(|| {
                    parse_payload_id(&p, &oti).map(|i| (i.sbn, i.esi, i.source_block_length))
                }))),
                None => Sub::Err, // unreachable: parse_alc_pkt only succeeds for a known codepoint
            };
            ParseObs {
                lct: LctObs::of(&p.lct),
                oti: p.oti.as_ref().map(OtiV::of),
                tl: p.transfer_length,
                cenc: p.cenc.map(|c| c as u8),
                fdt: p.fdt_info.as_ref().map(|f| (f.version, f.fdt_instance_id)),
                alcoff: p.data_alc_header_offset,
                payoff: p.data_payload_offset,
                sct,
                pid,
            }
        })
    }));
    Sub::of(r)
}

fn flute_get_ext(d: &[u8], het: u8) -> Sub<Option<Vec<u8>>> {
    Sub::of(guarded(AssertUnwindSafe(|| {
        hk::parse_lct_header(d).and_then(|l| get_ext(d, &l, het).map(|r| r.map(|x| x.to_vec())))
    })))
}

fn flute_plct(data: &[u8]) -> Sub<LctObs> {
    Sub::of(guarded(AssertUnwindSafe(|| hk::parse_lct_header(data).map(|l| LctObs::of(&l)))))
}

// ------------------------------------------------------------------------------------------------
// the datagram as an independent RFC receiver reads it, when a conforming sender may have sent it
// ------------------------------------------------------------------------------------------------

enum SctExp {
    /// no EXT_TIME
    Absent,
    /// EXT_TIME without SCT-High
    NoSct,
    /// the NTP timestamp as microseconds since the UNIX epoch, fraction truncated / rounded to nearest:
    /// an independent receiver may do either, flute has to return one of the two
    Us(u64, u64),
}

struct Spec {
    p: rd::Decoded,
    /// an extension with HET < 128 and HEL >= 64 is present (known defect D7: `u8 << 2`)
    hel64: bool,
    sct: SctExp,
}

/// `Some` iff `d` starts with an LCT header a conforming RFC 5651 sender may emit (version 1, reserved
/// bits 0, well-formed extension area) - then flute's LCT parser and extension walk must agree with `rfcdec`.
fn spec_lct(d: &[u8]) -> Option<(rd::LctFields, bool)> {
    let f = rd::decode_lct(d)?;
    if f.res != 0 {
        return None;
    }
    let hel64 = f.exts.iter().any(|e| e.het < 128 && e.hel >= 64);
    Some((f, hel64))
}

/// `Some` iff `d` is a datagram a conforming FLUTE sender may emit and that flute is required to parse:
/// `spec_lct`, a codepoint flute implements, a complete FEC payload id, and EVERY extension of a type
/// flute interprets (EXT_FTI for the codepoint's scheme, EXT_CENC, EXT_TIME) well formed with reserved
/// fields zero and semantically valid values.  Unknown extension types are unconstrained.
fn spec_packet(d: &[u8]) -> Option<Spec> {
    let (f, hel64) = spec_lct(d)?;
    let p = rd::decode_packet(d)?;
    if !rd::known_fec(f.cp) || d.len() < p.hdr_octets + rd::fpid_octets(f.cp) {
        return None;
    }
    let mut sct = SctExp::Absent;
    let mut first_time = true;
    for e in &f.exts {
        match e.het {
            rd::HET_FTI => {
                let v = rd::decode_fti(f.cp, e)?;
                if !rd::fti_reserved_zero(f.cp, e) || !fti_semantic_ok(f.cp, &v) {
                    return None;
                }
            }
            rd::HET_CENC => {
                if rd::ext_cenc_reserved(e) != 0 {
                    return None;
                }
            }
            rd::HET_TIME => {
                let t = rd::dec_ext_time(e)?;
                if t.reserved != 0 || t.pi_specific != 0 || (t.sct_low.is_some() && t.sct_hi.is_none()) {
                    return None;
                }
                let this = match t.sct_hi {
                    None => SctExp::NoSct,
                    Some(hi) => {
                        let lo = t.sct_low.unwrap_or(0);
                        SctExp::Us(rd::ntp_to_micros_floor(hi, lo)?, rd::ntp_to_micros_round(hi, lo)?)
                    }
                };
                if first_time {
                    sct = this;
                    first_time = false;
                }
            }
            _ => {}
        }
    }
    Some(Spec { p, hel64, sct })
}

fn cls(base: &str, hel64: bool) -> String {
    format!("C06:{}{}", base, if hel64 { "-hel64" } else { "" })
}

/// keep oracle descriptions short (the op line itself is appended by the harness)
fn short(s: &str) -> String {
    if s.len() > 260 {
        format!("{}...", &s[..260])
    } else {
        s.to_string()
    }
}

fn panic_cls(loc: &str) -> String {
    // class tokens become file names of replays: keep only the basename of the source file (no '/')
    let base = loc.rsplit('/').next().unwrap_or(loc);
    format!("C04:panic-{}", base)
}

/// flute's observation of a datagram vs the independent reading of it
fn check_spec_parse(d: &[u8], obs: &Sub<ParseObs>, o: &mut Oracle) {
    let Some(sp) = spec_packet(d) else { return };
    let f = &sp.p.lct;
    let h = sp.hel64;
    let fec = f.cp;
    let want_lct = LctObs {
        len: sp.p.hdr_octets,
        cci: f.cci,
        tsi: f.tsi,
        toi: f.toi,
        cp: f.cp,
        co: f.b == 1,
        cs: f.a == 1,
        extoff: f.fixed_octets() as u32,
    };
    let po = match obs {
        Sub::Ok(po) => po,
        _ => {
            // which stage refuses the RFC-valid datagram: the LCT header parser, the extension walk, or
            // (header and walk agreeing with the RFC reading) the scheme's EXT_FTI decoder
            let walk_ok = [rd::HET_FTI, rd::HET_CENC, rd::HET_FDT, rd::HET_TIME]
                .iter()
                .all(|het| flute_get_ext(d, *het) == Sub::Ok(rd::find_ext(&f.exts, *het).map(|e| e.encode())));
            let stage = match flute_plct(d) {
                Sub::Ok(l) if l == want_lct => {
                    if walk_ok && sp.p.cenc.map_or(false, |c| c > 3) && sp.p.fti.is_none() {
                        "spec-parse-cenc".to_string()
                    } else if walk_ok {
                        format!("spec-parse-fti-{}", fec)
                    } else {
                        "spec-parse-ext".to_string()
                    }
                }
                _ => "spec-parse-lct".to_string(),
            };
            o.fail(&cls(&stage, h), &format!("RFC-valid datagram refused by parse_alc_pkt; independent decoder reads {}", short(&rd::show_decode(d))));
            return;
        }
    };
    if po.lct != want_lct || po.alcoff != sp.p.hdr_octets || Some(po.payoff) != sp.p.payload_offset {
        o.fail(
            &cls("spec-parse-lct", h),
            &format!("LCT fields: flute {} O={},{} / RFC {} O={},{:?}", po.lct.show(), po.alcoff, po.payoff, want_lct.show(), sp.p.hdr_octets, sp.p.payload_offset),
        );
    }
    let got_fti = match (&po.oti, po.tl) {
        (Some(ot), Some(tl)) => Some(ot.fti_vec(tl)),
        (None, None) => None,
        _ => Some(None),
    };
    let want_fti = sp.p.fti.clone().map(Some);
    let derived = match (&po.oti, &sp.p.fti) {
        (Some(ot), Some(v)) => fti_derived_mismatch(fec, v, ot),
        _ => None,
    };
    if got_fti != want_fti || po.oti.as_ref().map_or(false, |ot| ot.fec != fec || !ot.inband) || derived.is_some() {
        o.fail(
            &cls(&format!("spec-parse-fti-{}", fec), h),
            &format!(
                "EXT_FTI values: flute oti={:?} tl={:?} / RFC layout of scheme {}: {:?}{}",
                po.oti.as_ref().map(|x| x.show()),
                po.tl,
                fec,
                sp.p.fti,
                derived.map_or(String::new(), |d| format!("; {}", d))
            ),
        );
    }
    if let Some(c) = sp.p.cenc {
        // an unknown content encoding (4..255) is not an error of the packet: flute reports no cenc
        let want = if c <= 3 { Some(c) } else { None };
        if po.cenc != want {
            o.fail(&cls("spec-parse-cenc", h), &format!("EXT_CENC: flute {:?} / RFC {} (expected {:?})", po.cenc, c, want));
        }
    } else if po.cenc.is_some() {
        o.fail(&cls("spec-parse-cenc", h), &format!("EXT_CENC: flute {:?} / RFC none", po.cenc));
    }
    let want_fdt = if f.toi == 0 { sp.p.fdt.map(|(v, i)| (v as u32, i)) } else { None };
    if po.fdt != want_fdt {
        o.fail(&cls("spec-parse-fdt", h), &format!("EXT_FDT: flute {:?} / RFC {:?}", po.fdt, want_fdt));
    }
    let (want_sct, alt_sct) = match sp.sct {
        SctExp::Absent | SctExp::NoSct => (None, None),
        SctExp::Us(floor, round) => (Some(floor), Some(round)),
    };
    if po.sct != Sub::Ok(want_sct) && po.sct != Sub::Ok(alt_sct) {
        o.fail(&cls("spec-parse-sct", h), &format!("sender current time: flute {:?} / RFC {:?} us (rounded {:?})", po.sct, want_sct, alt_sct));
    }
    // P= used the EXT_FTI oti when present (m >= 1 there), the default m = 8 otherwise: `rfcdec` used the same m
    if let Sub::Ok(pid) = &po.pid {
        if Some(*pid) != sp.p.pid {
            o.fail(&cls(&format!("spec-parse-pid-{}", fec), h), &format!("FEC payload id: flute {:?} / RFC {:?} (m={})", pid, sp.p.pid, sp.p.m));
        }
    } else if po.pid == Sub::Err {
        o.fail(&cls(&format!("spec-parse-pid-{}", fec), h), &format!("FEC payload id refused / RFC {:?}", sp.p.pid));
    }
}

// ------------------------------------------------------------------------------------------------
// the engine
// ------------------------------------------------------------------------------------------------

/// What the last `session` op left for the generator: the genuine sender packets (so that the generator can
/// show a subsample to the model through `rewidth` / `parse` / `rfc` ops) and its statistics.  The generator never
/// calls flute itself: every real-code call happens inside `Engine::exec` (harness watchdog, replayability).
#[derive(Default)]
pub(crate) struct Stash {
    /// packets read from the real Sender
    pub stream: Vec<Vec<u8>>,
    /// family `rewidth`: the same packets re-serialised at the policy's width flags, and those flags
    pub re: Vec<Vec<u8>>,
    pub flags: Vec<(u8, u8, u8, u8)>,
    /// the sender produced a session
    pub produced: bool,
    /// the baseline reception delivered every object with the content that was sent
    pub baseline_ok: bool,
    /// packets whose width flags differ from the original
    pub changed: usize,
    /// distribution counters / non-trivial keys for the statistics
    pub notes: Vec<(String, u64)>,
    pub nontrivial: Vec<String>,
}

impl Stash {
    pub fn note(&mut self, key: &str, n: u64) {
        self.notes.push((key.to_string(), n));
    }
}

pub struct WireEngine {
    stash: std::rc::Rc<std::cell::RefCell<Stash>>,
}

struct PktArgs {
    oti: OtiV,
    cci: u128,
    tsi: u64,
    toi: u128,
    fdt_id: Option<u32>,
    cenc: u8,
    inband_cenc: bool,
    co: bool,
    sbl: u32,
    sct: Option<u64>,
    rfc3926: bool,
    tl: u64,
    sbn: u32,
    esi: u32,
    payload: Vec<u8>,
}

fn cenc_of(c: u8) -> Cenc {
    match c {
        0 => Cenc::Null,
        1 => Cenc::Zlib,
        2 => Cenc::Deflate,
        _ => Cenc::Gzip,
    }
}

/// the payload id values are inside the scheme's SBN / ESI (/ source block length) field ranges
fn pid_in_range(o: &OtiV, sbn: u32, esi: u32, sbl: u32) -> Option<u8> {
    let m = match (o.fec, o.ss) {
        (2, Some((0, m, _, _))) if (1..=31).contains(&m) => m as u8,
        (2, _) => return None,
        _ => 8,
    };
    let (ws, wl, we) = rd::fpid_widths(o.fec, m)?;
    let fit = |v: u32, w: usize| w >= 32 || (v as u64) < (1u64 << w);
    if fit(sbn, ws) && fit(esi, we) && (wl == 0 || fit(sbl, wl)) {
        Some(m)
    } else {
        None
    }
}

impl WireEngine {
    fn op_lct(&self, t: &[&str], o: &mut Oracle) -> Option<String> {
        if t.len() != 7 {
            return None;
        }
        let psi = nat_lt(t[0], 8)? as u8;
        let cci = nat_lt(t[1], 128)?;
        let tsi = nat_lt(t[2], 64)? as u64;
        let toi = nat_lt(t[3], 128)?;
        let cp = nat_lt(t[4], 8)? as u8;
        let co = b01(t[5])?;
        let cs = b01(t[6])?;
        let r = guarded(move || {
            let mut d = Vec::new();
            push_lct_header(&mut d, psi, &cci, tsi, &toi, cp, co, cs);
            d
        });
        let in_range = psi < 4 && tsi < (1 << 48) && toi < (1u128 << 112);
        let d = match r {
            Ok(d) => d,
            Err(loc) => {
                if in_range {
                    o.fail("C06:lct-build-panic", &format!("push_lct_header panics at {}", loc));
                }
                return Some("PANIC".to_string());
            }
        };
        if in_range {
            match rd::decode_lct(&d) {
                Some(f)
                    if f.v == 1
                        && f.psi == psi
                        && f.res == 0
                        && f.cci == cci
                        && f.tsi == tsi
                        && f.toi == toi
                        && f.cp == cp
                        && (f.a == 1) == cs
                        && (f.b == 1) == co
                        && 4 * f.hdr_len as usize == d.len()
                        && f.exts.is_empty() => {}
                other => o.fail("C06:lct-build-ne-rfc", &format!("independent decoder reads {:?}", other)),
            }
            let want = LctObs { len: d.len(), cci, tsi, toi, cp, co, cs, extoff: d.len() as u32 };
            match flute_plct(&d) {
                Sub::Ok(l) if l == want => {}
                other => o.fail("C06:lct-roundtrip", &format!("parse_lct_header(push_lct_header(..)) = {:?}, want {}", other, want.show())),
            }
        }
        Some(format!("ok {}", hex(&d)))
    }

    fn parse_pkt_args(t: &[&str]) -> Option<PktArgs> {
        if t.len() != 21 {
            return None;
        }
        let oti = OtiV::parse(&t[0..7])?;
        if !rd::known_fec(oti.fec) {
            return None;
        }
        Some(PktArgs {
            oti,
            cci: nat_lt(t[7], 128)?,
            tsi: nat_lt(t[8], 64)? as u64,
            toi: nat_lt(t[9], 128)?,
            fdt_id: opt_nat(t[10], 32)?.map(|v| v as u32),
            cenc: nat(t[11]).filter(|c| *c <= 3)? as u8,
            inband_cenc: b01(t[12])?,
            co: b01(t[13])?,
            sbl: nat_lt(t[14], 32)? as u32,
            sct: opt_nat(t[15], 64)?.map(|v| v as u64),
            rfc3926: b01(t[16])?,
            tl: nat_lt(t[17], 64)? as u64,
            sbn: nat_lt(t[18], 32)? as u32,
            esi: nat_lt(t[19], 32)? as u32,
            payload: rd::unhex(t[20])?,
        })
    }

    fn op_pkt(&self, t: &[&str], o: &mut Oracle) -> Option<String> {
        let a = Self::parse_pkt_args(t)?;
        let oti = a.oti.make()?;
        let fields = hk::PktFields {
            payload: a.payload.clone(),
            transfer_length: a.tl,
            esi: a.esi,
            sbn: a.sbn,
            toi: a.toi,
            fdt_id: a.fdt_id,
            cenc: cenc_of(a.cenc),
            inband_cenc: a.inband_cenc,
            close_object: a.co,
            source_block_length: a.sbl,
            sender_current_time: a.sct.is_some(),
        };
        let now = UNIX_EPOCH + Duration::from_micros(a.sct.unwrap_or(0));
        let r = guarded(AssertUnwindSafe(|| hk::new_alc_pkt(&oti, &a.cci, a.tsi, &fields, a.rfc3926, now)));

        // ---- input classification --------------------------------------------------------------
        let fec = a.oti.fec;
        let has_fti = a.toi == 0 || a.oti.inband;
        // Builder preconditions (`debug_assert!` / `unwrap` / checked u32 add / shift by m >= 32) are outside C06's range
        // and profile dependent: the compared token is `unspecified`, decided from the op arguments alone, whatever
        // flute did above (the Lean driver prints the same token where the model's builder panics).  No oracle.
        let ss_kind = a.oti.ss.map(|x| x.0);
        let rs_m = match a.oti.ss {
            Some((0, m, _, _)) => m,
            _ => 8,
        };
        let unspecified = (a.toi == 0 && a.fdt_id.is_none())
            || (has_fti
                && ((fec == 2 && ss_kind != Some(0))
                    || (fec == 6 && ss_kind != Some(1))
                    || (fec == 1 && ss_kind != Some(2))
                    || ([5u8, 129, 2].contains(&fec) && a.oti.parity as u64 + a.oti.b as u64 >= (1 << 32))))
            || (fec == 2 && rs_m >= 32);
        if unspecified {
            return Some("unspecified".to_string());
        }
        let fti_want = a.oti.fti_vec(a.tl);
        let ss_ok = fti_want.is_some();
        let fti_ok = fti_want.as_ref().map_or(false, |v| fti_fits(fec, v));
        let fti_rt = fti_ok && fti_want.as_ref().map_or(false, |v| fti_semantic_ok(fec, v));
        // A sender clock beyond NTP era 0 (>= 2036-02-07T06:28:16Z) is NOT "out of range": the packet must stay
        // well formed and every other field must still decode; only the SCT VALUE is relaxed (EXT_TIME absent,
        // or carrying the era-wrapped seconds and the usual fraction).
        let sct_wrap = a.sct.map_or(false, |us| us / 1_000_000 + rd::NTP_UNIX_OFFSET > u32::MAX as u64);
        let base_ok = a.tsi < (1 << 48)
            && a.toi < (1u128 << 112)
            && (a.toi != 0 || a.fdt_id.is_some())
            && ss_ok
            && (a.oti.b as u64 + a.oti.parity as u64) <= u32::MAX as u64;
        let pid_m = pid_in_range(&a.oti, a.sbn, a.esi, a.sbl);

        let d = match r {
            Ok(d) => d,
            Err(loc) => {
                if base_ok && (!has_fti || fti_ok) && pid_m.is_some() {
                    o.fail("C06:pkt-build-panic", &format!("new_alc_pkt panics at {} on in-range input", loc));
                }
                return Some("PANIC".to_string());
            }
        };
        let obs = format!("ok {}", hex(&d));
        if !base_ok {
            return Some(obs);
        }

        // ---- the bytes as an independent RFC receiver reads them -------------------------------
        let want_cenc = if (a.toi == 0 && a.cenc != 0) || a.inband_cenc { Some(a.cenc) } else { None };
        // the 20-bit FDT Instance ID field carries the id masked (push_fdt, any u32 id)
        let want_fdt = if a.toi == 0 { Some((if a.rfc3926 { 1u32 } else { 2u32 }, a.fdt_id.unwrap() & 0xFFFFF)) } else { None };
        let want_pid: Pid = (a.sbn, a.esi, if fec == 129 { Some(a.sbl) } else { None });
        match rd::decode_packet(&d) {
            None => o.fail("C06:pkt-build-ne-rfc", "independent decoder rejects the LCT header"),
            Some(p) => {
                let f = &p.lct;
                let mut bad: Vec<String> = Vec::new();
                if !(f.v == 1 && f.psi == 0 && f.res == 0 && f.cci == a.cci && f.tsi == a.tsi && f.toi == a.toi && f.cp == fec && f.a == 0 && (f.b == 1) == a.co) {
                    bad.push(format!("LCT fields {}", short(&rd::show_decode(&d))));
                }
                let mut want_hets: Vec<u8> = Vec::new();
                if want_fdt.is_some() {
                    want_hets.push(rd::HET_FDT);
                }
                if want_cenc.is_some() {
                    want_hets.push(rd::HET_CENC);
                }
                if a.sct.is_some() {
                    want_hets.push(rd::HET_TIME);
                }
                if has_fti {
                    want_hets.push(rd::HET_FTI);
                }
                let mut got_hets: Vec<u8> = f.exts.iter().map(|e| e.het).collect();
                got_hets.sort();
                want_hets.sort();
                let without_time: Vec<u8> = want_hets.iter().copied().filter(|h| *h != rd::HET_TIME).collect();
                if got_hets != want_hets && !(sct_wrap && got_hets == without_time) {
                    bad.push(format!("extension types {:?}, want {:?}", got_hets, want_hets));
                }
                if p.fdt.map(|(v, i)| (v as u32, i)) != want_fdt {
                    bad.push(format!("EXT_FDT {:?}, want {:?}", p.fdt, want_fdt));
                }
                if p.cenc != want_cenc || rd::find_ext(&f.exts, rd::HET_CENC).map_or(false, |e| rd::ext_cenc_reserved(e) != 0) {
                    bad.push(format!("EXT_CENC {:?}, want {:?}", p.cenc, want_cenc));
                }
                match (a.sct, rd::find_ext(&f.exts, rd::HET_TIME)) {
                    (Some(us), Some(e)) => match rd::dec_ext_time(e) {
                        Some(t) if sct_wrap && t.sct_hi.is_some() && t.ert.is_none() && t.slc.is_none() && t.reserved == 0 && t.pi_specific == 0 => {
                            // beyond era 0: the 32-bit seconds field can only carry the wrapped value
                            let want_secs = ((us / 1_000_000 + rd::NTP_UNIX_OFFSET) & 0xFFFF_FFFF) as u32;
                            let sub = (t.sct_low.unwrap_or(0) as u64 * 1_000_000) >> 32;
                            if t.sct_hi != Some(want_secs) || sub != us % 1_000_000 {
                                bad.push(format!("EXT_TIME SCT {:?}:{:?} for a sender time of {} us beyond NTP era 0 (expected wrapped seconds {})", t.sct_hi, t.sct_low, us, want_secs));
                            }
                        }
                        Some(t) if t.sct_hi.is_some() && t.ert.is_none() && t.slc.is_none() && t.reserved == 0 && t.pi_specific == 0 => {
                            let got = rd::ntp_to_micros_floor(t.sct_hi.unwrap(), t.sct_low.unwrap_or(0));
                            if got != Some(us) {
                                o.fail("C06:sct-ne-rfc", &format!("EXT_TIME SCT {:?}:{:?} denotes {:?} us, sender time was {} us", t.sct_hi, t.sct_low, got, us));
                            }
                        }
                        other => bad.push(format!("EXT_TIME {:?}", other)),
                    },
                    _ => {}
                }
                if has_fti && fti_ok {
                    let fti_res_ok = rd::find_ext(&f.exts, rd::HET_FTI).map_or(false, |e| rd::fti_reserved_zero(fec, e));
                    if p.fti != fti_want || !fti_res_ok {
                        o.fail(
                            &format!("C06:fti-ne-rfc-{}", fec),
                            &format!("EXT_FTI under the RFC layout of scheme {}: {:?} (reserved zero: {}), sender values {:?}", fec, p.fti, fti_res_ok, fti_want),
                        );
                    }
                }
                match p.payload_offset {
                    None => bad.push("no complete FEC payload id".to_string()),
                    Some(off) => {
                        if let Some(m) = pid_m {
                            let got = rd::decode_fpid(fec, m, &d[p.hdr_octets..off]);
                            if got != Some(want_pid) {
                                o.fail(&format!("C06:pid-ne-rfc-{}", fec), &format!("FEC payload id under the RFC layout (m={}): {:?}, sender values {:?}", m, got, want_pid));
                            }
                        }
                        if d[off..] != a.payload[..] {
                            bad.push("payload bytes differ".to_string());
                        }
                    }
                }
                if !bad.is_empty() {
                    o.fail("C06:pkt-build-ne-rfc", &bad.join("; "));
                }
            }
        }

        // ---- the bytes as flute itself reads them back -----------------------------------------
        match flute_parse(&d, PidOti::Given(&oti)) {
            Sub::Ok(po) => {
                let mut bad: Vec<String> = Vec::new();
                let l = &po.lct;
                if !(l.cci == a.cci && l.tsi == a.tsi && l.toi == a.toi && l.cp == fec && l.co == a.co && !l.cs && l.len == po.alcoff && po.payoff == po.alcoff + rd::fpid_octets(fec)) {
                    bad.push(format!("LCT {}", l.show()));
                }
                if po.cenc != want_cenc {
                    bad.push(format!("cenc {:?}, want {:?}", po.cenc, want_cenc));
                }
                if po.fdt != want_fdt {
                    bad.push(format!("fdt {:?}, want {:?}", po.fdt, want_fdt));
                }
                if po.payoff > d.len() || d[po.payoff..] != a.payload[..] {
                    bad.push("payload".to_string());
                }
                if !has_fti && (po.oti.is_some() || po.tl.is_some()) {
                    bad.push("unexpected oti".to_string());
                }
                if !bad.is_empty() {
                    o.fail("C06:pkt-roundtrip", &format!("parse_alc_pkt(new_alc_pkt(..)): {}", bad.join("; ")));
                }
                if has_fti && fti_rt {
                    let got = match (&po.oti, po.tl) {
                        (Some(ot), Some(tl)) if ot.fec == fec && ot.inband => ot.fti_vec(tl),
                        _ => None,
                    };
                    let derived = match (&po.oti, &fti_want) {
                        (Some(ot), Some(v)) => fti_derived_mismatch(fec, v, ot),
                        _ => None,
                    };
                    if got != fti_want || derived.is_some() {
                        o.fail(
                            &format!("C06:fti-roundtrip-{}", fec),
                            &format!("parsed oti {:?} tl {:?}, sender values {:?}{}", po.oti.as_ref().map(|x| x.show()), po.tl, fti_want, derived.map_or(String::new(), |d| format!("; {}", d))),
                        );
                    }
                }
                if !sct_wrap && po.sct != Sub::Ok(a.sct) {
                    o.fail("C06:sct-roundtrip", &format!("get_sender_current_time = {:?}, sender time {:?} us", po.sct, a.sct));
                }
                if pid_m.is_some() && po.pid != Sub::Ok(want_pid) {
                    o.fail(&format!("C06:pid-roundtrip-{}", fec), &format!("parse_payload_id = {:?}, sender values {:?}", po.pid, want_pid));
                }
            }
            other => {
                // refusing its own packet is only legitimate for an EXT_FTI whose values are out of range / invalid
                if !has_fti || fti_rt {
                    o.fail("C06:pkt-roundtrip", &format!("parse_alc_pkt(new_alc_pkt(..)) = {}", other.show(|_| String::new(), "ok")));
                }
            }
        }
        Some(obs)
    }

    fn op_close(&self, t: &[&str], o: &mut Oracle) -> Option<String> {
        if t.len() != 2 {
            return None;
        }
        let cci = nat_lt(t[0], 128)?;
        let tsi = nat_lt(t[1], 64)? as u64;
        let d = match guarded(move || hk::new_alc_pkt_close_session(&cci, tsi)) {
            Ok(d) => d,
            Err(loc) => {
                if tsi < (1 << 48) {
                    o.fail("C06:close-build-panic", &format!("new_alc_pkt_close_session panics at {}", loc));
                }
                return Some("PANIC".to_string());
            }
        };
        if tsi < (1 << 48) {
            let ok_rfc = rd::decode_packet(&d).map_or(false, |p| {
                let f = &p.lct;
                f.v == 1 && f.psi == 0 && f.res == 0 && f.a == 1 && f.b == 0 && f.cci == cci && f.tsi == tsi && f.toi == 0 && f.cp == 0
                    && f.exts.len() == 1
                    && p.fti == Some(vec![0, 0, 0])
                    && p.pid == Some((0, 0, None))
                    && p.payload_offset == Some(d.len())
            });
            if !ok_rfc {
                o.fail("C06:close-build-ne-rfc", &format!("independent decoder reads {}", short(&rd::show_decode(&d))));
            }
            let ok_rt = match flute_parse(&d, PidOti::Default) {
                Sub::Ok(po) => po.lct.cs && !po.lct.co && po.lct.cci == cci && po.lct.tsi == tsi && po.lct.toi == 0 && po.lct.cp == 0 && po.payoff == d.len(),
                _ => false,
            };
            if !ok_rt {
                o.fail("C06:close-roundtrip", "parse_alc_pkt(new_alc_pkt_close_session(..)) does not return the close-session packet");
            }
        }
        Some(format!("ok {}", hex(&d)))
    }

    fn op_parse(&self, t: &[&str], o: &mut Oracle) -> Option<String> {
        if t.len() != 1 {
            return None;
        }
        let d = rd::unhex(t[0])?;
        let obs = flute_parse(&d, PidOti::Default);
        let mut locs: Vec<&str> = Vec::new();
        locs.extend(obs.panic_loc());
        if let Sub::Ok(po) = &obs {
            locs.extend(po.sct.panic_loc());
            locs.extend(po.pid.panic_loc());
        }
        for l in locs {
            o.fail(&panic_cls(l), &format!("decoding an untrusted datagram panics at {}", l));
        }
        check_spec_parse(&d, &obs, o);
        Some(obs.show(
            |po| {
                format!(
                    "L={} F={} T={} C={} D={} O={},{} S={} P={}",
                    po.lct.show(),
                    po.oti.as_ref().map_or("-".to_string(), |x| x.show()),
                    show_opt(&po.tl),
                    show_opt(&po.cenc),
                    po.fdt.map_or("-".to_string(), |(v, i)| format!("{}:{}", v, i)),
                    po.alcoff,
                    po.payoff,
                    po.sct.show(show_opt, ""),
                    po.pid.show(show_pid, ""),
                )
            },
            "ok ",
        ))
    }

    fn op_plct(&self, t: &[&str], o: &mut Oracle) -> Option<String> {
        if t.len() != 1 {
            return None;
        }
        let d = rd::unhex(t[0])?;
        let obs = flute_plct(&d);
        if let Some(l) = obs.panic_loc() {
            o.fail(&panic_cls(l), &format!("parse_lct_header panics at {}", l));
        }
        if let Some((f, _)) = spec_lct(&d) {
            let want = LctObs {
                len: 4 * f.hdr_len as usize,
                cci: f.cci,
                tsi: f.tsi,
                toi: f.toi,
                cp: f.cp,
                co: f.b == 1,
                cs: f.a == 1,
                extoff: f.fixed_octets() as u32,
            };
            if obs != Sub::Ok(want.clone()) {
                o.fail("C06:spec-parse-lct", &format!("parse_lct_header = {:?} / RFC {}", obs, want.show()));
            }
        }
        Some(obs.show(|l| l.show(), "ok "))
    }

    fn op_ext(&self, t: &[&str], o: &mut Oracle) -> Option<String> {
        if t.len() != 2 {
            return None;
        }
        let d = rd::unhex(t[0])?;
        let het = nat_lt(t[1], 8)? as u8;
        let obs = flute_get_ext(&d, het);
        if let Some(l) = obs.panic_loc() {
            o.fail(&panic_cls(l), &format!("parse_lct_header + get_ext panics at {}", l));
        }
        if let Some((f, hel64)) = spec_lct(&d) {
            let want = rd::find_ext(&f.exts, het).map(|e| e.encode());
            if obs != Sub::Ok(want.clone()) {
                o.fail(
                    &cls("spec-ext-walk", hel64),
                    &format!("get_ext({}) = {} / RFC walk finds {}", het, short(&obs.show(|r| r.as_ref().map_or("none".into(), |b| hex(b)), "ok ")), short(&want.map_or("none".to_string(), |b| hex(&b)))),
                );
            }
        }
        Some(obs.show(|r| r.as_ref().map_or("none".to_string(), |b| hex(b)), "ok "))
    }

    fn op_pid(&self, t: &[&str], o: &mut Oracle) -> Option<String> {
        if t.len() != 2 {
            return None;
        }
        let d = rd::unhex(t[0])?;
        let m = nat_lt(t[1], 8)? as u8;
        let obs = flute_parse(&d, PidOti::RsM(m));
        let flat: Sub<Pid> = match &obs {
            Sub::Ok(po) => po.pid.clone(),
            Sub::Err => Sub::Err,
            Sub::Panic(l) => Sub::Panic(l.clone()),
        };
        if let Some(l) = flat.panic_loc() {
            o.fail(&panic_cls(l), &format!("parse_alc_pkt + parse_payload_id (m={}) panics at {}", m, l));
        }
        if let (Some(sp), Sub::Ok(pid)) = (spec_packet(&d), &flat) {
            let fec = sp.p.lct.cp;
            if fec != 2 || m <= 31 {
                let off = sp.p.hdr_octets;
                let want = rd::decode_fpid(fec, m, &d[off..off + rd::fpid_octets(fec)]);
                if want != Some(*pid) {
                    o.fail(&cls(&format!("spec-parse-pid-{}", fec), sp.hel64), &format!("FEC payload id (m={}): flute {:?} / RFC {:?}", m, pid, want));
                }
            }
        }
        Some(flat.show(show_pid, "ok "))
    }

    /// `parse_alc_pkt` + `get_fec_inline_payload_id` (the codec of the packet's codepoint, no OTI)
    fn op_ipid(&self, t: &[&str], o: &mut Oracle) -> Option<String> {
        if t.len() != 1 {
            return None;
        }
        let d = rd::unhex(t[0])?;
        let obs: Sub<Pid> = Sub::of(guarded(AssertUnwindSafe(|| {
            parse_alc_pkt(&d).and_then(|p| hk::get_fec_inline_payload_id(&p).map(|i| (i.sbn, i.esi, i.source_block_length)))
        })));
        if let Some(l) = obs.panic_loc() {
            o.fail(&panic_cls(l), &format!("parse_alc_pkt + get_fec_inline_payload_id panics at {}", l));
        }
        // without EXT_FTI `parse_payload_id` (P= of `parse`) and the inline variant are the same decoding,
        // except for RS GF(2^m) (codepoint 2), which has no inline payload id
        if let Sub::Ok(po) = flute_parse(&d, PidOti::Default) {
            if po.lct.cp != 2 && po.oti.is_none() && obs != po.pid {
                o.fail("C06:ipid-ne-pid", &format!("get_fec_inline_payload_id = {:?}, parse_payload_id = {:?} (codepoint {}, no EXT_FTI)", obs, po.pid, po.lct.cp));
            }
        }
        Some(obs.show(show_pid, "ok "))
    }

    fn op_ntp(&self, t: &[&str], o: &mut Oracle) -> Option<String> {
        if t.len() != 1 {
            return None;
        }
        let us = nat_lt(t[0], 64)? as u64;
        let time = UNIX_EPOCH + Duration::from_micros(us);
        let obs = Sub::of(guarded(move || hk::system_time_to_ntp(time)));
        if let (Sub::Ok(ntp), true) = (&obs, us / 1_000_000 + rd::NTP_UNIX_OFFSET <= u32::MAX as u64) {
            let ntp = *ntp;
            let back = Sub::of(guarded(move || {
                hk::ntp_to_system_time(ntp).map(|t| t.duration_since(UNIX_EPOCH).map(|d| d.as_micros() as u64).unwrap_or(u64::MAX))
            }));
            if back != Sub::Ok(us) {
                o.fail("C06:ntp-roundtrip", &format!("ntp_to_system_time(system_time_to_ntp({} us)) = {:?}", us, back));
            }
            let ind = rd::ntp_to_micros_floor((ntp >> 32) as u32, ntp as u32);
            if ind != Some(us) {
                o.fail("C06:ntp-ne-rfc", &format!("NTP timestamp {}:{} denotes {:?} us, the instant was {} us", ntp >> 32, ntp as u32, ind, us));
            }
        }
        Some(obs.show(|v| v.to_string(), "ok "))
    }

    fn op_untp(&self, t: &[&str], o: &mut Oracle) -> Option<String> {
        if t.len() != 1 {
            return None;
        }
        let ntp = nat_lt(t[0], 64)? as u64;
        let obs = Sub::of(guarded(move || {
            hk::ntp_to_system_time(ntp).map(|t| t.duration_since(UNIX_EPOCH).map(|d| d.as_micros() as u64).unwrap_or(u64::MAX))
        }));
        if let Some(l) = obs.panic_loc() {
            o.fail(&panic_cls(l), &format!("ntp_to_system_time panics at {}", l));
        }
        Some(obs.show(|v| v.to_string(), "ok "))
    }
}

impl Engine for WireEngine {
    fn reset(&mut self) {}
    fn exec(&mut self, op: &str, o: &mut Oracle) -> String {
        let t: Vec<&str> = op.split(' ').collect();
        if t.len() < 2 || t[0] != "wire" {
            return "bad-op".to_string();
        }
        let a = &t[2..];
        let r = match t[1] {
            "lct" => self.op_lct(a, o),
            "plct" => self.op_plct(a, o),
            "ext" => self.op_ext(a, o),
            "pkt" => self.op_pkt(a, o),
            "close" => self.op_close(a, o),
            "parse" => self.op_parse(a, o),
            "pid" => self.op_pid(a, o),
            "ipid" => self.op_ipid(a, o),
            "ntp" => self.op_ntp(a, o),
            "untp" => self.op_untp(a, o),
            "rfc" if a.len() == 1 => rd::unhex(a[0]).map(|d| rd::show_decode(&d)),
            // independent decoder + encoder only (model-vs-rfcdec correspondence, no oracle)
            "rewidth" if a.len() == 5 => (|| {
                let d = rd::unhex(a[0])?;
                let w: Vec<u64> = a[1..].iter().map(|x| nat(x).map(|v| v.min(u64::MAX as u128) as u64)).collect::<Option<_>>()?;
                Some(rd::rewidth(&d, w[0], w[1], w[2], w[3]).map_or("ERR".to_string(), |r| format!("ok {}", hex(&r))))
            })(),
            // oracle-only: a whole real Sender -> Receiver session runs inside this op (model answer: `ok`)
            "session" if !a.is_empty() => {
                let mut st = self.stash.borrow_mut();
                *st = Stash::default();
                match a[0] {
                    "rewidth" => rewidth::exec(&a[1..], o, &mut st),
                    "sender-range" => sender_range::exec(&a[1..], o, &mut st),
                    _ => None,
                }
            }
            _ => None,
        };
        r.unwrap_or_else(|| "bad-op".to_string())
    }
}

fn main() {
    if let Err(e) = rd::self_test() {
        eprintln!("rfcdec self test failed: {}", e);
        std::process::exit(3);
    }
    let stash = std::rc::Rc::new(std::cell::RefCell::new(Stash::default()));
    let (s1, s2) = (stash.clone(), stash);
    harness_core::engine_main("wire", move || Box::new(WireEngine { stash: s1.clone() }), move |ctx, eng| generator::run(ctx, eng, s2));
}
