//! Generator family `rewidth` (property C06, receiver side of "any legal width choice"):
//! GENUINE packets of a real `flute::sender::Sender` session are re-serialised by the independent
//! encoder (`rfcdec::rewidth`) at other legal C/S/O/H width flags - same CCI/TSI/TOI values, flags,
//! codepoint, extensions, payload id and payload - and pushed through a fresh REAL
//! `flute::receiver::Receiver`.  What the receiver delivers (objects: TOI, content location, bytes,
//! complete / error; FDT instances) must be identical to what it delivers for the original stream
//! (`C06:rewidth-delivery`), and flute's parse of every re-encoded packet must equal its parse of the
//! original in every field except the header length / offsets (`C06:rewidth-parse`).
//! A subsample of the packets also goes through the op stream (`wire rewidth ...` + `wire parse ...`) so
//! that the Lean model is compared on genuine sender packets at non-minimal widths.
//!
//! EVERY real-code call (Sender, Receiver, flute's parser) happens inside `Engine::exec` of the oracle-only op
//!   wire session rewidth <fec> <tsi> <toi_max bits> <toi_init> <inband_fti> <fdt_sct> <rfc3926> <cenc 0..3>
//!        <inband_cenc> <E> <B> <parity> <al> <interleave> <size,size,...> <content_seed> <policy> <policy_seed>
//! (model answer `ok`; `PANIC` if flute panics) which re-derives the whole session from its parameters - the
//! harness watchdog covers it and `eng-wire exec` replays it.  The generator only chooses parameters and reads
//! the packets the op stashed (`crate::Stash`).
use crate::generator::G;
use crate::Stash;
use harness_core::Oracle;
use crate::rfcdec as rd;
use crate::{flute_parse, ParseObs, PidOti, Sub};
use flute::core::lct::Cenc;
use flute::core::{Oti, UDPEndpoint};
use flute::receiver::writer::{ObjectMetadata, ObjectWriter, ObjectWriterBuilder, ObjectWriterBuilderResult};
use flute::receiver::{self, Receiver};
use flute::sender::{self, ObjectDesc, Sender, TOIMaxLength, TransferConfig};
use harness_core::{guarded, hex, Rng};
use std::cell::RefCell;
use std::panic::AssertUnwindSafe;
use std::rc::Rc;
use std::time::{Duration, SystemTime, UNIX_EPOCH};

pub(crate) const POLICIES: [&str; 5] = ["max", "tsi48-toi112", "cci128", "min-hflip", "random"];
const SCHEMES: [u8; 5] = [0, 5, 129, 6, 1];

pub(crate) fn endpoint() -> UDPEndpoint {
    UDPEndpoint::new(None, "224.0.0.1".to_owned(), 5000)
}

pub(crate) fn t0() -> SystemTime {
    UNIX_EPOCH + Duration::from_secs(1_700_000_000)
}

/// parameters of one sender session
#[derive(Clone, Debug)]
struct SessP {
    scheme: u8,
    tsi: u64,
    toi_bits: u32,
    toi_init: u128,
    inband_fti: bool,
    sct: bool,
    rfc3926: bool,
    cenc: Cenc,
    inband_cenc: bool,
    e: u16,
    b: u16,
    parity: u16,
    al: u8,
    interleave: u8,
    sizes: Vec<usize>,
    content_seed: u64,
}

impl SessP {
    fn tsi_class(&self) -> u32 {
        if self.tsi < (1 << 16) {
            16
        } else if self.tsi < (1 << 32) {
            32
        } else {
            48
        }
    }
    fn desc(&self) -> String {
        format!(
            "session(fec={} tsi={} toi_max={}bit toi_init={} inband_fti={} fdt_sct={} rfc3926={} cenc={:?} inband_cenc={} E={} B={} parity={} al={} interleave={} sizes={:?} content_seed={})",
            self.scheme, self.tsi, self.toi_bits, self.toi_init, self.inband_fti, self.sct, self.rfc3926, self.cenc, self.inband_cenc, self.e, self.b, self.parity, self.al,
            self.interleave, self.sizes, self.content_seed
        )
    }
    fn cenc_code(&self) -> u8 {
        self.cenc as u8
    }
    /// the op-line form (16 tokens)
    fn tokens(&self) -> String {
        let b = |v: bool| v as u8;
        let sizes: Vec<String> = self.sizes.iter().map(|s| s.to_string()).collect();
        format!(
            "{} {} {} {} {} {} {} {} {} {} {} {} {} {} {} {}",
            self.scheme,
            self.tsi,
            self.toi_bits,
            self.toi_init,
            b(self.inband_fti),
            b(self.sct),
            b(self.rfc3926),
            self.cenc_code(),
            b(self.inband_cenc),
            self.e,
            self.b,
            self.parity,
            self.al,
            self.interleave,
            sizes.join(","),
            self.content_seed
        )
    }
    fn parse(t: &[&str]) -> Option<SessP> {
        if t.len() != 16 {
            return None;
        }
        let n = |s: &str, bits: u32| crate::nat_lt(s, bits);
        let sizes: Vec<usize> = t[14].split(',').map(|x| n(x, 24).map(|v| v as usize)).collect::<Option<_>>()?;
        let toi_bits = n(t[2], 8)? as u32;
        if ![0u8, 1, 5, 6, 129].contains(&(n(t[0], 8)? as u8)) || ![16, 32, 48, 64, 80, 112].contains(&toi_bits) || sizes.is_empty() || sizes.len() > 8 {
            return None;
        }
        Some(SessP {
            scheme: n(t[0], 8)? as u8,
            tsi: n(t[1], 64)? as u64,
            toi_bits,
            toi_init: n(t[3], 128)?,
            inband_fti: crate::b01(t[4])?,
            sct: crate::b01(t[5])?,
            rfc3926: crate::b01(t[6])?,
            cenc: match n(t[7], 8)? {
                0 => Cenc::Null,
                1 => Cenc::Zlib,
                2 => Cenc::Deflate,
                3 => Cenc::Gzip,
                _ => return None,
            },
            inband_cenc: crate::b01(t[8])?,
            e: n(t[9], 16)? as u16,
            b: n(t[10], 16)? as u16,
            parity: n(t[11], 16)? as u16,
            al: n(t[12], 8)? as u8,
            interleave: n(t[13], 8)? as u8,
            sizes,
            content_seed: n(t[15], 64)? as u64,
        })
    }
    fn oti(&self) -> Option<Oti> {
        let mut o = match self.scheme {
            0 => Oti::new_no_code(self.e, self.b),
            5 => Oti::new_reed_solomon_rs28(self.e, self.b.min(200) as u8, self.parity.min(55) as u8).ok()?,
            129 => Oti::new_reed_solomon_rs28_under_specified(self.e, self.b, self.parity).ok()?,
            6 => Oti::new_raptorq(self.e, self.b, self.parity, 1, self.al).ok()?,
            1 => Oti::new_raptor(self.e, self.b, self.parity, 1, self.al).ok()?,
            _ => return None,
        };
        o.inband_fti = self.inband_fti;
        Some(o)
    }
    fn toi_max(&self) -> TOIMaxLength {
        match self.toi_bits {
            16 => TOIMaxLength::ToiMax16,
            32 => TOIMaxLength::ToiMax32,
            48 => TOIMaxLength::ToiMax48,
            64 => TOIMaxLength::ToiMax64,
            80 => TOIMaxLength::ToiMax80,
            _ => TOIMaxLength::ToiMax112,
        }
    }
    fn content(&self, idx: usize) -> Vec<u8> {
        let mut r = Rng::new(self.content_seed.wrapping_add(idx as u64 * 7919));
        // half random, half repetitive (so that the compressed variants really compress)
        (0..self.sizes[idx]).map(|i| if i % 64 < 32 { r.next() as u8 } else { (i / 64) as u8 }).collect()
    }
}

pub(crate) type Stream = Vec<(Vec<u8>, SystemTime)>;

/// why no session was produced
pub(crate) enum NoSession {
    /// flute refused the configuration (not a C06 matter)
    Refused(String),
    /// flute panicked (location)
    Panic(String),
}

/// run a real sender session to its end
fn run_sender(p: &SessP) -> Result<(Stream, usize), NoSession> {
    let oti = match guarded(AssertUnwindSafe(|| p.oti())) {
        Ok(Some(o)) => o,
        Ok(None) => return Err(NoSession::Refused("oti refused".to_string())),
        Err(loc) => return Err(NoSession::Panic(loc)),
    };
    let config = sender::Config {
        fdt_inband_sct: p.sct,
        profile: if p.rfc3926 { sender::Profile::RFC3926 } else { sender::Profile::RFC6726 },
        toi_max_length: p.toi_max(),
        toi_initial_value: Some(p.toi_init),
        interleave_blocks: p.interleave,
        ..Default::default()
    };
    let r = guarded(AssertUnwindSafe(|| -> Result<(Stream, usize), String> {
        let mut snd = Sender::new(endpoint(), p.tsi, &oti, &config);
        let mut added = 0;
        for i in 0..p.sizes.len() {
            let url = url::Url::parse(&format!("file:///rewidth/obj{}.bin", i)).unwrap();
            let tc = TransferConfig { cenc: p.cenc, inband_cenc: p.inband_cenc, ..Default::default() };
            let desc = ObjectDesc::create_from_buffer(p.content(i), "application/octet-stream", &url, true, tc).map_err(|e| format!("create: {:?}", e))?;
            if snd.add_object(0, desc).is_ok() {
                added += 1;
            }
        }
        let mut now = t0();
        snd.publish(now).map_err(|e| format!("publish: {:?}", e))?;
        let mut out: Stream = Vec::new();
        let mut idle = 0;
        while out.len() < 20_000 {
            match snd.read(now) {
                Some(d) => {
                    out.push((d, now));
                    now += Duration::from_millis(1);
                    idle = 0;
                }
                None => {
                    if snd.nb_objects() == 0 {
                        break;
                    }
                    idle += 1;
                    if idle > 500 {
                        return Err("sender stuck".to_string());
                    }
                    now += Duration::from_millis(50);
                }
            }
        }
        Ok((out, added))
    }));
    match r {
        Ok(x) => x.map_err(NoSession::Refused),
        Err(loc) => Err(NoSession::Panic(loc)),
    }
}

/// what a receiver delivered for one object
#[derive(Clone, Debug, PartialEq)]
pub(crate) struct Delivered {
    pub(crate) toi: u128,
    pub(crate) location: String,
    pub(crate) content_length: Option<usize>,
    pub(crate) data: Vec<u8>,
    pub(crate) complete: bool,
    pub(crate) error: bool,
}

#[derive(Default)]
struct RecBuilder {
    objs: RefCell<Vec<Rc<RefCell<Delivered>>>>,
    fdts: RefCell<Vec<String>>,
}

#[derive(Debug)]
struct RecWriter(Rc<RefCell<Delivered>>);

impl ObjectWriterBuilder for RecBuilder {
    fn new_object_writer(&self, _e: &UDPEndpoint, _tsi: &u64, toi: &u128, meta: &ObjectMetadata, _now: SystemTime) -> ObjectWriterBuilderResult {
        let d = Rc::new(RefCell::new(Delivered {
            toi: *toi,
            location: meta.content_location.clone(),
            content_length: meta.content_length,
            data: Vec::new(),
            complete: false,
            error: false,
        }));
        self.objs.borrow_mut().push(d.clone());
        ObjectWriterBuilderResult::StoreObject(Box::new(RecWriter(d)))
    }
    fn update_cache_control(&self, _e: &UDPEndpoint, _tsi: &u64, _toi: &u128, _meta: &ObjectMetadata, _now: SystemTime) {}
    fn fdt_received(&self, _e: &UDPEndpoint, _tsi: &u64, xml: &str, _expires: SystemTime, _meta: &ObjectMetadata, _d: Duration, _now: SystemTime, _ext: Option<SystemTime>) {
        self.fdts.borrow_mut().push(xml.to_string());
    }
}

impl ObjectWriter for RecWriter {
    fn open(&self, _now: SystemTime) -> flute::error::Result<()> {
        Ok(())
    }
    fn write(&self, _sbn: u32, data: &[u8], _now: SystemTime) -> flute::error::Result<()> {
        self.0.borrow_mut().data.extend_from_slice(data);
        Ok(())
    }
    fn complete(&self, _now: SystemTime) {
        self.0.borrow_mut().complete = true;
    }
    fn error(&self, _now: SystemTime) {
        self.0.borrow_mut().error = true;
    }
    fn interrupted(&self, _now: SystemTime) {
        self.0.borrow_mut().error = true;
    }
    fn enable_md5_check(&self) -> bool {
        true
    }
}

/// everything observable of one reception
#[derive(Clone, Debug, PartialEq)]
pub(crate) struct RxResult {
    pub(crate) objs: Vec<Delivered>,
    pub(crate) fdts: Vec<String>,
    pub(crate) push_errors: usize,
    pub(crate) panic: Option<String>,
}

/// push a stream through a fresh real `Receiver`
pub(crate) fn run_rx(tsi: u64, stream: &[(Vec<u8>, SystemTime)]) -> RxResult {
    let builder = Rc::new(RecBuilder::default());
    let b2: Rc<dyn ObjectWriterBuilder> = builder.clone();
    let cfg = receiver::Config { object_timeout: None, session_timeout: None, ..Default::default() };
    let mut push_errors = 0;
    let r = guarded(AssertUnwindSafe(|| {
        let mut rx = Receiver::new(&endpoint(), tsi, b2, Some(cfg));
        for (d, t) in stream {
            if rx.push_data(d, *t).is_err() {
                push_errors += 1;
            }
        }
    }));
    // by TOI: the creation order of objects inside one push depends on HashMap iteration in the receiver
    let mut objs: Vec<Delivered> = builder.objs.borrow().iter().map(|o| o.borrow().clone()).collect();
    objs.sort_by_key(|o| o.toi);
    let fdts = builder.fdts.borrow().clone();
    RxResult { objs, fdts, push_errors, panic: r.err() }
}

/// the width flags policy `pol` gives the packet whose header decodes to `f`
fn choose(pol: &str, f: &rd::LctFields, rng: &mut Rng) -> (u8, u8, u8, u8) {
    let orig = (f.c, f.s, f.o, f.h);
    match pol {
        "max" => (3, 1, 3, 1),
        "tsi48-toi112" => (f.c, 1, 3, 1),
        "cci128" => (3, f.s, f.o, f.h),
        "min-hflip" => {
            // the narrowest legal TSI/TOI widths with the other half-word flag; the original if there is none
            rd::legal_widths(f.cci, f.tsi, f.toi)
                .into_iter()
                .filter(|w| w.0 == f.c && w.3 != f.h)
                .min_by_key(|w| w.1 as u32 + w.2 as u32)
                .unwrap_or(orig)
        }
        _ => *rng.pick(&rd::legal_widths(f.cci, f.tsi, f.toi)),
    }
}

/// flute's parse of the original vs the re-encoded packet: everything but lengths / offsets must agree
fn parse_diff(orig: &[u8], re: &[u8]) -> Option<String> {
    let a = flute_parse(orig, PidOti::Default);
    let b = flute_parse(re, PidOti::Default);
    let (a, b): (&ParseObs, &ParseObs) = match (&a, &b) {
        (Sub::Ok(a), Sub::Ok(b)) => (a, b),
        (Sub::Err, Sub::Err) => return None,
        _ => return Some(format!("original parses to {}, re-encoded to {}", a.show(|_| String::new(), "ok"), b.show(|_| String::new(), "ok"))),
    };
    let mut bad = Vec::new();
    let (la, lb) = (&a.lct, &b.lct);
    if (la.cci, la.tsi, la.toi, la.cp, la.co, la.cs) != (lb.cci, lb.tsi, lb.toi, lb.cp, lb.co, lb.cs) {
        bad.push(format!("LCT {} / {}", la.show(), lb.show()));
    }
    let delta = re.len() as i64 - orig.len() as i64;
    if lb.len as i64 - la.len as i64 != delta || lb.extoff as i64 - la.extoff as i64 != delta || b.alcoff as i64 - a.alcoff as i64 != delta || b.payoff as i64 - a.payoff as i64 != delta {
        bad.push(format!("offsets {},{},{},{} / {},{},{},{} (delta {})", la.len, la.extoff, a.alcoff, a.payoff, lb.len, lb.extoff, b.alcoff, b.payoff, delta));
    }
    if a.oti != b.oti || a.tl != b.tl {
        bad.push(format!("oti {:?},{:?} / {:?},{:?}", a.oti, a.tl, b.oti, b.tl));
    }
    if a.cenc != b.cenc || a.fdt != b.fdt {
        bad.push(format!("cenc/fdt {:?},{:?} / {:?},{:?}", a.cenc, a.fdt, b.cenc, b.fdt));
    }
    if a.sct != b.sct {
        bad.push(format!("sct {:?} / {:?}", a.sct, b.sct));
    }
    if a.pid != b.pid {
        bad.push(format!("payload id {:?} / {:?}", a.pid, b.pid));
    }
    if orig.get(a.payoff..) != re.get(b.payoff..) {
        bad.push("payload bytes".to_string());
    }
    if bad.is_empty() {
        None
    } else {
        Some(bad.join("; "))
    }
}

fn first_difference(base: &RxResult, got: &RxResult) -> String {
    if let Some(p) = &got.panic {
        return format!("receiver panics at {}", p);
    }
    if base.objs.len() != got.objs.len() {
        return format!("{} objects delivered, baseline {}", got.objs.len(), base.objs.len());
    }
    for (a, b) in base.objs.iter().zip(&got.objs) {
        if a != b {
            return format!(
                "object toi={} {}: complete={} error={} {} bytes (first differing byte {:?}); baseline toi={} {}: complete={} error={} {} bytes",
                b.toi,
                b.location,
                b.complete,
                b.error,
                b.data.len(),
                a.data.iter().zip(&b.data).position(|(x, y)| x != y),
                a.toi,
                a.location,
                a.complete,
                a.error,
                a.data.len()
            );
        }
    }
    if base.fdts != got.fdts {
        return format!("{} FDT instances received, baseline {} (or their XML differs)", got.fdts.len(), base.fdts.len());
    }
    format!("{} push_data errors, baseline {}", got.push_errors, base.push_errors)
}

fn session_params(g: &mut G, idx: usize, scheme: u8, tsi_class: usize, variant: usize, randomised: bool) -> SessP {
    let rng = &mut g.rng2;
    let tsi = if randomised {
        match tsi_class {
            0 => rng.range(0, 0xFFFF),
            1 => rng.range(0x1_0000, 0xFFFF_FFFF),
            _ => rng.range(1 << 32, (1 << 48) - 1),
        }
    } else {
        [[1u64, 0xBEEF], [0x1_0000, 0xDEAD_BEEF], [1 << 32, (1 << 48) - 1]][tsi_class][variant % 2]
    };
    let tois: [(u32, u128); 8] =
        [(16, 1), (16, 0xFFFE), (32, 0x8000_0001), (48, (1 << 47) + 9), (64, (1 << 63) + 3), (80, (1 << 79) + 1), (112, (1 << 111) + 7), (112, 70_000)];
    let (toi_bits, toi_init) = if randomised && rng.bool() {
        let bits = *rng.pick(&[16u32, 32, 48, 64, 80, 112]);
        (bits, (rng.u128() & ((1u128 << bits) - 1)).max(1))
    } else {
        tois[(idx + variant) % 8]
    };
    let al = if scheme == 6 || scheme == 1 { *rng.pick(&[1u8, 4]) } else { 1 };
    let e = *rng.pick(&[64u16, 100, 256, 512]);
    let nobj = 1 + (idx + variant) % 3;
    let mut sizes: Vec<usize> = Vec::new();
    for k in 0..nobj {
        sizes.push(match (idx + k + variant) % 6 {
            0 => 0,
            1 => 1,
            2 => 300,
            3 => 3000,
            4 => rng.range(100, 700) as usize,
            _ => rng.range(1000, 5000) as usize,
        });
    }
    // flute's Raptor (RFC 5053) encoder refuses source blocks of 2 or 3 symbols (the sender then trips a
    // debug_assert in blockencoder.rs) and tiny B does not decode: stay in the region where the baseline
    // reception is complete (E = 64, B >= 16, objects of 0, 1 or >= 200 bytes) - not a C06 matter
    let (e, b) = if scheme == 1 { (64, *rng.pick(&[16u16, 50, 64])) } else { (if e % al as u16 == 0 { e } else { 256 }, *rng.pick(&[4u16, 8, 16, 50])) };
    let cenc = if idx % 6 == 3 { [Cenc::Zlib, Cenc::Gzip, Cenc::Deflate][(idx / 6) % 3] } else { Cenc::Null };
    if scheme == 1 {
        for s in sizes.iter_mut() {
            if *s > 1 && *s < 200 {
                *s += 200;
            }
            // a compressed object must still be >= 4 symbols (half of the content is incompressible)
            if cenc != Cenc::Null && *s > 1 && *s < 1000 {
                *s += 1000;
            }
        }
    }
    SessP {
        scheme,
        tsi,
        toi_bits,
        toi_init,
        inband_fti: idx % 2 == 0,
        sct: (idx / 2) % 2 == 0,
        rfc3926: idx % 5 == 4,
        cenc,
        inband_cenc: idx % 4 == 1,
        e,
        b,
        parity: if scheme == 0 { 0 } else { *rng.pick(&[2u16, 3, 4]) },
        al,
        interleave: 1 + (idx % 4) as u8,
        sizes,
        content_seed: rng.next(),
    }
}

/// `wire session rewidth <16 session tokens> <policy> <policy_seed>`: the whole session inside the op
pub(crate) fn exec(t: &[&str], o: &mut Oracle, st: &mut Stash) -> Option<String> {
    if t.len() != 18 {
        return None;
    }
    let p = SessP::parse(&t[..16])?;
    let pol = *POLICIES.iter().find(|x| **x == t[16])?;
    let mut rng = Rng::new(crate::nat_lt(t[17], 64)? as u64);
    let (stream, added) = match run_sender(&p) {
        Ok(x) => x,
        Err(NoSession::Refused(e)) => {
            st.note(&format!("rewidth:session-not-produced:{}", e.split(':').next().unwrap_or("?")), 1);
            return Some("ok".to_string());
        }
        Err(NoSession::Panic(loc)) => {
            st.note(&format!("rewidth:sender-panic:{}", loc), 1);
            return Some("PANIC".to_string());
        }
    };
    st.produced = true;
    st.stream = stream.iter().map(|(d, _)| d.clone()).collect();
    let base = run_rx(p.tsi, &stream);
    if base.panic.is_some() {
        st.note("rewidth:baseline-receiver-panic", 1);
        return Some("PANIC".to_string());
    }
    st.baseline_ok = base.objs.len() == added && base.objs.iter().all(|o| o.complete && !o.error) && added == p.sizes.len() && {
        // every object delivered with the content that was sent
        let mut sent: Vec<Vec<u8>> = (0..p.sizes.len()).map(|i| p.content(i)).collect();
        let mut got: Vec<Vec<u8>> = base.objs.iter().map(|o| o.data.clone()).collect();
        sent.sort();
        got.sort();
        sent == got
    };
    let decoded: Vec<Option<rd::LctFields>> = stream.iter().map(|(d, _)| rd::decode_lct(d)).collect();
    if decoded.iter().any(|f| f.is_none()) {
        // a genuine sender packet the independent RFC decoder rejects
        st.note("rewidth:sender-packet-not-decodable", 1);
        let bad = stream.iter().zip(&decoded).find(|(_, f)| f.is_none()).map(|((d, _), _)| hex(d)).unwrap_or_default();
        o.fail("C06:rewidth-sender-packet-ne-rfc", &format!("{}: the independent decoder rejects the sender packet {}", p.desc(), crate::short(&bad)));
        return Some("ok".to_string());
    }
    let mut re: Stream = Vec::with_capacity(stream.len());
    let mut parse_reported = false;
    for ((d, t), f) in stream.iter().zip(&decoded) {
        let f = f.as_ref().unwrap();
        let w = choose(pol, f, &mut rng);
        let r = match rd::rewidth(d, w.0 as u64, w.1 as u64, w.2 as u64, w.3 as u64) {
            Some(r) => r,
            None => {
                o.fail("C06:harness-bug", &format!("rfcdec::rewidth refuses legal flags {:?} for {}", w, crate::short(&hex(d))));
                d.clone()
            }
        };
        if w != (f.c, f.s, f.o, f.h) {
            st.changed += 1;
        }
        if !parse_reported {
            if let Some(diff) = parse_diff(d, &r) {
                parse_reported = true;
                o.fail("C06:rewidth-parse", &format!("{} policy {} flags {:?}: {} :: original {} re-encoded {}", p.desc(), pol, w, diff, crate::short(&hex(d)), crate::short(&hex(&r))));
            }
        }
        st.flags.push(w);
        re.push((r, *t));
    }
    let got = run_rx(p.tsi, &re);
    st.re = re.into_iter().map(|(d, _)| d).collect();
    if got != base {
        o.fail("C06:rewidth-delivery", &format!("{} policy {}: {}", p.desc(), pol, first_difference(&base, &got)));
    }
    Some(if got.panic.is_some() { "PANIC" } else { "ok" }.to_string())
}

/// generator side of one (session, policy): the op, the statistics, the subsample shown to the model
fn one_policy(g: &mut G, idx: usize, p: &SessP, pol: &str, first: bool, ops_per_policy: usize) {
    let scheme = p.scheme;
    g.ctx.case(&format!("rewidth/s{}-fec{}-{}", idx, scheme, pol));
    let seed = g.rng2.next();
    let obs = g.step(&format!("wire session rewidth {} {} {}", p.tokens(), pol, seed));
    let (stream, re, flags, produced, baseline_ok, changed, notes) = {
        let mut st = g.stash.borrow_mut();
        (std::mem::take(&mut st.stream), std::mem::take(&mut st.re), std::mem::take(&mut st.flags), st.produced, st.baseline_ok, st.changed, std::mem::take(&mut st.notes))
    };
    let undecodable = notes.iter().any(|(k, _)| k == "rewidth:sender-packet-not-decodable"); // reported by the op itself
    for (k, n) in notes {
        *g.ctx.dist.entry(k).or_insert(0) += n;
    }
    if !produced || obs != "ok" {
        return;
    }
    if stream.is_empty() || (re.len() != stream.len() && !undecodable) {
        g.ctx.oracle_fail("C06:harness-bug", &format!("session op left {} sender packets / {} re-encoded packets for {}", stream.len(), re.len(), p.desc()));
        return;
    }
    if re.len() != stream.len() {
        return;
    }
    if first {
        g.ctx.count(&format!("rewidth:{}", scheme));
        g.ctx.count(&format!("rewidth-tsi-class:{}", p.tsi_class()));
        g.ctx.count(&format!("rewidth-toi-max:{}", p.toi_bits));
        g.ctx.count(if baseline_ok { "rewidth:baseline-all-objects-delivered" } else { "rewidth:baseline-incomplete" });
        g.sessions += 1;
        g.packets += stream.len();
    }
    g.ctx.count(&format!("rewidth-policy:{}", pol));
    *g.ctx.dist.entry(format!("rewidth-packets-changed:{}", pol)).or_insert(0) += changed as u64;
    g.reencoded += changed;
    if baseline_ok && changed > 0 {
        g.ctx.nontrivial(&format!("rewidth:{}:{}:{}:{}:{}", scheme, pol, p.tsi_class(), p.toi_bits, p.inband_fti));
    }
    // op stream: the Lean model on genuine packets at other widths
    let n = stream.len();
    let mut pick: Vec<usize> = vec![0, n / 2, n - 1];
    // the first packet of every object
    let mut seen: Vec<u128> = Vec::new();
    for (i, d) in stream.iter().enumerate() {
        if let Some(f) = rd::decode_lct(d) {
            if !seen.contains(&f.toi) {
                seen.push(f.toi);
                pick.push(i);
            }
        }
    }
    while pick.len() < ops_per_policy.min(n) {
        pick.push(g.rng2.below(n as u64) as usize);
    }
    pick.sort();
    pick.dedup();
    pick.truncate(ops_per_policy);
    for i in pick {
        let w = flags[i];
        let obs = g.step(&format!("wire rewidth {} {} {} {} {}", hex(&stream[i]), w.0, w.1, w.2, w.3));
        if obs != format!("ok {}", hex(&re[i])) {
            g.ctx.oracle_fail("C06:harness-bug", &format!("op rewidth differs from the session op's re-encoding: {}", crate::short(&obs)));
        }
        g.step(&format!("wire parse {}", hex(&re[i])));
    }
}

fn one_session(g: &mut G, idx: usize, p: &SessP, ops_per_policy: usize) {
    for (k, pol) in POLICIES.iter().enumerate() {
        one_policy(g, idx, p, pol, k == 0, ops_per_policy);
    }
}

pub fn run(g: &mut G) {
    let thorough = g.thorough;
    let (variants, extra_random, ops_per_policy) = if thorough { (8, 180, 48) } else { (4, 0, 24) };
    let mut idx = 0usize;
    for variant in 0..variants {
        for scheme in SCHEMES {
            for tsi_class in 0..3 {
                let p = session_params(g, idx, scheme, tsi_class, variant, variant >= 2);
                one_session(g, idx, &p, ops_per_policy);
                idx += 1;
            }
        }
    }
    for _ in 0..extra_random {
        let scheme = *g.rng2.pick(&SCHEMES);
        let tsi_class = g.rng2.below(3) as usize;
        let variant = g.rng2.below(8) as usize;
        let p = session_params(g, idx, scheme, tsi_class, variant, true);
        one_session(g, idx, &p, ops_per_policy);
        idx += 1;
    }
    let (s, p, r) = (g.sessions, g.packets, g.reencoded);
    g.ctx.count(&format!("rewidth-totals:sessions={},sender-packets={},packets-re-encoded-at-other-widths={},policies={}", s, p, r, POLICIES.len()));
}
