//! Seeded case generator of engine `wire` (all randomness from `Rng::new(ctx.seed)`).
//!
//!  a. `lct`   all width-class combinations x codepoints x A/B x PSI, boundary + random values per class
//!  b. `pkt`   flute's packet builder over width classes x 6 schemes x extension sets x profiles, FTI and
//!             payload-id boundary grids; every built packet is also `parse`d and `rfc`-decoded
//!  c. packets built by the independent RFC encoder (`rfcdec`): any legal width choice, unknown / long
//!             extensions mixed with the known ones -> `parse`, `plct`, `ext`, `pid`, `rfc`
//!  d. `ntp` / `untp` on a grid 1970 .. NTP era end
//!  e. malformed stream: ALL strings of <= 2 bytes, a slice of the 3-byte strings, truncations, byte
//!             substitutions and field-aware edits of a corpus of valid packets
//!  f. `close`
use crate::rfcdec as rd;
use crate::OtiV;
use harness_core::{hex, Ctx, Engine, Rng};

const CCI_CLASSES: [(u32, u32); 5] = [(0, 0), (1, 32), (33, 64), (65, 96), (97, 128)];
const TSI_CLASSES: [(u32, u32); 3] = [(0, 16), (17, 32), (33, 48)];
const TOI_CLASSES: [(u32, u32); 8] = [(0, 0), (1, 16), (17, 32), (33, 48), (49, 64), (65, 80), (81, 96), (97, 112)];
const FECS: [u8; 6] = [0, 1, 2, 5, 6, 129];
const MICROS: [u64; 8] = [0, 1, 15624, 15625, 15626, 499_999, 500_000, 999_999];
/// last second of NTP era 0 as UNIX time (2036-02-07 06:28:15 UTC)
const ERA_END_SECS: u64 = u32::MAX as u64 - rd::NTP_UNIX_OFFSET;
const TLS: [u64; 8] = [0, 1, 1 << 16, (1 << 32) - 1, 1 << 32, (1 << 40) - 1, 1 << 40, (1 << 48) - 1];
const ES: [u64; 4] = [0, 1, 1424, 65535];
const UNKNOWN_VAR_HETS: [u8; 6] = [1, 3, 10, 65, 100, 127];
const UNKNOWN_FIXED_HETS: [u8; 4] = [128, 150, 194, 255];
const HELS: [u8; 11] = [1, 2, 3, 16, 63, 64, 65, 100, 128, 200, 254];

fn class_min(c: (u32, u32)) -> u128 {
    if c.0 == 0 {
        0
    } else {
        1u128 << (c.0 - 1)
    }
}
fn class_max(c: (u32, u32)) -> u128 {
    match c.1 {
        0 => 0,
        128 => u128::MAX,
        b => (1u128 << b) - 1,
    }
}
fn class_rnd(rng: &mut Rng, c: (u32, u32)) -> u128 {
    if c.1 == 0 {
        return 0;
    }
    let w = rng.range(c.0.max(1) as u64, c.1 as u64) as u32;
    let top = 1u128 << (w - 1);
    top | (rng.u128() & (top - 1))
}
/// 0 = smallest value of the class, 1 = largest, otherwise seeded random inside the class
fn class_val(rng: &mut Rng, c: (u32, u32), which: usize) -> u128 {
    match which {
        0 => class_min(c),
        1 => class_max(c),
        _ => class_rnd(rng, c),
    }
}

fn default_oti(fec: u8) -> OtiV {
    let ss = match fec {
        2 => Some((0, 8, 1, 0)),
        6 => Some((1, 1, 1, 4)),
        1 => Some((2, 1, 1, 4)),
        _ => None,
    };
    let parity = if fec == 5 || fec == 129 || fec == 2 { 10 } else { 0 };
    OtiV { fec, inst: 0, b: 64, e: 1424, parity, ss, inband: true }
}

#[derive(Clone)]
struct PktSpec {
    oti: OtiV,
    cci: u128,
    tsi: u128,
    toi: u128,
    fdt: Option<u64>,
    cenc: u8,
    ibc: bool,
    co: bool,
    sbl: u64,
    sct: Option<u64>,
    r3926: bool,
    tl: u64,
    sbn: u64,
    esi: u64,
    payload: Vec<u8>,
}

impl PktSpec {
    fn new(fec: u8) -> PktSpec {
        PktSpec {
            oti: default_oti(fec),
            cci: 0,
            tsi: 1,
            toi: 1,
            fdt: None,
            cenc: 0,
            ibc: false,
            co: false,
            sbl: 64,
            sct: None,
            r3926: false,
            tl: 100_000,
            sbn: 0,
            esi: 0,
            payload: Vec::new(),
        }
    }
    fn fdt_pkt(fec: u8, id: u64) -> PktSpec {
        PktSpec { toi: 0, fdt: Some(id), ..PktSpec::new(fec) }
    }
    fn op(&self) -> String {
        let on = |v: &Option<u64>| v.map_or("-".to_string(), |x| x.to_string());
        let b = |v: bool| if v { 1 } else { 0 };
        format!(
            "wire pkt {} {} {} {} {} {} {} {} {} {} {} {} {} {} {}",
            self.oti.tokens(),
            self.cci,
            self.tsi,
            self.toi,
            on(&self.fdt),
            self.cenc,
            b(self.ibc),
            b(self.co),
            self.sbl,
            on(&self.sct),
            b(self.r3926),
            self.tl,
            self.sbn,
            self.esi,
            hex(&self.payload)
        )
    }
}

/// days from 1970-01-01 to <year>-01-01
fn days_to_year(year: u64) -> u64 {
    (1970..year).map(|y| if (y % 4 == 0 && y % 100 != 0) || y % 400 == 0 { 366 } else { 365 }).sum()
}

pub(crate) struct G<'a> {
    pub(crate) ctx: &'a mut Ctx,
    eng: &'a mut dyn Engine,
    rng: Rng,
    /// PRNG of the `rewidth` family (`Rng::new(seed ^ const)`: the older families keep their streams)
    pub(crate) rng2: Rng,
    corpus: Vec<Vec<u8>>,
    pub(crate) thorough: bool,
    /// op kinds of which one example went to the stats samples
    sampled: Vec<String>,
    /// `rewidth` family totals: sender sessions, sender packets, packets re-encoded at other widths
    pub(crate) sessions: usize,
    pub(crate) packets: usize,
    pub(crate) reencoded: usize,
    /// counter of malformed datagrams (subsampling of the `ipid` op)
    mal_n: u64,
    /// what the last `session` op left (the generator itself never calls flute)
    pub(crate) stash: std::rc::Rc<std::cell::RefCell<crate::Stash>>,
}

impl<'a> G<'a> {
    pub(crate) fn step(&mut self, op: &str) -> String {
        let obs = self.ctx.step(&mut *self.eng, op);
        self.ctx.evaluations += 1;
        let kind = op.split(' ').nth(1).unwrap_or("?");
        let res = if obs.starts_with("ok") {
            "ok"
        } else if obs == "ERR" {
            "ERR"
        } else if obs == "PANIC" {
            "PANIC"
        } else {
            "other"
        };
        self.ctx.count(&format!("op:{}:{}", kind, res));
        if !self.sampled.iter().any(|k| k == kind) && op.len() <= 200 && obs.len() <= 260 && (kind != "parse" || res == "ok") {
            self.sampled.push(kind.to_string());
            self.ctx.sample(format!("{} -> {}", op, obs));
        }
        if kind == "parse" && res == "ok" {
            for tag in ["S=ERR", "S=PANIC", "P=ERR", "P=PANIC"] {
                if obs.contains(tag) {
                    self.ctx.count(&format!("parse-sub:{}", tag));
                }
            }
        }
        obs
    }

    fn n(&self, quick: u64, thorough: u64) -> u64 {
        if self.thorough {
            thorough
        } else {
            quick
        }
    }

    // -------------------------------------------------------------------------------------------
    // a. push_lct_header
    // -------------------------------------------------------------------------------------------
    fn lct_op(&mut self, psi: u64, cci: u128, tsi: u128, toi: u128, cp: u8, co: bool, cs: bool) {
        self.step(&format!("wire lct {} {} {} {} {} {} {}", psi, cci, tsi, toi, cp, co as u8, cs as u8));
    }

    fn phase_lct(&mut self) {
        let mut k: usize = 0;
        for (ci, cc) in CCI_CLASSES.iter().enumerate() {
            for (ti, tc) in TSI_CLASSES.iter().enumerate() {
                for (oi, oc) in TOI_CLASSES.iter().enumerate() {
                    let w = format!("c{}t{}o{}", ci, ti, oi);
                    self.ctx.case(&format!("lct/{}", w));
                    self.ctx.count(&format!("width:lct:{}", w));
                    // boundary / random value triples, flags cycling
                    let reps = self.n(1, 4) as usize;
                    for _ in 0..reps {
                        for wc in 0..3 {
                            for wt in 0..3 {
                                for wo in 0..3 {
                                    if (cc.1 == 0 && wc > 0) || (oc.1 == 0 && wo > 0) {
                                        continue;
                                    }
                                    let cci = class_val(&mut self.rng, *cc, wc);
                                    let tsi = class_val(&mut self.rng, *tc, wt);
                                    let toi = class_val(&mut self.rng, *oc, wo);
                                    let cp = match k % 8 {
                                        7 => self.rng.below(256) as u8,
                                        6 => 255,
                                        i => FECS[i],
                                    };
                                    let ab = (k / 8 + k) % 4;
                                    let psi = (k / 3) % 4;
                                    k += 1;
                                    self.ctx.nontrivial(&format!("lct:{}:{}:{}:{}", w, k % 8, ab, psi));
                                    self.lct_op(psi as u64, cci, tsi, toi, cp, ab & 1 == 1, ab & 2 == 2);
                                }
                            }
                        }
                    }
                    // full flag product at the class minima (and maxima in thorough)
                    for which in 0..self.n(1, 2) as usize {
                        let cci = class_val(&mut self.rng, *cc, which);
                        let tsi = class_val(&mut self.rng, *tc, which);
                        let toi = class_val(&mut self.rng, *oc, which);
                        for cpi in 0..8 {
                            let cp = match cpi {
                                7 => self.rng.below(256) as u8,
                                6 => 255,
                                i => FECS[i],
                            };
                            for ab in 0..4 {
                                for psi in 0..4 {
                                    self.ctx.nontrivial(&format!("lct:{}:{}:{}:{}", w, cpi, ab, psi));
                                    self.lct_op(psi, cci, tsi, toi, cp, ab & 1 == 1, ab & 2 == 2);
                                }
                            }
                        }
                    }
                }
            }
        }
        // inner 16-bit boundaries (flute sizes the fields in half-words)
        self.ctx.case("lct/half-word-boundaries");
        for b in (16..=128).step_by(16) {
            for d in [-1i32, 0, 1] {
                let v: u128 = match (b, d) {
                    (128, -1) => u128::MAX,
                    (128, _) => continue,
                    (b, -1) => (1u128 << b) - 1,
                    (b, 0) => 1u128 << b,
                    (b, _) => (1u128 << b) + 1,
                };
                self.lct_op(0, v, 1, 1, 0, false, false);
                if v < (1 << 48) {
                    self.lct_op(0, 0, v, 1, 0, false, false);
                    self.lct_op(0, 0, v, 0, 0, false, false);
                }
                if v < (1u128 << 112) {
                    self.lct_op(0, 0, 1, v, 0, false, false);
                    self.lct_op(0, 0, 65536, v, 0, false, false);
                }
            }
        }
        // out-of-range inputs: model correspondence only (no oracle)
        self.ctx.case("lct/out-of-range");
        for tsi in [1u128 << 48, (1 << 48) + 1, 1 << 63, u64::MAX as u128, (1 << 56) | 0x1234] {
            for toi in [0u128, 1, 1 << 20] {
                self.lct_op(0, 1, tsi, toi, 0, false, false);
            }
        }
        for toi in [1u128 << 112, (1 << 112) + 1, 1 << 127, u128::MAX, (1 << 120) | 77] {
            for tsi in [0u128, 1, 1 << 20, 1 << 40] {
                self.lct_op(0, 1, tsi, toi, 0, false, false);
            }
        }
        for psi in [4u64, 5, 7, 8, 15, 16, 17, 64, 128, 255] {
            self.lct_op(psi, 1, 1, 1, 0, false, false);
            self.lct_op(psi, u128::MAX, 1 << 40, 1 << 100, 5, true, true);
        }
    }

    // -------------------------------------------------------------------------------------------
    // b. new_alc_pkt
    // -------------------------------------------------------------------------------------------
    fn do_pkt(&mut self, s: &PktSpec, keep: bool) -> Option<Vec<u8>> {
        self.ctx.count(&format!("scheme:pkt:{}", s.oti.fec));
        let obs = self.step(&s.op());
        let h = obs.strip_prefix("ok ")?.to_string();
        self.step(&format!("wire parse {}", h));
        self.step(&format!("wire ipid {}", h));
        self.step(&format!("wire rfc {}", h));
        let Some(d) = rd::unhex(&h) else {
            self.ctx.oracle_fail("C06:harness-bug", &format!("pkt observation is not hex: {}", h));
            return None;
        };
        if keep {
            self.corpus.push(d.clone());
        }
        Some(d)
    }

    /// `(fec, Z, T, F)` with F = Z*T*k + r: every residue r for small Z, a sample incl. 1 and Z-1 for big Z
    fn raptor_edge_grid() -> Vec<(u8, u64, u64, u64)> {
        let mut v = Vec::new();
        for (fec, zs) in [(6u8, vec![2u64, 3, 7, 255]), (1u8, vec![2u64, 3, 1000])] {
            for z in zs {
                let rs: Vec<u64> = if z <= 7 { (0..z).collect() } else { vec![0, 1, 2, z / 2, z - 2, z - 1] };
                for t in [4u64, 1400] {
                    for k in [1u64, 150] {
                        for r in &rs {
                            v.push((fec, z, t, z * t * k + r));
                        }
                    }
                }
            }
        }
        v
    }

    fn rand_time(&mut self) -> u64 {
        let secs = match self.rng.below(6) {
            0 => 0,
            1 => 1,
            2 => 1_700_000_000,
            3 => ERA_END_SECS,
            4 => ERA_END_SECS - 1,
            _ => self.rng.below(ERA_END_SECS + 1),
        };
        let us = if self.rng.chance(2, 3) { *self.rng.pick(&MICROS) } else { self.rng.below(1_000_000) };
        secs * 1_000_000 + us
    }

    fn rand_fdt_id(&mut self) -> u64 {
        match self.rng.below(4) {
            0 => 0,
            1 => 1,
            2 => (1 << 20) - 1,
            _ => self.rng.below(1 << 20),
        }
    }

    /// in-range (SBN, ESI, source block length) for the scheme
    fn rand_pid(&mut self, fec: u8, m: u8) -> (u64, u64, u64) {
        let (ws, wl, we) = rd::fpid_widths(fec, m.min(32)).unwrap_or((16, 0, 16));
        let we = if fec == 2 { we.min(8) } else { we }; // flute's RS GF(2^m) builder keeps 8 bits of ESI
        let pick = |w: usize, rng: &mut Rng| -> u64 {
            if w == 0 {
                return 0;
            }
            let max = if w >= 64 { u64::MAX } else { (1u64 << w) - 1 };
            match rng.below(4) {
                0 => 0,
                1 => max,
                2 => 1.min(max),
                _ => rng.next() & max,
            }
        };
        let sbn = pick(ws, &mut self.rng);
        let esi = pick(we, &mut self.rng);
        let sbl = if wl > 0 { pick(wl, &mut self.rng) } else { self.rng.below(1 << 16) };
        (sbn, esi, sbl)
    }

    fn phase_pkt(&mut self) {
        // b1. width classes x schemes x extension sets
        let mut n = 0usize;
        for (ci, cc) in CCI_CLASSES.iter().enumerate() {
            for (ti, tc) in TSI_CLASSES.iter().enumerate() {
                for (oi, oc) in TOI_CLASSES.iter().enumerate() {
                    let w = format!("c{}t{}o{}", ci, ti, oi);
                    self.ctx.case(&format!("pkt/{}", w));
                    self.ctx.count(&format!("width:pkt:{}", w));
                    for (fi, fec) in FECS.iter().enumerate() {
                        let picks = self.n(4, 16) as usize;
                        for j in 0..picks {
                            let e = (n * 4 + j + fi * 5) % 16;
                            let which = (j % 4).min(2);
                            let mut s = PktSpec::new(*fec);
                            s.cci = class_val(&mut self.rng, *cc, which);
                            s.tsi = class_val(&mut self.rng, *tc, which);
                            s.toi = class_val(&mut self.rng, *oc, which);
                            if e & 1 != 0 {
                                s.sct = Some(self.rand_time());
                            }
                            s.ibc = e & 2 != 0;
                            s.oti.inband = e & 4 != 0;
                            s.r3926 = e & 8 != 0;
                            s.cenc = self.rng.below(4) as u8;
                            s.co = self.rng.bool();
                            if s.toi == 0 {
                                s.fdt = Some(self.rand_fdt_id());
                            }
                            let nb = self.rng.below(9) as usize;
                            s.payload = self.rng.bytes(nb);
                            s.tl = *self.rng.pick(&TLS[..if *fec == 6 { 6 } else { 8 }]);
                            let (sbn, esi, sbl) = self.rand_pid(*fec, 8);
                            s.sbn = sbn;
                            s.esi = esi;
                            s.sbl = sbl;
                            self.ctx.nontrivial(&format!("pkt:{}:{}:{}", w, fec, e));
                            self.ctx.count(&format!("extset:pkt:{}{}{}{}", if s.toi == 0 { "F" } else { "-" }, if e & 1 != 0 { "T" } else { "-" }, if s.ibc { "C" } else { "-" }, if s.oti.inband { "I" } else { "-" }));
                            let keep = j < 4 && ((ci, ti, oi) == (1, 1, 1) || (ci, ti, oi) == (2, 2, 0));
                            self.do_pkt(&s, keep);
                        }
                    }
                    n += 1;
                }
            }
        }

        // b2. FTI value grids per scheme
        for fec in FECS {
            self.ctx.case(&format!("pkt/fti-grid-{}", fec));
            let bps: Vec<(u64, u64)> = match fec {
                0 => vec![(0, 0), (1, 0), (65535, 0), (65536, 0), (u32::MAX as u64, 0), (64, 7)],
                5 => vec![(1, 0), (1, 254), (255, 0), (128, 127), (200, 55), (0, 0), (255, 1), (200, 100), (256, 0), (300, 300)],
                1 | 6 => vec![(64, 0), (0, 0), (u32::MAX as u64, 0)],
                _ => vec![(1, 0), (65535, 0), (1, 65534), (32768, 32767), (0, 0), (65535, 1), (65536, 0), (40000, 40000), (u32::MAX as u64, 1)],
            };
            let mut i = 0u64;
            for tl in TLS.iter().chain([u64::MAX, 1 << 48, (1 << 56) + 5].iter()) {
                for e in ES {
                    for (b, p) in &bps {
                        let mut s = if i % 3 == 0 { PktSpec::fdt_pkt(fec, i % (1 << 20)) } else { PktSpec::new(fec) };
                        i += 1;
                        s.oti.b = *b as u32;
                        s.oti.parity = *p as u32;
                        s.oti.e = e as u16;
                        s.oti.inst = if fec == 129 { [0u16, 1, 65535, 4660][(i % 4) as usize] } else { 0 };
                        s.tl = *tl;
                        self.ctx.nontrivial(&format!("fti:{}:{}:{}:{}:{}", fec, tl, e, b, p));
                        self.do_pkt(&s, false);
                    }
                }
            }
            // scheme-specific parts
            let sss: Vec<Option<(u8, u32, u32, u32)>> = match fec {
                2 => {
                    let mut v = Vec::new();
                    for m in [0u32, 2, 4, 8, 12, 16, 31] {
                        for g in [0u32, 1, 255] {
                            v.push(Some((0, m, g, 0)));
                        }
                    }
                    v
                }
                6 => {
                    let mut v = Vec::new();
                    for z in [0u32, 1, 255] {
                        for nn in [0u32, 1, 65535] {
                            for al in [0u32, 1, 4, 8, 255] {
                                v.push(Some((1, z, nn, al)));
                            }
                        }
                    }
                    v
                }
                1 => {
                    let mut v = Vec::new();
                    for z in [0u32, 1, 65535] {
                        for nn in [0u32, 1, 255] {
                            for al in [0u32, 1, 4, 8, 255] {
                                v.push(Some((2, z, nn, al)));
                            }
                        }
                    }
                    v
                }
                _ => vec![None],
            };
            for ss in sss {
                for (tl, e) in [(1u64 << 16, 1424u64), ((1 << 40) - 1, 65535), (1, 8), (1000, 1020)] {
                    let mut s = PktSpec::new(fec);
                    s.oti.ss = ss;
                    s.oti.e = e as u16;
                    s.tl = tl;
                    self.ctx.nontrivial(&format!("fti-ss:{}:{:?}:{}:{}", fec, ss, tl, e));
                    self.do_pkt(&s, false);
                }
            }
        }

        // b3. payload id grids per scheme
        for fec in FECS {
            self.ctx.case(&format!("pkt/pid-grid-{}", fec));
            let ms: Vec<u32> = if fec == 2 { vec![8, 0, 2, 4, 12, 16, 31, 32, 40, 255] } else { vec![8] };
            for m in ms {
                let (ws, wl, we) = rd::fpid_widths(fec, (m as u8).min(32)).unwrap();
                let bounds = |w: usize, rng: &mut Rng| -> Vec<u64> {
                    let max = if w == 0 { 0 } else { (1u64 << w) - 1 };
                    let mut v = vec![0, 1.min(max), max, rng.next() & max];
                    if w < 32 {
                        v.push(max + 1); // one beyond the field (model correspondence only)
                        v.push(u32::MAX as u64);
                    }
                    v.dedup();
                    v
                };
                let sbns = bounds(ws, &mut self.rng);
                let mut esis = bounds(we, &mut self.rng);
                if fec == 2 {
                    // the builder keeps only 8 bits of ESI: mostly stay below min(2^m, 256), a few beyond
                    esis.retain(|e| *e < 256 || m > 8);
                    esis.push(255.min((1u64 << we.min(31)) - 1));
                    if m > 8 {
                        esis.push(256);
                    }
                    esis.sort();
                    esis.dedup();
                }
                let sbls: Vec<u64> = if wl > 0 { vec![0, 1, 65535, 65536, 40000] } else { vec![64] };
                for sbn in &sbns {
                    for esi in &esis {
                        for sbl in &sbls {
                            let mut s = PktSpec::new(fec);
                            if fec == 2 {
                                s.oti.ss = Some((0, m, 1, 0));
                            }
                            s.sbn = *sbn;
                            s.esi = *esi;
                            s.sbl = *sbl;
                            s.oti.inband = (sbn + esi) % 2 == 0;
                            s.payload = self.rng.bytes(3);
                            self.ctx.nontrivial(&format!("pid:{}:{}:{}:{}:{}", fec, m, sbn, esi, sbl));
                            if let Some(d) = self.do_pkt(&s, false) {
                                if fec == 2 {
                                    self.step(&format!("wire pid {} {}", hex(&d), m));
                                }
                            }
                        }
                    }
                }
            }
        }

        // b4. EXT_FDT / EXT_CENC grid
        self.ctx.case("pkt/fdt-cenc-grid");
        for fec in FECS {
            for id in [0u64, 1, (1 << 20) - 1, 0xABCDE, 1 << 20, u32::MAX as u64] {
                for r3926 in [false, true] {
                    for cenc in 0..4u8 {
                        let mut s = PktSpec::fdt_pkt(fec, id);
                        s.r3926 = r3926;
                        s.cenc = cenc;
                        s.ibc = (id + cenc as u64) % 3 == 0;
                        s.sct = if cenc % 2 == 1 { Some(self.rand_time()) } else { None };
                        self.do_pkt(&s, false);
                    }
                }
            }
        }
        // SCT grid through the packet builder
        self.ctx.case("pkt/sct-grid");
        for secs in [0u64, 1, 86399, 946_684_800, 1_700_000_000, ERA_END_SECS - 1, ERA_END_SECS, ERA_END_SECS + 1, 1 << 33] {
            for us in MICROS.iter().copied().chain([self.rng.below(1_000_000), self.rng.below(1_000_000)]) {
                let mut s = PktSpec::new(FECS[(us % 6) as usize]);
                s.sct = Some(secs * 1_000_000 + us);
                s.r3926 = us % 2 == 1;
                self.do_pkt(&s, false);
            }
        }
        // sender clock around and beyond the end of NTP era 0: the packet must stay well formed (only the SCT value
        // is relaxed by the oracle), with / without EXT_FDT and EXT_FTI behind the EXT_TIME
        self.ctx.case("pkt/sct-era");
        let day = 86_400u64 * 1_000_000;
        let era = (ERA_END_SECS + 1) * 1_000_000; // 2036-02-07T06:28:16Z, NTP seconds = 2^32
        let mut k = 0usize;
        for sct in [era - 1_000_000, era, era + 1, era + day, (1u64 << 33) * 1_000_000, 4_102_444_800u64 * 1_000_000] {
            for fdt in [true, false] {
                for inband in [true, false] {
                    let fec = FECS[k % 6];
                    k += 1;
                    let mut s = if fdt { PktSpec::fdt_pkt(fec, 77) } else { PktSpec::new(fec) };
                    s.oti.inband = inband;
                    s.sct = Some(sct);
                    s.r3926 = k % 4 == 0;
                    s.ibc = k % 3 == 0;
                    s.cenc = (k % 4) as u8;
                    s.payload = self.rng.bytes(5);
                    self.ctx.nontrivial(&format!("pkt-sct-era:{}:{}:{}:{}", sct, fdt, inband, fec));
                    self.do_pkt(&s, false);
                }
            }
        }
        // Raptor / RaptorQ: the receiver derives the maximum source block length ceil(ceil(F/Z)/T) from the EXT_FTI;
        // F = Z*T*k + r over the residues r of Z (the rounding edge is 0 < r < Z)
        self.ctx.case("pkt/raptor-block-edge");
        for (fec, z, t, f) in Self::raptor_edge_grid() {
            let mut s = PktSpec::new(fec);
            s.oti.ss = Some((if fec == 6 { 1 } else { 2 }, z as u32, 1, 4));
            s.oti.e = t as u16;
            s.tl = f;
            self.ctx.nontrivial(&format!("raptor-edge:pkt:{}:{}:{}:{}", fec, z, t, f));
            self.do_pkt(&s, false);
        }
        // b5. inputs on which the builder's assertions fire (model correspondence only)
        self.ctx.case("pkt/builder-asserts");
        for fec in FECS {
            let mut s = PktSpec::new(fec);
            s.toi = 0; // TOI 0 without FDT instance id
            self.do_pkt(&s, false);
            let mut s = PktSpec::new(fec);
            s.oti.ss = None;
            self.do_pkt(&s, false);
            s.oti.inband = false;
            self.do_pkt(&s, false);
            let mut s = PktSpec::new(fec);
            s.oti.ss = Some(match fec {
                2 => (1, 1, 1, 4),
                6 => (2, 1, 1, 4),
                _ => (0, 8, 1, 0),
            });
            self.do_pkt(&s, false);
            let mut s = PktSpec::new(fec);
            s.oti.b = u32::MAX;
            s.oti.parity = u32::MAX;
            self.do_pkt(&s, false);
        }
    }

    // -------------------------------------------------------------------------------------------
    // c. packets built by the independent encoder
    // -------------------------------------------------------------------------------------------

    /// FTI values in diagram order; `valid`: semantically valid values at field boundaries, otherwise raw random
    fn fti_vals(&mut self, fec: u8, valid: bool) -> Vec<u64> {
        let widths = rd::fti_value_widths(fec).unwrap();
        if !valid {
            return widths.iter().map(|w| if self.rng.chance(1, 4) { (1u64 << *w) - 1 } else { self.rng.next() & ((1u64 << *w) - 1) }).collect();
        }
        let tl = *self.rng.pick(&TLS[..if fec == 6 { 6 } else { 8 }]);
        let e = *self.rng.pick(&ES);
        let r = &mut self.rng;
        match fec {
            0 => vec![tl, e, *r.pick(&[0, 1, 65535, 65536, u32::MAX as u64, 1234567])],
            129 | 2 => {
                let b = *r.pick(&[1u64, 255, 256, 65535, 1000]);
                let maxn = *r.pick(&[b, 65535, (b + 10).min(65535)]);
                if fec == 129 {
                    vec![tl, *r.pick(&[0, 1, 65535, 4660]), e, b, maxn]
                } else {
                    vec![tl, *r.pick(&[2, 4, 8, 12, 16, 31]), *r.pick(&[1, 2, 255]), e, b, maxn]
                }
            }
            5 => {
                let b = *r.pick(&[1u64, 2, 128, 254, 255]);
                let maxn = *r.pick(&[b, 255, (b + 1).min(255)]);
                vec![tl, e, b, maxn]
            }
            _ => {
                let al = *r.pick(&[1u64, 2, 4, 8, 255]);
                let t = al * *r.pick(&[1, 2, 65535 / al]);
                let (z, nn) = if fec == 6 { (*r.pick(&[1u64, 2, 255]), *r.pick(&[1u64, 2, 65535])) } else { (*r.pick(&[1u64, 2, 65535]), *r.pick(&[1u64, 2, 255])) };
                vec![tl, t, z, nn, al]
            }
        }
    }

    fn rand_ext_time(&mut self) -> rd::Ext {
        let t = self.rand_time();
        let (secs, frac) = rd::micros_to_ntp(t).unwrap();
        let frac = if self.rng.chance(1, 3) { self.rng.next() as u32 } else { frac };
        let r = self.rng.next() as u32;
        let x = match self.rng.below(8) {
            0 => rd::ExtTime { sct_hi: Some(secs), ..Default::default() },
            1 => rd::ExtTime { sct_hi: Some(secs), sct_low: Some(frac), ert: Some(r), ..Default::default() },
            2 => rd::ExtTime { sct_hi: Some(secs), sct_low: Some(frac), ert: Some(r), slc: Some(7), ..Default::default() },
            3 => rd::ExtTime { ert: Some(r), ..Default::default() },
            4 => rd::ExtTime { sct_hi: Some(secs), slc: Some(r), ..Default::default() },
            _ => rd::ExtTime { sct_hi: Some(secs), sct_low: Some(frac), ..Default::default() },
        };
        rd::enc_ext_time(&x)
    }

    fn unknown_var(&mut self, het: u8, hel: u8) -> rd::Ext {
        let body = self.rng.bytes(4 * hel as usize - 2);
        rd::Ext::var(het, hel, body)
    }

    fn unknown_fixed(&mut self, het: u8) -> rd::Ext {
        let b = self.rng.bytes(3);
        rd::Ext::fixed(het, [b[0], b[1], b[2]])
    }

    /// all legal width flag choices for the values
    fn legal_widths(cci: u128, tsi: u64, toi: u128) -> Vec<(u8, u8, u8, u8)> {
        let fits = |v: u128, bits: usize| bits >= 128 || v < (1u128 << bits);
        let mut v = Vec::new();
        for c in 0..4u8 {
            for s in 0..2u8 {
                for o in 0..4u8 {
                    for h in 0..2u8 {
                        if fits(cci, 32 * (c as usize + 1)) && fits(tsi as u128, 32 * s as usize + 16 * h as usize) && fits(toi, 32 * o as usize + 16 * h as usize) {
                            v.push((c, s, o, h));
                        }
                    }
                }
            }
        }
        v
    }

    /// header + FEC payload id + payload; extensions are dropped from the end until HDR_LEN <= 255
    #[allow(clippy::too_many_arguments)]
    fn spec_bytes(&mut self, cp: u8, cci: u128, tsi: u64, toi: u128, wd: (u8, u8, u8, u8), psi: u8, a: u8, b: u8, mut exts: Vec<rd::Ext>) -> (Vec<u8>, rd::LctFields) {
        let mut f = rd::LctFields { v: 1, c: wd.0, psi, s: wd.1, o: wd.2, h: wd.3, res: 0, a, b, hdr_len: 0, cp, cci, tsi, toi, exts: Vec::new() };
        loop {
            f.exts = exts.clone();
            if f.hdr_words() <= 255 {
                break;
            }
            // shrink the longest variable-length unknown extension, else drop the last one
            let over = f.hdr_words() - 255;
            if let Some(e) = exts.iter_mut().filter(|e| e.het < 128 && e.hel as usize > over && ![rd::HET_FTI, rd::HET_TIME].contains(&e.het)).max_by_key(|e| e.hel) {
                e.hel -= over as u8;
                e.body.truncate(4 * e.hel as usize - 2);
            } else {
                exts.pop();
            }
        }
        assert!(f.is_valid(), "generator built an invalid header");
        let mut d = rd::encode_lct(&f);
        let m = match rd::find_ext(&f.exts, rd::HET_FTI).and_then(|e| rd::decode_fti(cp, e)) {
            Some(v) if cp == 2 => {
                if v[1] == 0 {
                    8
                } else {
                    v[1].min(255) as u8
                }
            }
            _ => 8,
        };
        let pid = if rd::known_fec(cp) && m <= 32 {
            let (ws, wl, we) = rd::fpid_widths(cp, m).unwrap();
            let mut pick = |w: usize| -> u32 {
                if w == 0 {
                    return 0;
                }
                let max = ((1u64 << w) - 1) as u32;
                match self.rng.below(4) {
                    0 => 0,
                    1 => max,
                    _ => (self.rng.next() as u32) & max,
                }
            };
            let id = (pick(ws), pick(we), if wl > 0 { Some(pick(wl)) } else { None });
            rd::encode_fpid(cp, m, id).unwrap()
        } else {
            self.rng.bytes(4)
        };
        d.extend(pid);
        let nb = self.rng.below(9) as usize;
        d.extend(self.rng.bytes(nb));
        // the independent decoder must read back what the independent encoder wrote
        let back = rd::decode_lct(&d).map(|mut g| {
            g.hdr_len = 0;
            g
        });
        if back.as_ref() != Some(&f) {
            self.ctx.oracle_fail("C06:harness-bug", &format!("rfcdec decode(encode(f)) != f for {}", hex(&d)));
        }
        (d, f)
    }

    fn spec_ops(&mut self, d: &[u8], f: &rd::LctFields, with_ext: bool) {
        let h = hex(d);
        self.ctx.count(&format!("scheme:spec:{}", f.cp));
        self.step(&format!("wire parse {}", h));
        self.step(&format!("wire ipid {}", h));
        self.step(&format!("wire plct {}", h));
        if with_ext {
            let mut hets: Vec<u8> = Vec::new();
            for e in &f.exts {
                if !hets.contains(&e.het) && hets.len() < 6 {
                    hets.push(e.het);
                }
            }
            let mut absent = 0;
            for het in [rd::HET_FTI, rd::HET_TIME, rd::HET_FDT, rd::HET_CENC, 77, 200] {
                if !hets.contains(&het) && absent < 2 {
                    hets.push(het);
                    absent += 1;
                }
            }
            for het in hets {
                self.step(&format!("wire ext {} {}", h, het));
            }
        }
        if f.cp == 2 {
            let m = *self.rng.pick(&[2u8, 4, 8, 12, 16, 31]);
            self.step(&format!("wire pid {} {}", h, m));
        }
        self.step(&format!("wire rfc {}", h));
    }

    /// the known extensions a FLUTE sender would put in a packet of this scheme / TOI
    fn known_exts(&mut self, cp: u8, toi: u128, valid: bool) -> Vec<rd::Ext> {
        let mut v = Vec::new();
        if toi == 0 || self.rng.chance(1, 8) {
            let id = self.rand_fdt_id() as u32;
            v.push(rd::enc_ext_fdt(if self.rng.bool() { 2 } else { 1 }, id));
        }
        if self.rng.bool() {
            let c = if valid || self.rng.bool() { self.rng.below(4) as u8 } else { *self.rng.pick(&[4u8, 255]) };
            v.push(rd::enc_ext_cenc(c));
        }
        if self.rng.bool() {
            v.push(self.rand_ext_time());
        }
        if rd::known_fec(cp) && (toi == 0 || self.rng.bool()) {
            let vals = self.fti_vals(cp, valid);
            v.push(rd::encode_fti(cp, &vals).unwrap());
        }
        v
    }

    fn phase_spec(&mut self) {
        // c1. one unknown variable-length extension of every HEL, before / between / after the known ones
        let mut rot = 0usize;
        for fec in FECS {
            self.ctx.case(&format!("spec/unknown-var-{}", fec));
            for hel in HELS {
                for pos in 0..3usize {
                    let hets: Vec<u8> = if self.thorough { UNKNOWN_VAR_HETS.to_vec() } else { vec![UNKNOWN_VAR_HETS[rot % 6]] };
                    rot += 1;
                    for het in hets {
                        let toi: u128 = if pos == 1 { 0 } else { 1 + self.rng.below(65535) as u128 };
                        let mut exts = Vec::new();
                        if toi == 0 {
                            exts.push(rd::enc_ext_fdt(2, self.rand_fdt_id() as u32));
                        }
                        let t = self.rand_time();
                        let (s, fr) = rd::micros_to_ntp(t).unwrap();
                        exts.push(rd::enc_ext_time_sct(s, fr));
                        let vals = self.fti_vals(fec, true);
                        exts.push(rd::encode_fti(fec, &vals).unwrap());
                        exts.push(rd::enc_ext_cenc(self.rng.below(4) as u8));
                        let at = match pos {
                            0 => 0,
                            1 => 1 + self.rng.below(exts.len() as u64 - 1) as usize,
                            _ => exts.len(),
                        };
                        let max_hel = 255 - 3 - exts.iter().map(|e| e.words()).sum::<usize>();
                        let u = self.unknown_var(het, hel.min(max_hel as u8));
                        exts.insert(at, u);
                        let tsi = 1 + self.rng.below(65535);
                        let (d, f) = self.spec_bytes(fec, 0, tsi, toi, (0, 0, 0, 1), 0, 0, 0, exts);
                        self.ctx.nontrivial(&format!("spec-unknown:{}:{}:{}:{}", fec, het, hel, pos));
                        self.ctx.count(if hel >= 64 { "spec:unknown-ext-hel>=64" } else { "spec:unknown-ext-hel<64" });
                        self.spec_ops(&d, &f, true);
                        if (hel == 63 || hel == 64) && pos == 1 && het == UNKNOWN_VAR_HETS[(rot - 1) % 6] {
                            self.corpus.push(d);
                        }
                    }
                }
            }
            // unknown fixed-length extension types
            self.ctx.case(&format!("spec/unknown-fixed-{}", fec));
            for het in UNKNOWN_FIXED_HETS {
                for pos in 0..3usize {
                    let toi: u128 = if pos == 2 { 0 } else { 5 };
                    let mut exts = self.known_exts(fec, toi, true);
                    let at = match pos {
                        0 => 0,
                        1 => exts.len() / 2,
                        _ => exts.len(),
                    };
                    let u = self.unknown_fixed(het);
                    exts.insert(at, u);
                    let (d, f) = self.spec_bytes(fec, 7, 9, toi, (0, 0, 1, 1), 0, 0, 0, exts);
                    self.ctx.nontrivial(&format!("spec-unknown-fixed:{}:{}:{}", fec, het, pos));
                    self.spec_ops(&d, &f, true);
                }
            }
        }

        // Raptor / RaptorQ block-length rounding edge in packets of the independent encoder
        self.ctx.case("spec/raptor-block-edge");
        for (fec, z, t, f) in Self::raptor_edge_grid() {
            let exts = vec![rd::encode_fti(fec, &[f, t, z, 1, 4]).unwrap()];
            let (d, fl) = self.spec_bytes(fec, 0, 9, 5, (0, 0, 0, 1), 0, 0, 0, exts);
            self.ctx.nontrivial(&format!("raptor-edge:spec:{}:{}:{}:{}", fec, z, t, f));
            self.spec_ops(&d, &fl, false);
        }

        // c2. every legal width choice (minimal and non-minimal) for values of every width class
        self.ctx.case("spec/width-choices");
        let triples: Vec<(u128, u64, u128)> = vec![
            (0, 0, 0),
            (1, 1, 1),
            (u32::MAX as u128, 65535, 65535),
            (1 << 32, 65536, 65536),
            (u64::MAX as u128, u32::MAX as u64, u32::MAX as u128),
            (1 << 64, 1 << 32, 1 << 32),
            ((1 << 96) - 1, (1 << 48) - 1, (1 << 48) - 1),
            (1 << 96, 1, 1 << 48),
            (u128::MAX, 77, (1 << 64) - 1),
            (5, 1 << 47, 1 << 64),
            (5, 3, (1 << 80) - 1),
            (5, 3, 1 << 80),
            (5, 3, (1 << 96) - 1),
            (5, 70000, 1 << 96),
            (5, 3, (1 << 112) - 1),
            (0, 0, 1 << 111),
        ];
        for (i, (cci, tsi, toi)) in triples.iter().enumerate() {
            for wd in Self::legal_widths(*cci, *tsi, *toi) {
                let fec = FECS[(i + wd.2 as usize) % 6];
                let exts = if wd.0 % 2 == 0 { self.known_exts(fec, *toi, true) } else { Vec::new() };
                let psi = self.rng.below(4) as u8;
                let (d, f) = self.spec_bytes(fec, *cci, *tsi, *toi, wd, psi, wd.1, wd.3, exts);
                self.ctx.nontrivial(&format!("spec-width:{}:{:?}", i, wd));
                self.ctx.count(&format!("width:spec:c{}s{}o{}h{}", wd.0, wd.1, wd.2, wd.3));
                self.spec_ops(&d, &f, false);
            }
        }

        // c3. seeded random mixtures
        let total = self.n(1500, 24000);
        for i in 0..total {
            if i % 250 == 0 {
                self.ctx.case(&format!("spec/random-{}", i / 250));
            }
            let cp = if self.rng.chance(1, 20) { *self.rng.pick(&[3u8, 4, 7, 128, 130, 255]) } else { *self.rng.pick(&FECS) };
            let cc = *self.rng.pick(&CCI_CLASSES);
            let tc = *self.rng.pick(&TSI_CLASSES);
            let oc = *self.rng.pick(&TOI_CLASSES);
            let wh = self.rng.below(4) as usize;
            let cci = class_val(&mut self.rng, cc, wh);
            let tsi = class_val(&mut self.rng, tc, wh) as u64;
            let toi = class_val(&mut self.rng, oc, wh);
            let wds = Self::legal_widths(cci, tsi, toi);
            let wd = if self.rng.chance(1, 3) { wds[0] } else { *self.rng.pick(&wds) };
            let valid = self.rng.chance(4, 5);
            let mut exts = self.known_exts(cp, toi, valid);
            // shuffle the known ones
            for j in (1..exts.len()).rev() {
                let k = self.rng.below(j as u64 + 1) as usize;
                exts.swap(j, k);
            }
            let nu = self.rng.below(4);
            for _ in 0..nu {
                let at = self.rng.below(exts.len() as u64 + 1) as usize;
                let u = if self.rng.chance(2, 3) {
                    let het = if self.rng.chance(3, 4) { *self.rng.pick(&UNKNOWN_VAR_HETS) } else { self.rng.below(128) as u8 };
                    let hel = if self.rng.chance(2, 3) { *self.rng.pick(&HELS[..9]) } else { 1 + self.rng.below(80) as u8 };
                    self.unknown_var(het, hel)
                } else {
                    let het = if self.rng.chance(3, 4) { *self.rng.pick(&UNKNOWN_FIXED_HETS) } else { 128 + self.rng.below(128) as u8 };
                    self.unknown_fixed(het)
                };
                exts.insert(at, u);
            }
            let psi = self.rng.below(4) as u8;
            let (a, b) = (self.rng.below(2) as u8, self.rng.below(2) as u8);
            let (d, f) = self.spec_bytes(cp, cci, tsi, toi, wd, psi, a, b, exts);
            let sig: Vec<String> = f.exts.iter().map(|e| if e.het < 128 { format!("{}.{}", e.het, e.hel) } else { e.het.to_string() }).collect();
            self.ctx.nontrivial(&format!("spec-rand:{}:{:?}:{}", cp, wd, sig.join(",")));
            self.spec_ops(&d, &f, true);
            if i < 12 {
                self.corpus.push(d.clone());
            }
        }
    }

    // -------------------------------------------------------------------------------------------
    // d. NTP
    // -------------------------------------------------------------------------------------------
    fn ntp_pair(&mut self, us: u64) {
        let obs = self.step(&format!("wire ntp {}", us));
        if let Some(n) = obs.strip_prefix("ok ") {
            let n = n.to_string();
            self.step(&format!("wire untp {}", n));
        }
    }

    fn phase_ntp(&mut self) {
        self.ctx.case("ntp/grid");
        let mut secs: Vec<u64> = vec![0, 1, 59, 60, 86399, 86400, ERA_END_SECS - 1, ERA_END_SECS];
        for y in 1971..=2036 {
            let s = days_to_year(y) * 86400;
            secs.push(s - 1);
            secs.push(s);
        }
        secs.push(days_to_year(2036) * 86400 + 37 * 86400); // 2036-02-07 00:00:00
        for s in secs {
            let extra = [self.rng.below(1_000_000), self.rng.below(1_000_000)];
            for us in MICROS.iter().chain(extra.iter()) {
                self.ctx.nontrivial(&format!("ntp:{}:{}", s, us));
                self.ntp_pair(s * 1_000_000 + us);
            }
        }
        for i in 0..self.n(2000, 40000) {
            if i % 2000 == 0 {
                self.ctx.case(&format!("ntp/random-{}", i / 2000));
            }
            let us = self.rng.below((ERA_END_SECS + 1) * 1_000_000);
            self.ntp_pair(us);
        }
        // every microsecond of one second: the 15625-divisibility pattern
        self.ctx.case("ntp/one-second");
        let base = 1_700_000_000u64 * 1_000_000;
        let stride = self.n(97, 31);
        let mut us = 0;
        while us < 1_000_000 {
            self.ntp_pair(base + us);
            us += stride;
        }
        for k in 0..64u64 {
            self.ntp_pair(base + k * 15625);
        }
        // beyond the era end: model correspondence only
        self.ctx.case("ntp/beyond-era");
        for s in [ERA_END_SECS + 1, ERA_END_SECS + 2, 1 << 32, (1 << 32) + 5, 1 << 40] {
            for us in [0u64, 1, 999_999] {
                self.ntp_pair(s * 1_000_000 + us);
            }
        }
        self.step(&format!("wire ntp {}", u64::MAX));
        // raw NTP values
        self.ctx.case("untp/raw");
        let off = rd::NTP_UNIX_OFFSET;
        for s in [0u64, 1, off - 1, off, off + 1, u32::MAX as u64 - 1, u32::MAX as u64] {
            for fr in [0u64, 1, 4294, 4295, 1 << 31, u32::MAX as u64 - 1, u32::MAX as u64] {
                self.step(&format!("wire untp {}", (s << 32) | fr));
            }
        }
        for _ in 0..self.n(500, 5000) {
            let v = self.rng.next();
            self.step(&format!("wire untp {}", v));
        }
    }

    // -------------------------------------------------------------------------------------------
    // e. malformed stream
    // -------------------------------------------------------------------------------------------
    /// one malformed (or mutated) datagram: `parse`, + `plct` (lvl bit 0), + `rfc` (lvl bit 1)
    fn mal(&mut self, d: &[u8], lvl: u8) {
        let h = hex(d);
        if d.len() >= 3 && 4 * d[2] as usize <= d.len() {
            self.ctx.nontrivial(&format!("mal:{}", h));
            self.ctx.count("malformed:past-first-length-check");
        } else {
            self.ctx.count("malformed:stopped-by-first-length-check");
        }
        self.step(&format!("wire parse {}", h));
        if lvl & 1 != 0 {
            self.step(&format!("wire plct {}", h));
            // a few hundred of the malformed / mutated datagrams also go through the inline payload id decoder
            self.mal_n += 1;
            if self.mal_n % 48 == 0 || self.thorough && self.mal_n % 8 == 0 {
                self.step(&format!("wire ipid {}", h));
            }
        }
        // the Lean spec decoder works on lists of naturals: keep `rfc` on long datagrams sparse in quick
        if lvl & 2 != 0 && (d.len() <= 200 || self.thorough || self.rng.chance(1, 8)) {
            self.step(&format!("wire rfc {}", h));
        }
    }

    fn phase_small(&mut self) {
        // ALL byte strings of length 0, 1, 2
        self.ctx.case("mal/len0-1");
        self.mal(&[], 3);
        for a in 0..=255u8 {
            self.mal(&[a], 3);
        }
        for a in 0..=255u8 {
            self.ctx.case(&format!("mal/len2-{:02x}", a));
            for b in 0..=255u8 {
                // `plct` on every 2-byte string in thorough, on the version-1/2 first bytes in quick
                let plct = self.thorough || a >> 4 == 1 || a >> 4 == 2;
                self.mal(&[a, b], plct as u8);
            }
        }
        self.ctx.exhaustive = true;
        // length 3: everything with first byte 0x10 / 0x20 and third byte 0..=3 ...
        for a in [0x10u8, 0x20] {
            self.ctx.case(&format!("mal/len3-{:02x}", a));
            for b in 0..=255u8 {
                for c in 0..=3u8 {
                    self.mal(&[a, b, c], 1);
                }
            }
        }
        // ... plus the rest: ALL 16.7M strings in thorough, a 1/512 seeded sample in quick
        let den = self.n(512, 1);
        for a in 0..=255u8 {
            for b in 0..=255u8 {
                if b % 16 == 0 {
                    self.ctx.case(&format!("mal/len3-rest-{:02x}{:x}", a, b >> 4));
                }
                for c in 0..=255u8 {
                    if ((a == 0x10 || a == 0x20) && c <= 3) || (den > 1 && !self.rng.chance(1, den)) {
                        continue;
                    }
                    self.mal(&[a, b, c], 0);
                }
            }
        }
        self.ctx.count(&format!("malformed:len3-rest-sampled-1/{}", den));
        // 4..8 byte strings around a minimal header
        for i in 0..self.n(3000, 60000) {
            if i % 1000 == 0 {
                self.ctx.case(&format!("mal/short-random-{}", i / 1000));
            }
            let n = 4 + self.rng.below(13) as usize;
            let mut d = self.rng.bytes(n);
            d[0] = if self.rng.chance(7, 8) { 0x10 | (d[0] & 0x0f) } else { d[0] };
            d[2] = if self.rng.chance(7, 8) { d[2] % 6 } else { d[2] };
            if self.rng.bool() {
                d[3] = *self.rng.pick(&FECS);
            }
            self.mal(&d, 3);
        }
    }

    fn phase_mutate(&mut self) {
        let corpus = std::mem::take(&mut self.corpus);
        self.ctx.count(&format!("malformed:corpus-size-{}", corpus.len()));
        for (ci, d) in corpus.iter().enumerate() {
            self.ctx.case(&format!("mal/corpus-{}", ci));
            let dec = rd::decode_packet(d);
            let (fixed, hdr, region) = match &dec {
                Some(p) => {
                    let hdr = p.hdr_octets;
                    (p.lct.fixed_octets(), hdr, (hdr + rd::fpid_octets(p.lct.cp)).min(d.len()))
                }
                None => (4, 4, d.len().min(64)),
            };
            self.mal(d, 3);
            // every truncation of the header region (+ the cut just before the end)
            for n in (0..=region).chain(if d.len() > 0 { Some(d.len() - 1) } else { None }) {
                if n < d.len() && (n <= 160 || n + 8 >= region || self.thorough || n % 16 == 0) {
                    self.mal(&d[..n], if n <= fixed + 4 { 3 } else { 2 });
                }
            }
            // single-byte substitutions in the header region
            let positions: Vec<usize> = if region <= 100 {
                (0..region).collect()
            } else {
                // long unknown extension bodies are opaque: first 60 bytes, last 40 bytes of the region
                (0..60).chain(region - 40..region).collect()
            };
            for pos in positions {
                let orig = d[pos];
                let mut vals: Vec<u8> = vec![0x00, 0xff];
                for k in 0..8 {
                    vals.push(orig ^ (1 << k));
                }
                vals.sort();
                vals.dedup();
                for v in vals {
                    if v == orig {
                        continue;
                    }
                    let mut m = d.clone();
                    m[pos] = v;
                    self.mal(&m, if pos < fixed { 3 } else if v == 0 || v == 0xff { 2 } else { 0 });
                }
            }
            // field-aware edits
            let Some(p) = dec else { continue };
            let set = |pos: usize, v: u8| {
                let mut m = d.clone();
                m[pos] = v;
                m
            };
            // HDR_LEN
            let words = (hdr / 4) as i64;
            for v in [0i64, 1, 2, (fixed / 4) as i64 - 1, (fixed / 4) as i64, words - 1, words + 1, words + 2, (d.len() / 4) as i64, (d.len() / 4) as i64 + 1, 255] {
                if (0..=255).contains(&v) && v != words {
                    self.mal(&set(2, v as u8), 3);
                }
            }
            // C / PSI / version
            for v in 0..=255u8 {
                if v >> 4 == 1 || v >> 4 == 2 || v & 0x0f == d[0] & 0x0f {
                    self.mal(&set(0, v), 3);
                }
            }
            // S / O / H / Res / A / B
            for v in 0..=255u8 {
                self.mal(&set(1, v), 3);
            }
            // codepoint
            for v in [0u8, 1, 2, 5, 6, 129, 3, 4, 7, 128, 130, 255] {
                let m = set(3, v);
                self.mal(&m, 2);
                if v == 2 {
                    for mm in [8u8, 16, 31, 32, 255] {
                        self.step(&format!("wire pid {} {}", hex(&m), mm));
                    }
                }
            }
            // per extension: HET, HEL and scheme-specific bytes
            let mut off = fixed;
            for e in &p.lct.exts {
                for v in [0u8, 2, 64, 127, 128, 192, 193, 255] {
                    self.mal(&set(off, v), 2);
                }
                if e.het < 128 {
                    let hel = e.hel as i64;
                    for v in [0i64, 1, 2, 3, 4, 5, hel - 1, hel + 1, 63, 64, 65, 128, 192, 255] {
                        if (0..=255).contains(&v) && v != hel {
                            self.mal(&set(off + 1, v as u8), 2);
                        }
                    }
                }
                match e.het {
                    rd::HET_TIME => {
                        for fl in 0..16u8 {
                            self.mal(&set(off + 2, (fl << 4) | (d[off + 2] & 0x0f)), 2);
                        }
                        if e.hel >= 2 {
                            // seconds below the 1970 offset
                            let mut m = d.clone();
                            m[off + 4..off + 8].copy_from_slice(&[0x83, 0xaa, 0x7e, 0x7f]);
                            self.mal(&m, 2);
                            m[off + 4..off + 8].copy_from_slice(&[0, 0, 0, 0]);
                            self.mal(&m, 2);
                        }
                    }
                    rd::HET_FTI => {
                        let len = 4 * e.hel as usize;
                        match p.lct.cp {
                            5 if len == 12 => {
                                // max_n < B
                                for (b, n) in [(2u8, 1u8), (255, 0), (255, 254), (1, 0), (128, 127), (0, 0)] {
                                    let mut m = d.clone();
                                    m[off + 10] = b;
                                    m[off + 11] = n;
                                    self.mal(&m, 2);
                                }
                            }
                            2 if len == 16 => {
                                for mm in [0u8, 1, 8, 16, 31, 32, 33, 64, 128, 255] {
                                    let m = set(off + 8, mm);
                                    self.mal(&m, 2);
                                    self.step(&format!("wire rfc {}", hex(&m)));
                                }
                                for g in [0u8, 255] {
                                    self.mal(&set(off + 9, g), 2);
                                }
                                let mut m = d.clone();
                                m[off + 12..off + 16].copy_from_slice(&[0xff, 0xff, 0, 1]); // max_n < B
                                self.mal(&m, 2);
                            }
                            129 if len == 16 => {
                                let mut m = d.clone();
                                m[off + 12..off + 16].copy_from_slice(&[0xff, 0xff, 0, 1]); // max_n < B
                                self.mal(&m, 2);
                            }
                            1 | 6 if len == 16 => {
                                for (a, b, v) in [(8usize, 10usize, 0u8), (10, 12, 0), (13, 14, 0), (13, 14, 3), (13, 14, 255), (12, 16, 0), (2, 10, 0xff)] {
                                    let mut m = d.clone();
                                    for x in &mut m[off + a..off + b] {
                                        *x = v;
                                    }
                                    self.mal(&m, 2);
                                }
                            }
                            _ => {}
                        }
                    }
                    _ => {}
                }
                off += 4 * e.words();
            }
        }
    }

    // -------------------------------------------------------------------------------------------
    // f. close session packets
    // -------------------------------------------------------------------------------------------
    fn phase_close(&mut self) {
        self.ctx.case("close");
        for cc in CCI_CLASSES {
            for tc in TSI_CLASSES {
                for wc in 0..3 {
                    for wt in 0..3 {
                        if cc.1 == 0 && wc > 0 {
                            continue;
                        }
                        let cci = class_val(&mut self.rng, cc, wc);
                        let tsi = class_val(&mut self.rng, tc, wt);
                        let obs = self.step(&format!("wire close {} {}", cci, tsi));
                        if let Some(h) = obs.strip_prefix("ok ") {
                            let h = h.to_string();
                            self.step(&format!("wire parse {}", h));
                            self.step(&format!("wire rfc {}", h));
                        }
                    }
                }
            }
        }
        for tsi in [1u128 << 48, u64::MAX as u128] {
            self.step(&format!("wire close 1 {}", tsi));
        }
    }
}

pub fn run(ctx: &mut Ctx, eng: &mut dyn Engine, stash: std::rc::Rc<std::cell::RefCell<crate::Stash>>) {
    ctx.rule = "lct: 5 CCI x 3 TSI x 8 TOI width classes, {min,max,random} value per class, codepoints {0,1,2,5,6,129,255,random} x A/B x PSI 0..3 \
                (full flag product at the class minima); pkt: the same width classes x 6 FEC schemes x 16 extension sets (SCT, in-band CENC, in-band FTI, \
                profile) + FDT packets, per-scheme EXT_FTI grids (transfer length, E, B, parity, scheme-specific) and payload-id grids over the SBN/ESI \
                ranges, each built packet parsed back; packets built by the independent RFC encoder with every legal (non-minimal too) C/S/O/H choice and \
                unknown / long (HEL up to 253) extensions before/between/after the known ones -> parse, plct, get_ext, pid; NTP grid 1970..2036-02-07 x \
                micros {0,1,15624,15625,15626,499999,500000,999999,random}; malformed: ALL byte strings of length <= 2, 3-byte slice, every truncation, \
                byte substitutions {00,ff,bit flips} and field-aware edits of a corpus of valid packets. Oracle: independent RFC decoder/encoder (rfcdec). \
                non-trivial = distinct (width class, scheme, extension set) builds, distinct FTI / payload-id value tuples, distinct spec-built \
                (scheme, widths, extension list) shapes, distinct malformed inputs passing the first length check. \
                rewidth: real Sender sessions (NoCode / RS28 / RS28 under-specified / RaptorQ / Raptor x TSI 16/32/48 bit x TOI max length 16..112 bit, \
                in-band FTI on/off, FDT sender current time on/off, both profiles, cenc null + zlib/gzip/deflate, 1-3 objects of 0 / 1 / hundreds / \
                thousands of bytes); every packet re-serialised by the independent encoder at other legal C/S/O/H flags (policies max, tsi48-toi112, \
                cci128, min-hflip, random per packet) and pushed through a fresh real Receiver: delivered objects + FDT instances identical to the \
                baseline reception, flute's parse identical except lengths/offsets; a subsample goes through ops `rewidth` + `parse` against the Lean \
                model; TSI < 2^48 is covered at all three width classes (<= 16, 17..32, 33..48 bit) with both boundaries of each class + seeded random \
                values by the lct family (min/max/random per class x all CCI/TOI classes), the pkt family (b1: min, max, random per class x 6 schemes) and \
                real Sender sessions (rewidth: 16/32/48-bit TSI; sender-range tsi: 2^48-1 as in-range control, >= 2^48 observation only); \
                non-trivial = distinct (scheme, policy, TSI class, TOI max length, in-band FTI) with a complete baseline and >= 1 packet changed. \
                sender-range: a real Sender configured at / beyond the field ranges the C06 theorems assume (fdt_start_id around 2^20 and 2^32-1, TSI around \
                2^48, Reed-Solomon B + parity beyond 8 / 16 bits, RaptorQ transfer length around 2^40): what it emits is read by rfcdec and must carry the \
                configured values (or the sender must refuse the configuration)"
        .split_whitespace()
        .collect::<Vec<_>>()
        .join(" ");
    let rng = Rng::new(ctx.seed);
    let thorough = ctx.tier_thorough;
    let rng2 = Rng::new(ctx.seed ^ 0x5EED_0F1D_7C06);
    let mut g = G { ctx, eng, rng, rng2, corpus: Vec::new(), thorough, sampled: Vec::new(), sessions: 0, packets: 0, reencoded: 0, mal_n: 0, stash };
    g.phase_lct();
    g.phase_pkt();
    g.phase_spec();
    g.phase_ntp();
    g.phase_close();
    g.phase_small();
    g.phase_mutate();
    crate::rewidth::run(&mut g);
    crate::sender_range::run(&mut g);
}
