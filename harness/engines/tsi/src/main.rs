//! C18: multi-session demultiplexing, TSI filter reference counting, session listener events.
//!
//! Everything runs through the public API (`MultiReceiver`, `MultiReceiverListener`, `ObjectWriterBuilder`,
//! `Sender`).  The observation compared with the Lean model is: per filter-op sequence the accept bit of every
//! probe packet (= did the real MultiReceiver open a session for it), per push/cleanup/drop the listener events
//! fired.  The oracle is the property itself on the implementation's observations: reference-count semantics
//! of the filter (independent saturating counters kept here), alternation of listener events per key,
//! callbacks carrying the packet's own (endpoint, tsi), per-session callback sequences equal to a solo run.
use flute::core::UDPEndpoint;
use flute::receiver::writer::{ObjectMetadata, ObjectWriter, ObjectWriterBuilder, ObjectWriterBuilderResult};
use flute::receiver::{Config, MultiReceiver, MultiReceiverListener, ReceiverEndpoint};
use flute::sender;
use harness_core::{guarded, Ctx, Engine, Oracle, Rng};
use std::cell::RefCell;
use std::collections::{BTreeMap, BTreeSet, HashMap};
use std::panic::AssertUnwindSafe;
use std::rc::Rc;
use std::time::{Duration, Instant, SystemTime};

/// session timeout used for expiry cases and the real time one `tick` sleeps (strictly more than the timeout)
const T_MS: u64 = 1500;
const TICK_MS: u64 = 1700;
const RACE_T_MS: u64 = 8;
/// a pause = 3/10 of the session time-out: traffic spaced by pauses keeps a session alive across several time-outs
const PAUSE_MS: u64 = 450;
const BASE_S: u64 = 1_700_000_000;

fn base_now() -> SystemTime {
    SystemTime::UNIX_EPOCH + Duration::from_secs(BASE_S)
}

// ---------------------------------------------------------------------------------------------------------
// tokens

fn parse_ep(s: &str) -> Option<UDPEndpoint> {
    let p: Vec<&str> = s.split('/').collect();
    if p.len() != 3 {
        return None;
    }
    let src = if p[0] == "-" { None } else { Some(format!("10.0.0.{}", p[0].parse::<u32>().ok()?)) };
    let dst = format!("224.0.1.{}", p[1].parse::<u32>().ok()?);
    let port: u16 = p[2].parse().ok()?;
    Some(UDPEndpoint::new(src, dst, port))
}

fn last_num(s: &str) -> String {
    s.rsplit('.').next().unwrap_or("?").to_string()
}

fn ep_tok(e: &UDPEndpoint) -> String {
    let src = match &e.source_address {
        None => "-".to_string(),
        Some(s) => last_num(s),
    };
    format!("{}/{}/{}", src, last_num(&e.destination_group_address), e.port)
}

fn key_tok(e: &UDPEndpoint, tsi: u64) -> String {
    format!("{}:{}", ep_tok(e), tsi)
}

fn no_src(e: &UDPEndpoint) -> UDPEndpoint {
    let mut x = e.clone();
    x.source_address = None;
    x
}

fn fnv(b: &[u8]) -> u64 {
    let mut h: u64 = 0xcbf29ce484222325;
    for x in b {
        h ^= *x as u64;
        h = h.wrapping_mul(0x100000001b3);
    }
    h
}

// ---------------------------------------------------------------------------------------------------------
// recording listener and writer

type EvLog = Rc<RefCell<Vec<(bool, String)>>>;

struct Listener {
    log: EvLog,
}
impl MultiReceiverListener for Listener {
    fn on_session_open(&self, e: &ReceiverEndpoint) {
        self.log.borrow_mut().push((true, key_tok(&e.endpoint, e.tsi)));
    }
    fn on_session_closed(&self, e: &ReceiverEndpoint) {
        self.log.borrow_mut().push((false, key_tok(&e.endpoint, e.tsi)));
    }
}

#[derive(Clone, Debug)]
struct Cb {
    key: String,
    toi: String,
    what: String,
}
type CbLog = Rc<RefCell<Vec<Cb>>>;

struct RecBuilder {
    log: CbLog,
}
struct RecWriter {
    key: String,
    toi: String,
    log: CbLog,
}
impl RecWriter {
    fn rec(&self, what: String) {
        self.log.borrow_mut().push(Cb { key: self.key.clone(), toi: self.toi.clone(), what });
    }
}
impl ObjectWriterBuilder for RecBuilder {
    fn new_object_writer(
        &self,
        endpoint: &UDPEndpoint,
        tsi: &u64,
        toi: &u128,
        meta: &ObjectMetadata,
        _now: SystemTime,
    ) -> ObjectWriterBuilderResult {
        let w = RecWriter { key: key_tok(endpoint, *tsi), toi: toi.to_string(), log: self.log.clone() };
        w.rec(format!("new cl={} len={:?} tl={:?}", meta.content_location, meta.content_length, meta.transfer_length));
        ObjectWriterBuilderResult::StoreObject(Box::new(w))
    }
    fn update_cache_control(&self, endpoint: &UDPEndpoint, tsi: &u64, toi: &u128, _meta: &ObjectMetadata, _now: SystemTime) {
        self.log.borrow_mut().push(Cb { key: key_tok(endpoint, *tsi), toi: toi.to_string(), what: "cache".into() });
    }
    fn fdt_received(
        &self,
        endpoint: &UDPEndpoint,
        tsi: &u64,
        fdt_xml: &str,
        _expires: SystemTime,
        _meta: &ObjectMetadata,
        _transfer_duration: Duration,
        _now: SystemTime,
        _ext_time: Option<SystemTime>,
    ) {
        self.log.borrow_mut().push(Cb {
            key: key_tok(endpoint, *tsi),
            toi: "fdt".into(),
            what: format!("fdt {:016x}", fnv(fdt_xml.as_bytes())),
        });
    }
}
impl ObjectWriter for RecWriter {
    fn open(&self, _now: SystemTime) -> flute::error::Result<()> {
        self.rec("open".into());
        Ok(())
    }
    fn write(&self, sbn: u32, data: &[u8], _now: SystemTime) -> flute::error::Result<()> {
        self.rec(format!("write {} {} {:016x}", sbn, data.len(), fnv(data)));
        Ok(())
    }
    fn complete(&self, _now: SystemTime) {
        self.rec("complete".into());
    }
    fn error(&self, _now: SystemTime) {
        self.rec("error".into());
    }
    fn interrupted(&self, _now: SystemTime) {
        self.rec("interrupted".into());
    }
    fn enable_md5_check(&self) -> bool {
        true
    }
}

// ---------------------------------------------------------------------------------------------------------
// packet streams from a real Sender

struct Stream {
    tsi: u64,
    pkts: Vec<Rc<Vec<u8>>>,
    close: Rc<Vec<u8>>,
}

fn make_stream(ep: &UDPEndpoint, tsi: u64, seed: u64, nobj: u32) -> Stream {
    let mut rng = Rng::new(seed.wrapping_mul(0x9E37_79B9).wrapping_add(tsi));
    let sym = *rng.pick(&[64u16, 100, 256, 512]);
    let sbl = *rng.pick(&[2u16, 8, 64]);
    let oti = flute::core::Oti::new_no_code(sym, sbl);
    let cfg = sender::Config::default();
    let mut s = sender::Sender::new(ep.clone(), tsi, &oti, &cfg);
    let now = base_now();
    for j in 0..nobj {
        let len = match rng.below(4) {
            0 => rng.below(4) as usize,
            1 => sym as usize * rng.range(1, 4) as usize,
            _ => rng.below(2500) as usize,
        };
        let content = rng.bytes(len);
        let url = url::Url::parse(&format!("file:///s{}/t{}/o{}", seed, tsi, j)).unwrap();
        let obj = sender::ObjectDesc::create_from_buffer(content, "application/octet-stream", &url, true, sender::TransferConfig::default())
            .unwrap();
        s.add_object(0, obj).unwrap();
    }
    s.publish(now).unwrap();
    let mut pkts = Vec::new();
    while let Some(p) = s.read(now) {
        pkts.push(Rc::new(p));
        if pkts.len() >= 3000 {
            break;
        }
    }
    let close = Rc::new(s.read_close_session(now));
    Stream { tsi, pkts, close }
}

thread_local! {
    /// annotation of the last executed operation: ` #<key>=<n>` per session = number of writer callbacks it made
    /// sessions closed by cleanup (not by drop) in the last `race`
    static RACE_IN_CLEANUP: std::cell::Cell<u64> = std::cell::Cell::new(0);
    static LAST_ANNOT: RefCell<String> = RefCell::new(String::new());
    /// observation of the `cbs` line that may follow the last executed operation
    static LAST_CB: RefCell<String> = RefCell::new(String::new());
    static STREAMS: RefCell<HashMap<String, Rc<Stream>>> = RefCell::new(HashMap::new());
}

/// streams are cached by their spec so that the generator (which needs the lengths) and the engine share them
fn get_stream(ep_tok_s: &str, tsi: u64, seed: u64, nobj: u32) -> Option<Rc<Stream>> {
    let spec = format!("{} {} {} {}", ep_tok_s, tsi, seed, nobj);
    if let Some(s) = STREAMS.with(|m| m.borrow().get(&spec).cloned()) {
        return Some(s);
    }
    let ep = parse_ep(ep_tok_s)?;
    let st = Rc::new(make_stream(&ep, tsi, seed, nobj));
    STREAMS.with(|m| {
        let mut m = m.borrow_mut();
        if m.len() > 64 {
            m.clear();
        }
        m.insert(spec, st.clone());
    });
    Some(st)
}

/// the 8 standard probes: 2 endpoints x (no source | source 10.0.0.7) x TSI 1,2
fn default_probes() -> Vec<(UDPEndpoint, u64)> {
    let mut v = Vec::new();
    for d in [0, 1] {
        for src in ["-", "7"] {
            for tsi in [1u64, 2] {
                v.push((parse_ep(&format!("{}/{}/5000", src, d)).unwrap(), tsi));
            }
        }
    }
    v
}

thread_local! {
    static GARBAGE: RefCell<Vec<Rc<Vec<u8>>>> = RefCell::new(Vec::new());
}

/// datagrams that flute's own parser rejects (checked here, not assumed): empty / too short, unsupported version,
/// genuine packets truncated inside the header, with an impossible header length, with an unknown FEC codepoint
fn garbage_variants() -> Vec<Rc<Vec<u8>>> {
    let cached = GARBAGE.with(|g| g.borrow().clone());
    if !cached.is_empty() {
        return cached;
    }
    let ep = UDPEndpoint::new(None, "224.0.1.0".to_string(), 5000);
    let st = make_stream(&ep, 1, 777, 1);
    let mut cands: Vec<Vec<u8>> = vec![vec![0x00, 0x00, 0x01, 0x00, 0xde, 0xad, 0xbe, 0xef], vec![], vec![0x10], vec![0x10, 0x00, 0x00]];
    for p in st.pkts.iter().take(3) {
        for cut in [5usize, 9, 13] {
            if p.len() > cut {
                cands.push(p[..cut].to_vec());
            }
        }
        let mut q = (**p).clone();
        q[2] = 0xff;
        cands.push(q);
        let mut q = (**p).clone();
        q[3] = 200;
        cands.push(q);
    }
    let v: Vec<Rc<Vec<u8>>> = cands
        .into_iter()
        .filter(|d| matches!(guarded(AssertUnwindSafe(|| flute::core::alc::parse_alc_pkt(d).is_err())), Ok(true)))
        .map(Rc::new)
        .collect();
    GARBAGE.with(|g| *g.borrow_mut() = v.clone());
    v
}

// ---------------------------------------------------------------------------------------------------------
// engine

#[derive(Clone)]
enum HOp {
    New(bool, bool),
    Add(UDPEndpoint, u64),
    Rm(UDPEndpoint, u64),
    AddAll(UDPEndpoint),
    RmAll(UDPEndpoint),
    Filt(bool),
    /// `neutral`: for a packet edited in a way that must not change what it delivers (A flag set, CCI rewritten)
    /// the unedited packet; `a_edit`: the edit set the Close Session flag; `close`: the stream's bare close packet
    /// `acc`: the independent reference counters accept the packet at that point
    Push { ep: UDPEndpoint, key: String, data: Rc<Vec<u8>>, now: SystemTime, neutral: Option<Rc<Vec<u8>>>, a_edit: bool, close: Option<Rc<Vec<u8>>>, acc: bool },
    Tick,
    Cleanup(SystemTime),
    Drop,
}

struct Live {
    mr: MultiReceiver,
    ev: EvLog,
    cb: CbLog,
}

fn new_live(filtering: bool, timeout: bool, t_ms: u64) -> Live {
    let ev: EvLog = Rc::new(RefCell::new(Vec::new()));
    let cb: CbLog = Rc::new(RefCell::new(Vec::new()));
    let cfg = Config { session_timeout: if timeout { Some(Duration::from_millis(t_ms)) } else { None }, ..Default::default() };
    let mut mr = MultiReceiver::new(Rc::new(RecBuilder { log: cb.clone() }), Some(cfg), filtering);
    mr.add_listener(Listener { log: ev.clone() });
    Live { mr, ev, cb }
}

/// canonical per-session view of a callback log: per TOI the sequence of callbacks (the order between different
/// TOIs inside one push depends on HashMap iteration inside Receiver and is not part of the property)
fn canon(cbs: &[Cb], key: &str) -> BTreeMap<String, Vec<String>> {
    let mut m: BTreeMap<String, Vec<String>> = BTreeMap::new();
    for c in cbs.iter().filter(|c| c.key == key) {
        m.entry(c.toi.clone()).or_default().push(c.what.clone());
    }
    m
}

/// per key (sorted) the sequence of open/close marks: the order between different keys inside one cleanup / drop
/// depends on HashMap iteration and is not part of the property
fn canon_log(evs: &[(bool, String)]) -> Vec<String> {
    let mut m: BTreeMap<&str, String> = BTreeMap::new();
    for (op, k) in evs {
        m.entry(k.as_str()).or_default().push(if *op { '+' } else { '-' });
    }
    m.into_iter().map(|(k, v)| format!("{}={}", k, v)).collect()
}

#[derive(Default)]
struct Spec {
    filtering: bool,
    cnt: BTreeMap<String, u64>,
    byp: BTreeMap<String, u64>,
}
impl Spec {
    fn accepted(&self, ep: &UDPEndpoint, tsi: u64) -> bool {
        if !self.filtering {
            return true;
        }
        self.byp.get(&ep_tok(ep)).copied().unwrap_or(0) > 0
            || self.cnt.get(&key_tok(ep, tsi)).copied().unwrap_or(0) > 0
            || self.cnt.get(&key_tok(&no_src(ep), tsi)).copied().unwrap_or(0) > 0
    }
    fn inc(m: &mut BTreeMap<String, u64>, k: String) {
        *m.entry(k).or_insert(0) += 1;
    }
    fn dec(m: &mut BTreeMap<String, u64>, k: String) -> bool {
        let e = m.entry(k).or_insert(0);
        if *e > 0 {
            *e -= 1;
            true
        } else {
            false
        }
    }
}

pub struct TsiEngine {
    probes: Vec<(UDPEndpoint, u64)>,
    probe_pkts: HashMap<u64, Rc<Vec<u8>>>,
    live: Option<Live>,
    timeout: bool,
    streams: HashMap<u32, Rc<Stream>>,
    spec: Spec,
    pending: BTreeSet<String>,
    stale: BTreeSet<String>,
    hist: Vec<HOp>,
    reps: Vec<Rep>,
    all_ev: Vec<(bool, String)>,
    all_cb: Vec<Cb>,
    had_tick: bool,
    pause_ok: bool,
    has_neutral_edits: bool,
    opn: u64,
    /// secondary listeners: id -> (log, index into all_ev at registration, index at removal)
    sec: HashMap<u64, (EvLog, usize, Option<usize>, u64)>,
    /// wall-clock instant of the last accepted data packet per key (diagnosis of harness stalls only)
    last_data: HashMap<String, Instant>,
    pub completes: usize,
    pub sessions_with_complete: usize,
}

impl TsiEngine {
    fn new() -> TsiEngine {
        TsiEngine {
            probes: default_probes(),
            probe_pkts: HashMap::new(),
            live: None,
            timeout: false,
            streams: HashMap::new(),
            spec: Spec::default(),
            pending: BTreeSet::new(),
            stale: BTreeSet::new(),
            hist: Vec::new(),
            reps: Vec::new(),
            all_ev: Vec::new(),
            all_cb: Vec::new(),
            had_tick: false,
            pause_ok: false,
            has_neutral_edits: false,
            opn: 0,
            sec: HashMap::new(),
            last_data: HashMap::new(),
            completes: 0,
            sessions_with_complete: 0,
        }
    }

    /// a genuine data packet (TOI != 0) carrying `tsi`
    fn probe_pkt(&mut self, tsi: u64) -> Rc<Vec<u8>> {
        if let Some(p) = self.probe_pkts.get(&tsi) {
            return p.clone();
        }
        let ep = UDPEndpoint::new(None, "224.0.1.0".to_string(), 5000);
        let st = make_stream(&ep, tsi, 4242, 1);
        let p = st
            .pkts
            .iter()
            .find(|p| flute::core::alc::parse_alc_pkt(p).map(|a| a.lct.toi != 0).unwrap_or(false))
            .cloned()
            .unwrap_or_else(|| st.pkts[0].clone());
        self.probe_pkts.insert(tsi, p.clone());
        p
    }

    fn now(&mut self) -> SystemTime {
        self.opn += 1;
        base_now() + Duration::from_millis(self.opn)
    }

    /// alternation bookkeeping for one listener event
    fn on_event(&mut self, opened: bool, key: &str, o: &mut Oracle) {
        if opened {
            if !self.pending.insert(key.to_string()) {
                o.fail("listener-double-open", &format!("on_session_open for {} while its previous open has not been closed", key));
            }
            self.stale.remove(key);
        } else {
            if !self.pending.remove(key) {
                o.fail("listener-close-without-open", &format!("on_session_closed for {} without a pending open", key));
            }
            self.stale.remove(key);
        }
    }

    fn take_events(&mut self) -> Vec<(bool, String)> {
        let l = self.live.as_ref().unwrap();
        let evs: Vec<(bool, String)> = l.ev.borrow_mut().drain(..).collect();
        self.all_ev.extend(evs.iter().cloned());
        evs
    }
    fn take_cbs(&mut self) -> Vec<Cb> {
        let l = self.live.as_ref().unwrap();
        let cbs: Vec<Cb> = l.cb.borrow_mut().drain(..).collect();
        self.all_cb.extend(cbs.iter().cloned());
        cbs
    }

    fn fseq(&mut self, toks: &[&str], o: &mut Oracle) -> String {
        let mut l = new_live(true, false, T_MS);
        let mut spec = Spec { filtering: true, ..Default::default() };
        for t in toks {
            let p: Vec<&str> = t.split(':').collect();
            match (p[0], p.len()) {
                ("a", 3) | ("r", 3) => {
                    let (ep, tsi) = match (parse_ep(p[1]), p[2].parse::<u64>()) {
                        (Some(e), Ok(t)) => (e, t),
                        _ => return "bad-op".into(),
                    };
                    if p[0] == "a" {
                        Spec::inc(&mut spec.cnt, key_tok(&ep, tsi));
                        l.mr.add_listen_tsi(ep, tsi);
                    } else {
                        Spec::dec(&mut spec.cnt, key_tok(&ep, tsi));
                        l.mr.remove_listen_tsi(&ep, tsi);
                    }
                }
                ("A", 2) | ("R", 2) => {
                    let ep = match parse_ep(p[1]) {
                        Some(e) => e,
                        None => return "bad-op".into(),
                    };
                    if p[0] == "A" {
                        Spec::inc(&mut spec.byp, ep_tok(&ep));
                        l.mr.add_listen_all_tsi(ep);
                    } else {
                        Spec::dec(&mut spec.byp, ep_tok(&ep));
                        l.mr.remove_listen_all_tsi(&ep);
                    }
                }
                _ => return "bad-op".into(),
            }
        }
        let mut bits = String::with_capacity(self.probes.len());
        let now = base_now();
        let probes = self.probes.clone();
        for (ep, tsi) in probes.iter() {
            let pkt = self.probe_pkt(*tsi);
            let r = guarded(AssertUnwindSafe(|| l.mr.push(ep, &pkt, now)));
            if r.is_err() {
                return "PANIC".into();
            }
            let evs: Vec<(bool, String)> = l.ev.borrow_mut().drain(..).collect();
            let want_key = key_tok(ep, *tsi);
            let opened = evs.len() == 1 && evs[0].0 && evs[0].1 == want_key;
            if !evs.is_empty() && !opened {
                o.fail("listener-events", &format!("probe {} fired unexpected listener events {:?}", want_key, evs));
            }
            let want = spec.accepted(ep, *tsi);
            if want && !opened {
                o.fail("filter-accept", &format!("packet {} must be processed (bypass or reference count > 0) but no session was opened", want_key));
            }
            if !want && opened {
                o.fail("filter-reject", &format!("packet {} must be skipped (all reference counts are 0) but a session was opened", want_key));
            }
            bits.push(if opened { '1' } else { '0' });
        }
        bits
    }

    /// records `cb=<key>,<key>,...` (the (endpoint, tsi) carried by every writer callback of the call, sorted) - the
    /// observation of the `cbs` line that follows - and the annotation handed to the model with that line (how many
    /// callbacks per session)
    fn cb_obs(obs: String, cbs: &[Cb]) -> String {
        if cbs.is_empty() {
            return obs;
        }
        let mut ks: Vec<&str> = cbs.iter().map(|c| c.key.as_str()).collect();
        ks.sort();
        let mut cnt: BTreeMap<&str, usize> = BTreeMap::new();
        for k in ks.iter() {
            *cnt.entry(k).or_insert(0) += 1;
        }
        let annot: String = cnt.iter().map(|(k, n)| format!(" #{}={}", k, n)).collect();
        LAST_ANNOT.with(|a| *a.borrow_mut() = annot);
        LAST_CB.with(|a| *a.borrow_mut() = format!("ok cb={}", ks.join(",")));
        obs
    }

    fn events_obs(pre: &str, evs: &[(bool, String)], sort: bool) -> String {
        let mut v: Vec<String> = evs.iter().map(|(op, k)| format!("{}{}", if *op { "+" } else { "-" }, k)).collect();
        if sort {
            v.sort();
        }
        if v.is_empty() {
            pre.to_string()
        } else {
            format!("{} {}", pre, v.join(" "))
        }
    }

    #[allow(clippy::too_many_arguments)]
    fn push(
        &mut self,
        ep: UDPEndpoint,
        tsi: u64,
        kind: &str,
        data: Rc<Vec<u8>>,
        neutral: Option<Rc<Vec<u8>>>,
        a_edit: bool,
        b_edit: bool,
        close: Option<Rc<Vec<u8>>>,
        o: &mut Oracle,
    ) -> String {
        // the op line's claim about the packet must be what flute's own parser says
        match (kind, flute::core::alc::parse_alc_pkt(&data)) {
            ("x", Err(_)) => {}
            ("d", Ok(a)) if a.lct.tsi == tsi && !a.lct.close_session => {}
            ("c", Ok(a)) if a.lct.tsi == tsi && a.lct.close_session => {}
            _ => return "bad-op".into(),
        }
        if self.live.is_none() {
            return "bad-op".into();
        }
        let now = self.now();
        let key = key_tok(&ep, tsi);
        if kind != "x" {
            if neutral.is_some() {
                self.has_neutral_edits = true;
            }
            let acc = self.spec.accepted(&ep, tsi);
            self.record(HOp::Push { ep: ep.clone(), key: key.clone(), data: data.clone(), now, neutral, a_edit, close, acc });
        }
        let r = {
            let l = self.live.as_mut().unwrap();
            guarded(AssertUnwindSafe(|| l.mr.push(&ep, &data, now)))
        };
        let evs = self.take_events();
        let cbs = self.take_cbs();
        // Ok / Err of a datagram is not part of C18 (for a dispatched packet it is the opaque Receiver's result, for an
        // unparsable one it is C04's): only "returned" vs "panicked" is printed
        if r.is_err() {
            return "PANIC".into();
        }
        let res = "ok";
        let _ = b_edit;
        let was_pending = self.pending.contains(&key);
        for (op, k) in evs.iter() {
            if *k != key {
                o.fail("listener-foreign-key", &format!("push of a packet of {} fired a listener event for {}", key, k));
            }
            self.on_event(*op, k, o);
        }
        for c in cbs.iter() {
            if c.key != key {
                o.fail("callback-key", &format!("packet of session {} produced writer callback `{}` carrying {}", key, c.what, c.key));
            }
        }
        let opened = evs.iter().any(|(op, k)| *op && *k == key);
        let closed = evs.iter().any(|(op, k)| !*op && *k == key);
        match kind {
            "x" => {
                if !evs.is_empty() || !cbs.is_empty() {
                    o.fail("garbage-processed", "an unparsable datagram must have no effect on sessions, listeners and writers");
                }
            }
            _ => {
                let acc = self.spec.accepted(&ep, tsi);
                if !acc && (!evs.is_empty() || !cbs.is_empty()) {
                    o.fail("filter-reject", &format!("packet {} must be skipped (filtering on, all reference counts 0) but it was processed: events {:?}, {} callbacks", key, evs, cbs.len()));
                }
                if acc && kind == "d" {
                    if !was_pending && !opened {
                        o.fail("filter-accept", &format!("packet {} must be processed but no session was opened for it", key));
                    }
                    self.stale.remove(&key);
                    self.last_data.insert(key.clone(), Instant::now());
                }
                if acc && kind == "c" && was_pending && !closed {
                    o.fail("listener-missing-close", &format!("close-session packet for the open session {} fired no on_session_closed", key));
                }
            }
        }
        Self::cb_obs(Self::events_obs(res, &evs, false), &cbs)
    }

    fn cleanup(&mut self, o: &mut Oracle) -> String {
        if self.live.is_none() {
            return "bad-op".into();
        }
        if self.timeout {
            for k in self.pending.iter().filter(|k| !self.stale.contains(*k)) {
                if let Some(t) = self.last_data.get(k) {
                    if t.elapsed() > Duration::from_millis(T_MS / 2) {
                        eprintln!("tsi: HARNESS STALL: {:?} since the last packet of the fresh session {} (session time-out {} ms); expiry observations of this case may be off", t.elapsed(), k, T_MS);
                    }
                }
            }
        }
        let now = self.now();
        self.record(HOp::Cleanup(now));
        let r = {
            let l = self.live.as_mut().unwrap();
            guarded(AssertUnwindSafe(|| l.mr.cleanup(now)))
        };
        if r.is_err() {
            return "PANIC".into();
        }
        let evs = self.take_events();
        let cbs = self.take_cbs();
        let pending_before = self.pending.clone();
        let stale_before = self.stale.clone();
        for c in cbs.iter() {
            if !pending_before.contains(&c.key) {
                o.fail("callback-key", &format!("cleanup produced writer callback `{}` carrying {} which is no open session", c.what, c.key));
            }
        }
        for (op, k) in evs.iter() {
            if *op {
                o.fail("listener-events", &format!("cleanup fired on_session_open for {}", k));
            } else if self.timeout && !stale_before.contains(k) && pending_before.contains(k) {
                o.fail("listener-expiry-early", &format!("cleanup closed session {} although it received data after the last time-out period", k));
            } else if !self.timeout && pending_before.contains(k) {
                o.fail("listener-expiry-early", &format!("cleanup closed session {} although no session time-out is configured", k));
            }
            self.on_event(*op, k, o);
        }
        if self.timeout {
            for k in stale_before.iter() {
                if pending_before.contains(k) && !evs.iter().any(|(op, x)| !*op && x == k) {
                    o.fail("listener-expiry-not-closed", &format!("session {} is past its time-out but cleanup fired no on_session_closed", k));
                }
            }
        }
        Self::cb_obs(Self::events_obs("ok", &evs, true), &cbs)
    }

    fn do_drop(&mut self, o: &mut Oracle) -> String {
        if self.live.is_none() {
            return "bad-op".into();
        }
        self.record(HOp::Drop);
        let l = self.live.take().unwrap();
        let Live { mr, ev, cb } = l;
        let r = guarded(AssertUnwindSafe(move || drop(mr)));
        if r.is_err() {
            return "PANIC".into();
        }
        let evs: Vec<(bool, String)> = ev.borrow_mut().drain(..).collect();
        self.all_ev.extend(evs.iter().cloned());
        let cbs: Vec<Cb> = cb.borrow_mut().drain(..).collect();
        self.all_cb.extend(cbs.iter().cloned());
        let pending_before = self.pending.clone();
        for c in cbs.iter() {
            if !pending_before.contains(&c.key) {
                o.fail("callback-key", &format!("drop produced writer callback `{}` carrying {} which is no open session", c.what, c.key));
            }
        }
        for (op, k) in evs.iter() {
            if *op {
                o.fail("listener-events", &format!("drop fired on_session_open for {}", k));
            }
            self.on_event(*op, k, o);
        }
        if !self.pending.is_empty() {
            o.fail(
                "listener-missing-close",
                &format!("after dropping the MultiReceiver these sessions were opened but never closed: {:?}", self.pending),
            );
            self.pending.clear();
        }
        self.stale.clear();
        Self::cb_obs(Self::events_obs("ok", &evs, true), &cbs)
    }

    /// sessions created over a stretch of time expire one after the other while `cleanup` runs continuously
    fn race(&mut self, n: usize, o: &mut Oracle) -> String {
        let pkt = self.probe_pkt(1);
        let mut l = new_live(false, true, RACE_T_MS);
        let now = base_now();
        let t0 = Instant::now();
        for i in 0..n {
            let ep = UDPEndpoint::new(Some(format!("10.1.{}.{}", i / 60000, 1)), "224.0.2.1".to_string(), (i % 60000 + 1) as u16);
            let _ = l.mr.push(&ep, &pkt, now);
        }
        let creation = t0.elapsed();
        let t1 = Instant::now();
        let budget = creation + Duration::from_millis(3 * RACE_T_MS + 30);
        // the wall clock only bounds the loop (the verdict is the balance after drop); it goes on until sessions really
        // expired inside cleanup - otherwise the scenario would not exercise what it is for - with a hard cap of 5 s
        loop {
            l.mr.cleanup(now);
            let closes = l.ev.borrow().iter().filter(|e| !e.0).count();
            if closes >= n || (t1.elapsed() >= budget && closes > 0) || t1.elapsed() >= Duration::from_secs(5) {
                break;
            }
        }
        let in_cleanup = l.ev.borrow().iter().filter(|e| !e.0).count();
        RACE_IN_CLEANUP.with(|c| c.set(in_cleanup as u64));
        if in_cleanup == 0 && n > 0 {
            o.fail(
                "listener-expiry-not-closed",
                &format!("none of {} sessions (session time-out {} ms) was closed by 5 s of continuous cleanup", n, RACE_T_MS),
            );
        }
        let Live { mr, ev, .. } = l;
        drop(mr);
        let evs = ev.borrow();
        let mut bal: HashMap<&str, (u32, u32)> = HashMap::new();
        for (op, k) in evs.iter() {
            let e = bal.entry(k.as_str()).or_insert((0, 0));
            if *op {
                e.0 += 1
            } else {
                e.1 += 1
            }
        }
        let opens: u32 = bal.values().map(|v| v.0).sum();
        let closes: u32 = bal.values().map(|v| v.1).sum();
        let lost = bal.values().filter(|v| v.0 > v.1).count();
        let extra = bal.values().filter(|v| v.1 > v.0).count();
        if lost > 0 {
            o.fail(
                "listener-missing-close",
                &format!("{} of {} sessions that expired while cleanup was running were removed without on_session_closed (also not at drop)", lost, n),
            );
        }
        if extra > 0 {
            o.fail("listener-close-without-open", &format!("{} sessions were closed more often than opened", extra));
        }
        format!("opens {} closes {}", opens, closes)
    }

    /// Records one operation of the case and applies it, in lock-step with the receiver under test, to two fresh
    /// MultiReceivers per key, each fed only the packets of its key (created at the key's first packet; the filter /
    /// construction operations seen so far are replayed into them first).  Living side by side with the receiver under
    /// test they see the same wall-clock spacing, so session expiry needs no second sleep:
    ///  * solo: the same packets and the same filter operations;
    ///  * reference: filtering is OFF and a packet is pushed iff the independent reference counters accepted it at that
    ///    point (so a wrong filter decision for a packet of an already open session shows as a delivery difference);
    ///    packets edited in a delivery-neutral, RFC-legal way are replaced by what they stand for: a packet with the
    ///    Close Session flag set = the same packet without the flag followed by a bare close-session packet (ignored
    ///    altogether, like any close indication, when the session does not exist); a rewritten CCI = the unedited packet.
    fn record(&mut self, h: HOp) {
        if let HOp::Push { key, .. } = &h {
            if !self.reps.iter().any(|r| r.key == *key) {
                for reference in [false, true] {
                    let mut r = Rep { key: key.clone(), reference, live: None, evs: Vec::new(), cbs: Vec::new() };
                    for old in self.hist.iter() {
                        match old {
                            HOp::Push { .. } | HOp::Tick | HOp::Cleanup(_) => {}
                            _ => r.apply(old),
                        }
                    }
                    self.reps.push(r);
                }
            }
        }
        for r in self.reps.iter_mut() {
            r.apply(&h);
        }
        self.hist.push(h);
    }
}

struct Rep {
    key: String,
    reference: bool,
    live: Option<Live>,
    evs: Vec<(bool, String)>,
    cbs: Vec<Cb>,
}
impl Rep {
    fn apply(&mut self, h: &HOp) {
        match h {
            HOp::Tick => {}
            HOp::New(f, t) => {
                self.finish();
                self.live = Some(new_live(if self.reference { false } else { *f }, *t, T_MS));
            }
            HOp::Drop => self.finish(),
            _ => {
                let Rep { key, reference, live, evs, cbs } = self;
                let l = match live.as_mut() {
                    Some(l) => l,
                    None => return,
                };
                match h {
                    HOp::Add(e, t) if !*reference => l.mr.add_listen_tsi(e.clone(), *t),
                    HOp::Rm(e, t) if !*reference => l.mr.remove_listen_tsi(e, *t),
                    HOp::AddAll(e) if !*reference => l.mr.add_listen_all_tsi(e.clone()),
                    HOp::RmAll(e) if !*reference => l.mr.remove_listen_all_tsi(e),
                    HOp::Filt(b) if !*reference => l.mr.set_tsi_filtering(*b),
                    HOp::Push { ep, key: k, data, now, neutral, a_edit, close, acc } if k == key => {
                        if !*reference {
                            let _ = guarded(AssertUnwindSafe(|| l.mr.push(ep, data, *now)));
                        } else if *acc {
                            match neutral {
                                Some(plain) if *a_edit => {
                                    let open = evs.iter().rev().find(|e| e.1 == *k).map(|e| e.0).unwrap_or(false);
                                    if open {
                                        let _ = guarded(AssertUnwindSafe(|| l.mr.push(ep, plain, *now)));
                                        if let Some(c) = close {
                                            let _ = guarded(AssertUnwindSafe(|| l.mr.push(ep, c, *now)));
                                        }
                                    }
                                }
                                Some(plain) => {
                                    let _ = guarded(AssertUnwindSafe(|| l.mr.push(ep, plain, *now)));
                                }
                                None => {
                                    let _ = guarded(AssertUnwindSafe(|| l.mr.push(ep, data, *now)));
                                }
                            }
                        }
                    }
                    HOp::Cleanup(now) => {
                        let _ = guarded(AssertUnwindSafe(|| l.mr.cleanup(*now)));
                    }
                    _ => {}
                }
                evs.extend(l.ev.borrow_mut().drain(..));
                cbs.extend(l.cb.borrow_mut().drain(..));
            }
        }
    }
    fn finish(&mut self) {
        if let Some(l) = self.live.take() {
            let Live { mr, ev, cb } = l;
            drop(mr);
            self.evs.extend(ev.borrow_mut().drain(..));
            self.cbs.extend(cb.borrow_mut().drain(..));
        }
    }
}

impl Engine for TsiEngine {
    fn reset(&mut self) {
        self.probes = default_probes();
        self.live = None;
        self.streams.clear();
        self.spec = Spec::default();
        self.pending.clear();
        self.stale.clear();
        self.hist.clear();
        self.reps.clear();
        self.all_ev.clear();
        self.all_cb.clear();
        self.had_tick = false;
        self.pause_ok = false;
        self.has_neutral_edits = false;
        self.opn = 0;
        self.sec.clear();
        self.last_data.clear();
        self.completes = 0;
        self.sessions_with_complete = 0;
    }

    fn exec(&mut self, op: &str, o: &mut Oracle) -> String {
        // annotation tokens (`#<key>=<n>`, written by the generator from this side's own report) are for the model only
        LAST_ANNOT.with(|a| a.borrow_mut().clear());
        let t: Vec<&str> = op.split(' ').filter(|x| !x.starts_with('#')).collect();
        if t.len() < 2 || t[0] != "tsi" {
            return "bad-op".into();
        }
        if t[1] == "cbs" && t.len() == 2 {
            // which (endpoint, tsi) the writer callbacks of the previous call carried
            let r = LAST_CB.with(|a| std::mem::take(&mut *a.borrow_mut()));
            return if r.is_empty() { "ok".into() } else { r };
        }
        LAST_CB.with(|a| a.borrow_mut().clear());
        match (t[1], t.len()) {
            ("probes", _) => {
                let mut v = Vec::new();
                for p in &t[2..] {
                    let q: Vec<&str> = p.split(':').collect();
                    match (q.len(), parse_ep(q[0]), q.get(1).and_then(|x| x.parse::<u64>().ok())) {
                        (2, Some(e), Some(tsi)) => v.push((e, tsi)),
                        _ => return "bad-op".into(),
                    }
                }
                self.probes = v;
                "ok".into()
            }
            ("fseq", _) => self.fseq(&t[2..], o),
            ("sess", 7) => {
                let (sid, tsi, seed, nobj) = match (t[2].parse::<u32>(), t[4].parse::<u64>(), t[5].parse::<u64>(), t[6].parse::<u32>()) {
                    (Ok(a), Ok(b), Ok(c), Ok(d)) => (a, b, c, d),
                    _ => return "bad-op".into(),
                };
                match get_stream(t[3], tsi, seed, nobj) {
                    Some(s) => {
                        self.streams.insert(sid, s);
                        "ok".into()
                    }
                    None => "bad-op".into(),
                }
            }
            ("new", 4) => {
                let f = match t[2] {
                    "0" => false,
                    "1" => true,
                    _ => return "bad-op".into(),
                };
                let to = match t[3] {
                    "-" => false,
                    // "0": the model expires a session at the first tick; "10": time-out = 10 model units, `pause` = 3
                    "0" | "10" => true,
                    _ => return "bad-op".into(),
                };
                self.pause_ok = t[3] == "10";
                if self.live.is_some() {
                    return "bad-op".into();
                }
                self.timeout = to;
                self.spec = Spec { filtering: f, ..Default::default() };
                self.record(HOp::New(f, to));
                self.live = Some(new_live(f, to, T_MS));
                "ok".into()
            }
            ("add", 4) | ("rm", 4) => {
                let (ep, tsi) = match (parse_ep(t[2]), t[3].parse::<u64>()) {
                    (Some(e), Ok(x)) => (e, x),
                    _ => return "bad-op".into(),
                };
                if self.live.is_none() {
                    return "bad-op".into();
                }
                if t[1] == "add" {
                    Spec::inc(&mut self.spec.cnt, key_tok(&ep, tsi));
                    self.record(HOp::Add(ep.clone(), tsi));
                    self.live.as_mut().unwrap().mr.add_listen_tsi(ep, tsi);
                } else {
                    Spec::dec(&mut self.spec.cnt, key_tok(&ep, tsi));
                    self.record(HOp::Rm(ep.clone(), tsi));
                    self.live.as_mut().unwrap().mr.remove_listen_tsi(&ep, tsi);
                }
                "ok".into()
            }
            ("addall", 3) | ("rmall", 3) => {
                let ep = match parse_ep(t[2]) {
                    Some(e) => e,
                    None => return "bad-op".into(),
                };
                if self.live.is_none() {
                    return "bad-op".into();
                }
                if t[1] == "addall" {
                    Spec::inc(&mut self.spec.byp, ep_tok(&ep));
                    self.record(HOp::AddAll(ep.clone()));
                    self.live.as_mut().unwrap().mr.add_listen_all_tsi(ep);
                } else {
                    Spec::dec(&mut self.spec.byp, ep_tok(&ep));
                    self.record(HOp::RmAll(ep.clone()));
                    self.live.as_mut().unwrap().mr.remove_listen_all_tsi(&ep);
                }
                "ok".into()
            }
            ("filt", 3) => {
                let b = match t[2] {
                    "0" => false,
                    "1" => true,
                    _ => return "bad-op".into(),
                };
                if self.live.is_none() {
                    return "bad-op".into();
                }
                self.spec.filtering = b;
                self.record(HOp::Filt(b));
                self.live.as_mut().unwrap().mr.set_tsi_filtering(b);
                "ok".into()
            }
            ("push", n) if n >= 5 => {
                let (ep, tsi) = match (parse_ep(t[2]), t[3].parse::<u64>()) {
                    (Some(e), Ok(x)) => (e, x),
                    _ => return "bad-op".into(),
                };
                let kind = t[4];
                let mut neutral: Option<Rc<Vec<u8>>> = None;
                let mut a_edit = false;
                let mut b_edit = false;
                let mut close_pkt: Option<Rc<Vec<u8>>> = None;
                let data: Rc<Vec<u8>> = match kind {
                    "x" => {
                        let v = garbage_variants();
                        let n = t.get(5).and_then(|x| x.parse::<usize>().ok()).unwrap_or(0);
                        match v.get(n) {
                            Some(d) => d.clone(),
                            None => return "bad-op".into(),
                        }
                    }
                    "d" | "c" => {
                        let sid = match t.get(5).and_then(|x| x.parse::<u32>().ok()) {
                            Some(s) => s,
                            None => return "bad-op".into(),
                        };
                        let st = match self.streams.get(&sid) {
                            Some(s) => s.clone(),
                            None => return "bad-op".into(),
                        };
                        if st.tsi != tsi {
                            return "bad-op".into();
                        }
                        if kind == "c" && t.len() == 6 {
                            st.close.clone()
                        } else {
                            let idx = match t.get(6).and_then(|x| x.parse::<usize>().ok()) {
                                Some(i) => i,
                                None => return "bad-op".into(),
                            };
                            let plain = match st.pkts.get(idx) {
                                Some(p) => p.clone(),
                                None => return "bad-op".into(),
                            };
                            // RFC-legal edits of the genuine packet: A = Close Session flag, B = Close Object flag,
                            // C<8 hex> = another 32-bit CCI
                            if t.len() > 7 {
                                let mut d: Vec<u8> = (*plain).clone();
                                let mut is_neutral = true;
                                for e in &t[7..] {
                                    match *e {
                                        "A" if d.len() > 1 => {
                                            d[1] |= 0x02;
                                            a_edit = true;
                                        }
                                        "B" if d.len() > 1 => {
                                            d[1] |= 0x01;
                                            is_neutral = false;
                                            b_edit = true;
                                        }
                                        c if c.len() == 9 && c.starts_with('C') && d.len() >= 8 && (d[0] >> 2) & 3 == 0 => {
                                            match u32::from_str_radix(&c[1..], 16) {
                                                Ok(v) => d[4..8].copy_from_slice(&v.to_be_bytes()),
                                                Err(_) => return "bad-op".into(),
                                            }
                                        }
                                        _ => return "bad-op".into(),
                                    }
                                }
                                if is_neutral {
                                    neutral = Some(plain.clone());
                                    close_pkt = Some(st.close.clone());
                                } else {
                                    a_edit = false;
                                }
                                Rc::new(d)
                            } else {
                                plain
                            }
                        }
                    }
                    _ => return "bad-op".into(),
                };
                self.push(ep, tsi, kind, data, neutral, a_edit, b_edit, close_pkt, o)
            }
            ("tick", 2) => {
                if self.live.is_none() {
                    return "bad-op".into();
                }
                self.had_tick = true;
                self.record(HOp::Tick);
                std::thread::sleep(Duration::from_millis(TICK_MS));
                // the caller-supplied time moves with the wall clock
                self.opn += TICK_MS;
                self.stale = self.pending.clone();
                "ok".into()
            }
            ("pause", 2) => {
                if self.live.is_none() || !self.pause_ok {
                    return "bad-op".into();
                }
                // sub-time-out spacing: nothing becomes stale, the supplied time moves with the wall clock
                self.record(HOp::Tick);
                std::thread::sleep(Duration::from_millis(PAUSE_MS));
                self.opn += PAUSE_MS;
                "ok".into()
            }
            ("ladd", 2) => {
                let n = self.all_ev.len();
                let l = match self.live.as_mut() {
                    Some(l) => l,
                    None => return "bad-op".into(),
                };
                let log: EvLog = Rc::new(RefCell::new(Vec::new()));
                // the line names listeners by ordinal (the recording listener of `new` is 0): the ids the implementation
                // hands out are its own business
                let real = l.mr.add_listener(Listener { log: log.clone() });
                let ord = self.sec.len() as u64 + 1;
                self.sec.insert(ord, (log, n, None, real));
                format!("ok {}", ord)
            }
            ("lrm", 3) => {
                let id = match t[2].parse::<u64>() {
                    Ok(i) => i,
                    Err(_) => return "bad-op".into(),
                };
                let n = self.all_ev.len();
                let l = match self.live.as_mut() {
                    Some(l) => l,
                    None => return "bad-op".into(),
                };
                // an ordinal that was never handed out stands for an id the implementation does not know
                let real = self.sec.get(&id).map(|e| e.3).unwrap_or(u64::MAX);
                l.mr.remove_listener(real);
                if let Some(e) = self.sec.get_mut(&id) {
                    if e.2.is_none() {
                        e.2 = Some(n);
                    }
                }
                "ok".into()
            }
            ("llog", 3) => {
                let id = match t[2].parse::<u64>() {
                    Ok(i) => i,
                    Err(_) => return "bad-op".into(),
                };
                if id == 0 {
                    // the recording listener registered by `new`
                    if self.hist.is_empty() {
                        return "bad-op".into();
                    }
                    let c = canon_log(&self.all_ev);
                    return if c.is_empty() { "ok".into() } else { format!("ok {}", c.join(" ")) };
                }
                let (log, from, to) = match self.sec.get(&id) {
                    Some(e) => (e.0.borrow().clone(), e.1, e.2.unwrap_or(self.all_ev.len())),
                    None => return "bad-op".into(),
                };
                let got = canon_log(&log);
                let want = canon_log(&self.all_ev[from..to]);
                if got != want {
                    o.fail(
                        "listener-segment",
                        &format!(
                            "listener {} (registered after {} events, {}) was told {:?} but the listener registered throughout saw {:?} in that period",
                            id,
                            from,
                            if self.sec[&id].2.is_some() { "removed later" } else { "never removed" },
                            got,
                            want
                        ),
                    );
                }
                if got.is_empty() {
                    "ok".into()
                } else {
                    format!("ok {}", got.join(" "))
                }
            }
            ("cleanup", 2) => self.cleanup(o),
            ("drop", 2) => self.do_drop(o),
            ("race", 3) => match t[2].parse::<usize>() {
                Ok(n) if n <= 200_000 => self.race(n, o),
                _ => "bad-op".into(),
            },
            _ => "bad-op".into(),
        }
    }

    fn end_case(&mut self, o: &mut Oracle) {
        if self.live.is_some() {
            let mut o2 = Oracle::default();
            self.do_drop(&mut o2);
            o.fails.extend(o2.fails);
        }
        // isolation: per key, callbacks and listener events of the interleaved run = those of a solo run and of the
        // reference run, which ran in lock-step with the receiver under test (`record`)
        if self.hist.is_empty() {
            return;
        }
        let mut reps = std::mem::take(&mut self.reps);
        for r in reps.iter_mut() {
            r.finish();
        }
        let keys: BTreeSet<String> = reps.iter().map(|r| r.key.clone()).collect();
        for c in self.all_cb.iter() {
            if !keys.contains(&c.key) {
                o.fail("callback-key", &format!("a writer callback carries {} although no packet of that key was ever pushed", c.key));
            }
        }
        for k in keys.iter() {
            let solo = reps.iter().find(|r| r.key == *k && !r.reference).unwrap();
            let refr = reps.iter().find(|r| r.key == *k && r.reference).unwrap();
            for c in solo.cbs.iter().chain(refr.cbs.iter()) {
                if c.key != *k {
                    o.fail("callback-key", &format!("solo run of {} produced a callback carrying {}", k, c.key));
                }
            }
            let a = canon(&self.all_cb, k);
            let b = canon(&solo.cbs, k);
            if a != b {
                let toi = a.keys().chain(b.keys()).find(|t| a.get(*t) != b.get(*t)).cloned().unwrap_or_default();
                o.fail(
                    "isolation",
                    &format!(
                        "session {}: writer callbacks differ between the interleaved run and the solo run (toi {}: interleaved {:?} vs solo {:?})",
                        k,
                        toi,
                        a.get(&toi).map(|v| v.len()),
                        b.get(&toi).map(|v| v.len())
                    ),
                );
            }
            let ea: Vec<&(bool, String)> = self.all_ev.iter().filter(|e| e.1 == *k).collect();
            let eb: Vec<&(bool, String)> = solo.evs.iter().collect();
            if ea != eb {
                o.fail("isolation", &format!("session {}: listener events differ between the interleaved run {:?} and the solo run {:?}", k, ea, eb));
            }
            let r = canon(&refr.cbs, k);
            if a != r {
                let toi = a.keys().chain(r.keys()).find(|t| a.get(*t) != r.get(*t)).cloned().unwrap_or_default();
                o.fail(
                    "reference-delivery",
                    &format!(
                        "session {}: the writer callbacks differ from the reference run, which processes exactly the packets the reference counters accept and in which a genuine packet with the Close Session flag set / the CCI rewritten stands for the unedited packet (then the end of the session) (toi {}: got {:?} vs reference {:?})",
                        k,
                        toi,
                        a.get(&toi),
                        r.get(&toi)
                    ),
                );
            }
            let er: Vec<&(bool, String)> = refr.evs.iter().collect();
            if ea != er {
                o.fail(
                    "reference-events",
                    &format!("session {}: listener events {:?} differ from the reference run {:?} (accepted packets only; close flag on a data packet = packet, then exactly one close)", k, ea, er),
                );
            }
            let nc = a.values().filter(|v| v.iter().any(|w| w == "complete")).count();
            self.completes += nc;
            if nc > 0 {
                self.sessions_with_complete += 1;
            }
        }
    }
}

// ---------------------------------------------------------------------------------------------------------
// generator

fn filter_alphabet(dsts: &[u32]) -> Vec<String> {
    let mut v = Vec::new();
    for d in dsts {
        for src in ["-", "7"] {
            let ep = format!("{}/{}/5000", src, d);
            for tsi in [1, 2] {
                v.push(format!("a:{}:{}", ep, tsi));
                v.push(format!("r:{}:{}", ep, tsi));
            }
            v.push(format!("A:{}", ep));
            v.push(format!("R:{}", ep));
        }
    }
    v
}

/// all sequences over `alpha` of length min_depth..=depth, each one line (`fseq` is self-contained: fresh receiver,
/// standard probes), cut into cases of 1000 lines so that a replay stays small
fn enumerate_fseq(ctx: &mut Ctx, eng: &mut dyn Engine, tag: &str, alpha: &[String], depth: usize, min_depth: usize) {
    let mut in_chunk = 0usize;
    let mut chunk = 0usize;
    for d in min_depth..=depth {
        let total = alpha.len().pow(d as u32);
        for n in 0..total {
            if in_chunk == 0 {
                eng.reset();
                ctx.case(&format!("filter-{}-{}", tag, chunk));
                ctx.evaluations -= 1; // counted per sequence below
                chunk += 1;
            }
            in_chunk = (in_chunk + 1) % 1000;
            let mut line = String::from("tsi fseq");
            let mut has_add = false;
            let mut has_rm = false;
            let mut x = n;
            for _ in 0..d {
                let a = &alpha[x % alpha.len()];
                x /= alpha.len();
                line.push(' ');
                line.push_str(a);
                let c = a.as_bytes()[0];
                if c == b'a' || c == b'A' {
                    has_add = true
                } else {
                    has_rm = true
                }
            }
            let obs = ctx.step(eng, &line);
            ctx.evaluations += 1;
            let ones = obs.bytes().filter(|b| *b == b'1').count();
            if has_add && has_rm && ones > 0 {
                ctx.nontrivial(&line);
            }
            ctx.count(&format!("fseq depth {} accepted-probes {}", d, if ones == 0 { "0" } else if ones <= 2 { "1-2" } else { "3+" }));
        }
    }
}

/// `Ctx::step` (every call into the real code goes through it: per-op watchdog), followed - when the call made writer
/// callbacks - by a `cbs` line: its annotation tells the model how many callbacks each session made (the real Receiver
/// is opaque to the model driver), its observation is which (endpoint, tsi) each of them carried
fn astep(ctx: &mut Ctx, eng: &mut dyn Engine, op: &str) -> String {
    let obs = ctx.step(eng, op);
    let annot = LAST_ANNOT.with(|a| a.borrow().clone());
    if !annot.is_empty() {
        ctx.step(eng, &format!("tsi cbs{}", annot));
    }
    obs
}

struct SessSpec {
    sid: u32,
    ep: String,
    tsi: u64,
    len: usize,
    cursor: usize,
}

fn session_case(ctx: &mut Ctx, eng: &mut dyn Engine, rng: &mut Rng, id: &str, ordered: bool, with_ticks: bool) {
    let t_case = Instant::now();
    eng.reset();
    ctx.case(id);
    let nsess = rng.range(2, 4) as usize;
    let layout = rng.below(4);
    let mut sess: Vec<SessSpec> = Vec::new();
    let mut used: BTreeSet<String> = BTreeSet::new();
    for i in 0..nsess {
        let (ep, tsi) = loop {
            let c = match layout {
                // equal TSIs on distinct endpoints
                0 => (format!("-/{}/5000", i), 1u64),
                // distinct TSIs on one endpoint
                1 => ("-/0/5000".to_string(), 1 + i as u64),
                // same group and TSI, distinct source addresses (and none)
                2 => (format!("{}/0/5000", if i == 0 { "-".to_string() } else { i.to_string() }), 1u64),
                _ => (
                    format!("{}/{}/{}", *rng.pick(&["-", "1", "2"]), rng.below(2), 5000 + rng.below(2)),
                    rng.range(1, 2),
                ),
            };
            if used.insert(format!("{}:{}", c.0, c.1)) {
                break c;
            }
        };
        let seed = rng.below(1 << 20);
        let nobj = rng.range(1, 3) as u32;
        let st = get_stream(&ep, tsi, seed, nobj).unwrap();
        let obs = astep(ctx, eng, &format!("tsi sess {} {} {} {} {}", i, ep, tsi, seed, nobj));
        debug_assert_eq!(obs, "ok");
        sess.push(SessSpec { sid: i as u32, ep, tsi, len: st.pkts.len(), cursor: 0 });
    }
    ctx.count(&format!("session cases layout {}", ["equal-tsi-distinct-endpoints", "distinct-tsi-one-endpoint", "distinct-sources", "mixed"][layout as usize]));
    let t_streams = t_case.elapsed();
    let filtering = rng.chance(1, 2);
    astep(ctx, eng, &format!("tsi new {} {}", if filtering { 1 } else { 0 }, if with_ticks { "0" } else { "-" }));
    if filtering {
        for s in sess.iter() {
            match rng.below(6) {
                0 => {} // not listened to: every packet of this session must be skipped
                1 => {
                    astep(ctx, eng, &format!("tsi addall {}", s.ep));
                }
                2 => {
                    // wildcard source
                    let p: Vec<&str> = s.ep.split('/').collect();
                    astep(ctx, eng, &format!("tsi add -/{}/{} {}", p[1], p[2], s.tsi));
                }
                _ => {
                    astep(ctx, eng, &format!("tsi add {} {}", s.ep, s.tsi));
                }
            }
        }
    }
    let total: usize = sess.iter().map(|s| s.len).sum();
    let mut remaining = total;
    let mut steps = 0usize;
    let mut closes = 0;
    let mut ticks = 0;
    let mut listeners: Vec<(u64, bool)> = Vec::new();
    let edits = rng.chance(1, 2);
    let mut n_edits = 0;
    let mut n_a_last = 0;
    let max_ticks = if with_ticks { rng.range(1, 2) } else { 0 };
    while remaining > 0 && steps < 4000 {
        steps += 1;
        let r = rng.below(1000);
        let si = rng.below(nsess as u64) as usize;
        if r < 12 {
            // close-session packet at a random point
            let s = &sess[si];
            astep(ctx, eng, &format!("tsi push {} {} c {}", s.ep, s.tsi, s.sid));
            closes += 1;
            continue;
        }
        if r < 20 {
            astep(ctx, eng, "tsi cleanup");
            continue;
        }
        if r >= 990 && listeners.len() < 4 {
            let obs = astep(ctx, eng, "tsi ladd");
            if let Some(id) = obs.strip_prefix("ok ").and_then(|x| x.parse::<u64>().ok()) {
                listeners.push((id, false));
            }
            continue;
        }
        if r >= 984 && r < 990 {
            if let Some(e) = listeners.iter_mut().find(|e| !e.1) {
                e.1 = true;
                astep(ctx, eng, &format!("tsi lrm {}", e.0));
                // removing twice / an unknown id is a no-op
                if rng.chance(1, 4) {
                    astep(ctx, eng, &format!("tsi lrm {}", e.0 + 17));
                }
            }
            continue;
        }
        if r < 26 {
            let ng = garbage_variants().len() as u64;
            astep(ctx, eng, &format!("tsi push {} {} x {}", sess[si].ep, sess[si].tsi, rng.below(ng)));
            ctx.count("unparsable datagrams pushed");
            continue;
        }
        if r < 40 && filtering {
            let s = &sess[si];
            let p: Vec<&str> = s.ep.split('/').collect();
            let line = match rng.below(7) {
                0 => format!("tsi add {} {}", s.ep, s.tsi),
                1 => format!("tsi rm {} {}", s.ep, s.tsi),
                2 => format!("tsi addall {}", s.ep),
                3 => format!("tsi rmall {}", s.ep),
                4 => format!("tsi add -/{}/{} {}", p[1], p[2], s.tsi),
                5 => format!("tsi rm -/{}/{} {}", p[1], p[2], s.tsi),
                _ => format!("tsi filt {}", rng.below(2)),
            };
            astep(ctx, eng, &line);
            continue;
        }
        if (r < 70 && ticks < max_ticks) || (with_ticks && ticks == 0 && remaining * 2 < total) {
            ticks += 1;
            astep(ctx, eng, "tsi tick");
            // some sessions get fresh data right after the time-out period, the others expire at the next cleanup
            for s in sess.iter_mut() {
                if rng.chance(1, 2) && s.cursor < s.len {
                    astep(ctx, eng, &format!("tsi push {} {} d {} {}", s.ep, s.tsi, s.sid, s.cursor));
                    s.cursor += 1;
                    remaining -= 1;
                }
            }
            if rng.chance(3, 4) {
                astep(ctx, eng, "tsi cleanup");
            }
            continue;
        }
        // a burst of data packets of one session
        let burst = if rng.chance(1, 4) { rng.range(2, 12) } else { 1 };
        for _ in 0..burst {
            let s = &mut sess[si];
            if s.cursor >= s.len {
                break;
            }
            let idx = if ordered {
                s.cursor
            } else if rng.chance(1, 10) {
                rng.below(s.len as u64) as usize
            } else {
                s.cursor
            };
            // genuine packets edited in RFC-legal ways before they reach the receiver: Close Session flag on a data /
            // FDT / last packet, Close Object flag, another CCI
            let last = idx + 1 == s.len && idx == s.cursor;
            let edit: String = if !edits {
                String::new()
            } else if last && rng.chance(1, 2) {
                " A".into()
            } else if idx == 0 && rng.chance(1, 30) {
                " A".into()
            } else {
                match rng.below(400) {
                    0 | 1 => " A".into(),
                    2 | 3 => " B".into(),
                    4 => " B A".into(),
                    5..=16 => format!(" C{:08x}", rng.next() as u32),
                    17 => format!(" C{:08x} A", rng.next() as u32),
                    _ => String::new(),
                }
            };
            let kind = if edit.ends_with('A') { "c" } else { "d" };
            if !edit.is_empty() {
                n_edits += 1;
                if kind == "c" {
                    closes += 1;
                    if last {
                        n_a_last += 1;
                    }
                }
            }
            astep(ctx, eng, &format!("tsi push {} {} {} {} {}{}", s.ep, s.tsi, kind, s.sid, idx, edit));
            if idx == s.cursor {
                s.cursor += 1;
                remaining -= 1;
            }
            // the same datagram received on another endpoint is another session
            if rng.chance(1, 60) {
                let other = format!("9/{}/6000", 10 + s.sid);
                astep(ctx, eng, &format!("tsi push {} {} d {} {}", other, s.tsi, s.sid, idx));
            }
        }
    }
    if rng.chance(1, 3) {
        let s = &sess[rng.below(nsess as u64) as usize];
        astep(ctx, eng, &format!("tsi push {} {} c {}", s.ep, s.tsi, s.sid));
        closes += 1;
    }
    if rng.chance(1, 4) {
        astep(ctx, eng, "tsi cleanup");
    }
    astep(ctx, eng, "tsi drop");
    astep(ctx, eng, "tsi llog 0");
    for (id, _) in listeners.iter() {
        astep(ctx, eng, &format!("tsi llog {}", id));
    }
    if !listeners.is_empty() {
        ctx.count("session cases with listeners added/removed mid-way");
    }
    if n_edits > 0 {
        ctx.count("session cases with edited packets (A/B flag, CCI)");
    }
    if n_a_last > 0 {
        ctx.count("session cases with the Close Session flag on the last data packet");
    }
    let t_ops = t_case.elapsed();
    ctx.end_case(eng);
    if std::env::var("TSI_TIMING").is_ok() {
        eprintln!("{} streams {:?} ops {:?} end {:?} steps {}", id, t_streams, t_ops, t_case.elapsed(), steps);
    }
    ctx.count(&format!("session cases sessions={}", nsess));
    ctx.count(if filtering { "session cases filtering on" } else { "session cases filtering off" });
    if closes > 0 {
        ctx.count("session cases with close-session packets");
    }
    if ticks > 0 {
        ctx.count("session cases with expiry");
    }
    ctx.nontrivial(id);
}

/// A carousel that only repeats what was already received: every object of 1-2 sessions is completed, then for more
/// than one session time-out the sessions receive ONLY duplicates (packets of the same FDT instance and of completed
/// objects) at sub-time-out spacing, with cleanup in between.  While traffic keeps arriving the session has not ended:
/// no close, no re-open, no re-delivery (oracles `listener-expiry-early`, `isolation`/`reference-*`; model: alive).
fn keepalive_case(ctx: &mut Ctx, eng: &mut dyn Engine, rng: &mut Rng, id: &str) {
    eng.reset();
    ctx.case(id);
    let nsess = rng.range(1, 2) as usize;
    let mut sess: Vec<SessSpec> = Vec::new();
    for i in 0..nsess {
        let (ep, tsi) = if rng.bool() { (format!("-/{}/5000", i), 1u64) } else { ("3/0/5000".to_string(), 1 + i as u64) };
        let seed = rng.below(1 << 20);
        let nobj = rng.range(1, 2) as u32;
        let st = get_stream(&ep, tsi, seed, nobj).unwrap();
        ctx.step(eng, &format!("tsi sess {} {} {} {} {}", i, ep, tsi, seed, nobj));
        sess.push(SessSpec { sid: i as u32, ep, tsi, len: st.pkts.len(), cursor: 0 });
    }
    ctx.step(eng, "tsi new 0 10");
    // the whole streams, interleaved, in order: everything on air is received
    let maxlen = sess.iter().map(|s| s.len).max().unwrap_or(0);
    for idx in 0..maxlen {
        for s in sess.iter() {
            if idx < s.len {
                astep(ctx, eng, &format!("tsi push {} {} d {} {}", s.ep, s.tsi, s.sid, idx));
            }
        }
    }
    astep(ctx, eng, "tsi cleanup");
    // 6 x 450 ms = 2.7 s > 1.5 s time-out of nothing but repeats
    for _round in 0..6 {
        ctx.step(eng, "tsi pause");
        for s in sess.iter() {
            let n = rng.range(1, 3);
            for _ in 0..n {
                let idx = if rng.chance(1, 3) { 0 } else { rng.below(s.len as u64) as usize };
                astep(ctx, eng, &format!("tsi push {} {} d {} {}", s.ep, s.tsi, s.sid, idx));
            }
        }
        astep(ctx, eng, "tsi cleanup");
    }
    // one of the sessions now falls silent: it - and only it - expires after a full time-out
    if nsess == 2 {
        ctx.step(eng, "tsi tick");
        let s = &sess[0];
        astep(ctx, eng, &format!("tsi push {} {} d {} {}", s.ep, s.tsi, s.sid, 0));
        astep(ctx, eng, "tsi cleanup");
    }
    astep(ctx, eng, "tsi drop");
    ctx.step(eng, "tsi llog 0");
    ctx.end_case(eng);
    ctx.count("keep-alive cases (only repeats of received objects / FDT for > 1 session time-out)");
    ctx.nontrivial(id);
}

pub fn run(ctx: &mut Ctx, eng: &mut dyn Engine) {
    let thorough = ctx.tier_thorough;
    let (d_full, d_one) = if thorough { (5usize, 6usize) } else { (4usize, 5usize) };
    let (n_iso, n_lis, n_exp, n_race, race_n) = if thorough { (6000, 6000, 60, 10, 8000) } else { (600, 600, 6, 3, 4000) };
    ctx.rule = format!(
        "(a) EXHAUSTIVE add/remove/bypass sequences: alphabet 2 endpoints x (source 10.0.0.7 | no source) x TSI 1,2 (24 ops) to depth {}, \
         and alphabet 1 endpoint x source/no-source x TSI 1,2 (12 ops) to depth {}; after each sequence all 8 (endpoint, source?, tsi) data packets \
         are pushed through a real MultiReceiver with filtering on, bit = session opened, compared with the Lean model and with independent saturating counters; \
         (b) {} cases of 2-4 real Sender sessions (equal TSIs on distinct endpoints, distinct TSIs on one endpoint, distinct sources) interleaved by seeded schedules \
         with close-session packets, cleanup, filter ops, listeners added/removed mid-way, and genuine packets edited in RFC-legal ways (Close Session flag on data / FDT / last packets, Close Object flag, rewritten CCI; callbacks and events must equal a reference run in which a close-flagged packet = the unedited packet + a bare close packet): per op the listener events AND the (endpoint, tsi) carried by every writer callback of the call (incl. the callbacks made when a receiver is destroyed at close / expiry / drop) vs model (the implementation reports the number of callbacks per session as an annotation of the op line, the model answers which key each carries), per session callbacks (per TOI) and events vs a solo run and vs a reference run that processes exactly the packets the independent reference counters accept (cases with ticks included: one replay pass, one sleep per tick); \
         (c) {} cases with out-of-order/duplicate packets and {} cases with session expiry (time-out {} ms, tick = {} ms sleep), drop at the end, plus keep-alive cases: every object completed, then only repeats of received packets / the same FDT instance every 450 ms for 2.7 s (> time-out) with cleanups - the session must stay open, nothing re-delivered; \
         (d) {} runs of {} sessions expiring while cleanup runs continuously; non-trivial = sequences with an add, a remove and an accepted probe / every session case",
        d_full, d_one, n_iso, n_lis, n_exp, T_MS, TICK_MS, n_race, race_n
    );
    // (a)
    let t_start = Instant::now();
    enumerate_fseq(ctx, eng, "two-endpoints", &filter_alphabet(&[0, 1]), d_full, 0);
    enumerate_fseq(ctx, eng, "one-endpoint", &filter_alphabet(&[0]), d_one, d_full + 1);
    // an explicit probe list (other port, other source, other TSI) on a few hand-picked histories
    eng.reset();
    ctx.case("filter-probes");
    ctx.step(eng, "tsi probes -/0/5000:1 7/0/5000:1 8/0/5000:1 -/0/5001:1 7/0/5001:1 -/0/5000:3 7/2/5000:1 -/1/5000:1");
    for l in [
        "tsi fseq a:7/0/5000:1",
        "tsi fseq a:-/0/5000:1",
        "tsi fseq A:7/0/5000",
        "tsi fseq A:-/0/5000",
        "tsi fseq a:-/0/5001:1 a:8/0/5000:1 r:8/0/5000:1 r:8/0/5000:1 a:-/0/5000:3",
        "tsi fseq A:-/0/5000 A:-/0/5000 R:-/0/5000 a:7/0/5000:1 a:7/0/5000:1 r:7/0/5000:1",
    ] {
        ctx.step(eng, l);
        ctx.evaluations += 1;
    }
    ctx.exhaustive = true;
    eprintln!("tsi: filter sequences done after {:?}", t_start.elapsed());
    ctx.sample("tsi fseq a:-/0/5000:1 r:7/0/5000:1 -> 11000000 (wildcard entry accepts both sources; removing an entry that was never added is a no-op)".into());
    // (b), (c)
    let mut rng = Rng::new(ctx.seed);
    for i in 0..n_iso {
        session_case(ctx, eng, &mut rng, &format!("iso-{}", i), true, false);
    }
    eprintln!("tsi: iso cases done after {:?}", t_start.elapsed());
    for i in 0..n_lis {
        session_case(ctx, eng, &mut rng, &format!("lis-{}", i), false, false);
    }
    eprintln!("tsi: lis cases done after {:?}", t_start.elapsed());
    for i in 0..n_exp {
        session_case(ctx, eng, &mut rng, &format!("exp-{}", i), false, true);
    }
    for i in 0..(if thorough { 12 } else { 2 }) {
        keepalive_case(ctx, eng, &mut rng, &format!("keepalive-{}", i));
    }
    eprintln!("tsi: session cases done after {:?}", t_start.elapsed());
    // (d)
    for i in 0..n_race {
        eng.reset();
        ctx.case(&format!("race-{}", i));
        ctx.step(eng, &format!("tsi race {}", race_n));
        *ctx.dist.entry("race: sessions closed by cleanup while it ran (the rest at drop)".to_string()).or_insert(0) += RACE_IN_CLEANUP.with(|c| c.get());
        ctx.end_case(eng);
        ctx.nontrivial(&format!("race-{}", i));
    }
    ctx.sample("tsi push -/0/5000 1 d 0 0 -> ok +-/0/5000:1 ; tsi push -/0/5000 1 c 0 -> ok --/0/5000:1".into());
}

fn main() {
    harness_core::engine_main("tsi", || Box::new(TsiEngine::new()), run);
}
