//! Engine `orecv` (properties C09, C03; object-level parts of C17, C04).
//!
//! Op grammar (first token `orecv`; every op answers one line):
//!   cfg max=<n> once=<0|1> maxerr=<n> md5=<0|1>      receiver configuration + default `enable_md5_check` answer   -> ok
//!   plan <toi> <k> <store|already|abort> <md5 0|1> <open 0|1> <failing write index|->   answers of the k-th builder call for toi -> ok
//!   ct <key> <hex|fail>        decode table entry for the model's codec instance (ignored by the implementation)     -> ok
//!   zmap <hex T> <hex C>       compressed stream -> content, for the model's decompressor instance                    -> ok
//!   expect <toi> <g|m> <hex>   the sender's object (oracle only)                                                       -> ok
//!   pkt toi= cp= b= fti=<-|scheme/e/b/parity/ss/tl> cenc=<-|n> hoff= poff= raw=<hex>
//!                              an object packet as `parse_alc_pkt` (public API) parsed it; the implementation gets `raw`
//!   nop raw=<hex>              datagram that cannot reach an object (rejected by the parser, other TSI, TOI 0 not completing an FDT)
//!   fdt id=<n> files=<toi,tl,cl,cenc,md5,nocache,oti;...|-> raw=<hex>   the TOI-0 packet that completes FDT instance id
//!   drop                       the Receiver is dropped (a fresh one is created by the next packet)
//!   probe                      packet-cache / allocated-block counters (Debug output of the Receiver)
//! Observation of pkt/nop/fdt/drop: `<toi>.<k>:<call>,<call>;... | objs=<nb_objects> errs=<nb_objects_error>`, writers sorted by
//! (toi, builder call index k); calls: N[meta]=answer, O=ok|err, W<sbn>:<len>:<fnv64>=ok|err (cenc null only), C<len>:<fnv64 of all
//! accepted bytes>, E.., I..; `PANIC`, `TIMEOUT`, then `dead`.
mod engine;
use engine::*;
use flute::core::alc;
use flute::core::lct::Cenc;
use flute::core::{Oti, UDPEndpoint};
use flute::receiver::writer::{ObjectMetadata, ObjectWriterBuilder, ObjectWriterBuilderResult};
use flute::receiver::{Config, Receiver};
use flute::sender::{self, ObjectDesc, Sender, TransferConfig};
use flute::verif_hooks as hk;
use harness_core::{guarded, hex, Ctx, Engine, Rng};
use std::cell::RefCell;
use std::rc::Rc;
use std::time::{Duration, SystemTime};

// ---------------------------------------------------------------- FDT shadow (tells when a TOI-0 packet completes an instance)

#[derive(Default)]
struct Capture {
    xml: RefCell<Vec<String>>,
}
impl std::fmt::Debug for Capture {
    fn fmt(&self, f: &mut std::fmt::Formatter<'_>) -> std::fmt::Result {
        write!(f, "Capture")
    }
}
impl ObjectWriterBuilder for Capture {
    fn new_object_writer(&self, _e: &UDPEndpoint, _tsi: &u64, _toi: &u128, _m: &ObjectMetadata, _n: SystemTime) -> ObjectWriterBuilderResult {
        ObjectWriterBuilderResult::Abort
    }
    fn update_cache_control(&self, _e: &UDPEndpoint, _tsi: &u64, _toi: &u128, _m: &ObjectMetadata, _n: SystemTime) {}
    fn fdt_received(&self, _e: &UDPEndpoint, _tsi: &u64, xml: &str, _x: SystemTime, _m: &ObjectMetadata, _d: Duration, _n: SystemTime, _t: Option<SystemTime>) {
        self.xml.borrow_mut().push(xml.to_string());
    }
}

struct Shadow {
    cap: Rc<Capture>,
    rcv: Receiver,
    once: bool,
}

impl Shadow {
    fn new(once: bool) -> Shadow {
        let cap = Rc::new(Capture::default());
        let cfg = Config { enable_fdt_expiration_check: false, object_timeout: None, object_receive_once: once, ..Default::default() };
        let rcv = Receiver::new(&endpoint(), TSI, cap.clone(), Some(cfg));
        Shadow { cap, rcv, once }
    }
    fn reset(&mut self) {
        *self = Shadow::new(self.once);
    }
    /// push a TOI-0 datagram; `Some(xml)` if it completed an FDT instance
    fn push(&mut self, raw: &[u8]) -> Option<String> {
        self.cap.xml.borrow_mut().clear();
        let rcv: *mut Receiver = &mut self.rcv;
        let raw2 = raw.to_vec();
        let r = guarded(std::panic::AssertUnwindSafe(move || unsafe { (*rcv).push_data(&raw2, now()).is_ok() }));
        if r.is_err() {
            self.reset();
            return None;
        }
        let x = self.cap.xml.borrow_mut().pop();
        x
    }
}

fn show_entry(e: &hk::FdtAttachEntry) -> String {
    format!(
        "{},{},{},{},{},{},{}",
        e.toi,
        e.transfer_length,
        e.content_length.map(|c| c.to_string()).unwrap_or("-".to_string()),
        e.cenc as u8,
        e.content_md5.clone().unwrap_or("-".to_string()),
        e.no_cache as u8,
        show_oti(e.oti.as_ref())
    )
}

/// the op line for one datagram
fn describe(raw: &[u8], shadow: &mut Shadow) -> String {
    let h = hex(raw);
    let p = match guarded(|| alc::parse_alc_pkt(raw).ok().map(|p| (p.lct.tsi, p.lct.toi))) {
        Ok(Some(x)) => x,
        _ => return format!("orecv nop raw={}", h),
    };
    if p.0 != TSI {
        return format!("orecv nop raw={}", h);
    }
    if p.1 == 0 {
        let id = alc::parse_alc_pkt(raw).ok().and_then(|p| p.fdt_info.as_ref().map(|f| f.fdt_instance_id));
        return match (shadow.push(raw), id) {
            (Some(xml), Some(id)) => match hk::fdt_attach_entries(xml.as_bytes()) {
                Some(es) => {
                    let files = if es.is_empty() { "-".to_string() } else { es.iter().map(show_entry).collect::<Vec<_>>().join(";") };
                    format!("orecv fdt id={} files={} raw={}", id, files, h)
                }
                None => format!("orecv nop raw={}", h),
            },
            _ => format!("orecv nop raw={}", h),
        };
    }
    let p = alc::parse_alc_pkt(raw).unwrap();
    let fti = match (p.oti.as_ref(), p.transfer_length) {
        (Some(o), Some(tl)) => format!("{}/{}", show_oti(Some(o)), tl),
        _ => "-".to_string(),
    };
    format!(
        "orecv pkt toi={} cp={} b={} fti={} cenc={} hoff={} poff={} raw={}",
        p.lct.toi,
        p.lct.cp,
        p.lct.close_object as u8,
        fti,
        p.cenc.map(|c| (c as u8).to_string()).unwrap_or("-".to_string()),
        p.data_alc_header_offset,
        p.data_payload_offset,
        h
    )
}

// ---------------------------------------------------------------- real sender sessions

#[derive(Clone)]
struct ObjSpec {
    content: Vec<u8>,
    cenc: Cenc,
    inband_cenc: bool,
    md5: bool,
    oti: Option<Oti>,
    transfers: u32,
}

thread_local! {
    /// Content-Length the next objects announce instead of their real length (family content-length)
    static ANNOUNCE_CL: std::cell::Cell<Option<u64>> = std::cell::Cell::new(None);
}

#[derive(Clone)]
struct ObjInfo {
    toi: u128,
    content: Vec<u8>,
    transfer: Vec<u8>,
    cenc: Cenc,
    oti: Oti,
}

#[derive(Clone)]
struct Session {
    pkts: Vec<Vec<u8>>,
    objs: Vec<ObjInfo>,
}

fn make_session(oti: &Oti, objs: &[ObjSpec], interleave: u8, multiplex: u32) -> Option<Session> {
    let (oti, objs, il, mx) = (oti.clone(), objs.to_vec(), interleave, multiplex);
    guarded(std::panic::AssertUnwindSafe(move || make_session2(&oti, &objs, il, mx, false))).ok().flatten()
}

/// `fdt_level`: the OTI under test is the session's (FDT-level attributes, FDT sent with it too); otherwise the session
/// uses No-Code/1400 (FDT in one packet) and every object carries the OTI as a per-object override (File-level attributes)
fn make_session2(oti: &Oti, objs: &[ObjSpec], interleave: u8, multiplex: u32, fdt_level: bool) -> Option<Session> {
    let sess_oti = if fdt_level { oti.clone() } else { Oti::new_no_code(1400, 64) };
    let mut cfg = sender::Config::default();
    cfg.interleave_blocks = interleave;
    cfg.toi_initial_value = Some(1);
    cfg.set_priority_queue(0, sender::PriorityQueue::new(multiplex));
    let mut s = Sender::new(endpoint(), TSI, &sess_oti, &cfg);
    let mut infos = Vec::new();
    for (i, o) in objs.iter().enumerate() {
        let url = url::Url::parse(&format!("file:///o{}", i)).unwrap();
        let tc = TransferConfig { max_transfer_count: o.transfers, cenc: o.cenc, inband_cenc: o.inband_cenc, oti: if fdt_level { o.oti.clone() } else { Some(o.oti.clone().unwrap_or(oti.clone())) }, ..Default::default() };
        let mut desc = ObjectDesc::create_from_buffer(o.content.clone(), "application/octet-stream", &url, o.md5, tc).ok()?;
        if let Some(cl) = ANNOUNCE_CL.with(|c| c.get()) {
            desc.content_length = cl;
        }
        let toi = s.add_object(0, desc).ok()?;
        let transfer = if o.cenc == Cenc::Null { o.content.clone() } else { sender::compress::compress_buffer(&o.content, o.cenc).ok()? };
        infos.push(ObjInfo { toi, content: o.content.clone(), transfer, cenc: o.cenc, oti: o.oti.clone().unwrap_or(oti.clone()) });
    }
    s.publish(now()).ok()?;
    let mut pkts = Vec::new();
    for _ in 0..20000 {
        match s.read(now()) {
            Some(p) => pkts.push(p),
            None => break,
        }
    }
    Some(Session { pkts, objs: infos })
}

fn scheme_oti(scheme: u8, e: u16, b: u16, p: u16, inband: bool) -> Oti {
    let mut o = match scheme {
        0 => Oti::new_no_code(e, b),
        5 => Oti::new_reed_solomon_rs28(e, b as u8, p.max(1) as u8).unwrap(),
        129 => Oti::new_reed_solomon_rs28_under_specified(e, b, p.max(1)).unwrap(),
        6 => Oti::new_raptorq(e, b, p, 1, 1).unwrap(),
        _ => Oti::new_raptor(e, b, p, 1, 1).unwrap(),
    };
    o.inband_fti = inband;
    o
}

// ---------------------------------------------------------------- codec tables for the model (real decoders, every symbol subset)

fn sym_key(s: &[(u32, Vec<u8>)]) -> String {
    s.iter().map(|(i, b)| format!("{}:{:016x}", i, fnv64(b))).collect::<Vec<_>>().join(",")
}

fn codec_tables(sess: &Session) -> Vec<String> {
    let mut out: Vec<String> = Vec::new();
    for o in &sess.objs {
        let scheme = o.oti.fec_encoding_id as u8;
        // No-Code and Reed-Solomon are concrete in the model driver; only RaptorQ / Raptor need a decode table
        if scheme == 0 || scheme == 5 || scheme == 129 || o.transfer.is_empty() {
            continue;
        }
        let (e, b) = (o.oti.encoding_symbol_length as u64, o.oti.maximum_source_block_length as u64);
        let tl = o.transfer.len() as u64;
        let (al, asm, nl, n) = hk::block_partitioning(b, tl, e);
        for sbn in 0..n {
            let k = if sbn < nl { al } else { asm } as usize;
            let bs = hk::block_length(al, asm, nl, tl, e, sbn as u32) as usize;
            let mut syms: Vec<(u32, Vec<u8>)> = Vec::new();
            for raw in &sess.pkts {
                if let Ok(p) = alc::parse_alc_pkt(raw) {
                    if p.lct.toi != o.toi {
                        continue;
                    }
                    if let Ok(pid) = alc::parse_payload_id(&p, &o.oti) {
                        if pid.sbn as u64 == sbn && !syms.iter().any(|s| s.0 == pid.esi) {
                            syms.push((pid.esi, raw[p.data_payload_offset..].to_vec()));
                        }
                    }
                }
            }
            syms.sort_by_key(|s| s.0);
            if syms.len() > 10 {
                continue; // too many subsets: such sessions are only used where decoding needs no table
            }
            for mask in 1u32..(1 << syms.len()) {
                let sub: Vec<(u32, Vec<u8>)> = syms.iter().enumerate().filter(|(i, _)| mask >> i & 1 == 1).map(|(_, s)| s.clone()).collect();
                let key = match scheme {
                    5 | 129 => {
                        // the model asks `reconstruct` only with exactly k shards of which at least one is a repair shard
                        if sub.len() != k || sub.iter().all(|s| (s.0 as usize) < k) {
                            continue;
                        }
                        format!("rs/{}/{}/{}", k, o.oti.max_number_of_parity_symbols, sym_key(&sub))
                    }
                    6 => format!("rq/{}/{}/{}", k, e, sym_key(&sub)),
                    _ => format!("r/{}/{}/{}", k, bs, sym_key(&sub)),
                };
                let oti = o.oti.clone();
                let sub2 = sub.clone();
                let r = guarded(std::panic::AssertUnwindSafe(move || hk::fec_try_decode(&oti, k, bs, sbn as u32, &sub2))).ok().flatten();
                let line = match r {
                    Some(block) => format!("orecv ct {} {}", key, hex(&block)),
                    None => {
                        if scheme == 5 || scheme == 129 {
                            format!("orecv ct {} fail", key)
                        } else {
                            continue;
                        }
                    }
                };
                if !out.contains(&line) {
                    out.push(line);
                }
            }
        }
    }
    out
}

// ---------------------------------------------------------------- cases

#[derive(Clone)]
struct CaseCfg {
    max: usize,
    once: bool,
    maxerr: usize,
    md5: bool,
    plans: Vec<String>,
    expect_mode: Option<char>,
}

impl Default for CaseCfg {
    fn default() -> Self {
        CaseCfg { max: 10 * 1024 * 1024, once: true, maxerr: 0, md5: true, plans: vec![], expect_mode: Some('g') }
    }
}

struct Runner<'a> {
    ctx: &'a mut Ctx,
    eng: &'a mut dyn Engine,
    n: u64,
}

impl<'a> Runner<'a> {
    /// run one case: preamble + datagrams (`None` = drop the receiver, `Some(raw)` = push); returns the observations
    fn case(&mut self, family: &str, cc: &CaseCfg, sess: &Session, tables: &[String], hist: &[Option<Vec<u8>>], probe: bool) -> Vec<String> {
        self.n += 1;
        self.eng.reset();
        self.ctx.case(&format!("{}-{}", family, self.n));
        self.ctx.count(&format!("family:{}", family));
        let mut obs = Vec::new();
        self.ctx.step(self.eng, &format!("orecv cfg max={} once={} maxerr={} md5={}", cc.max, cc.once as u8, cc.maxerr, cc.md5 as u8));
        for p in &cc.plans {
            self.ctx.step(self.eng, p);
        }
        for t in tables {
            self.ctx.step(self.eng, t);
        }
        for o in &sess.objs {
            if o.cenc != Cenc::Null {
                self.ctx.step(self.eng, &format!("orecv zmap {} {}", hex(&o.transfer), hex(&o.content)));
            }
            if let Some(m) = cc.expect_mode {
                self.ctx.step(self.eng, &format!("orecv expect {} {} {}", o.toi, m, hex(&o.content)));
            }
        }
        let mut shadow = Shadow::new(cc.once);
        for h in hist {
            let op = match h {
                None => {
                    shadow.reset();
                    "orecv drop".to_string()
                }
                // history items starting with '#' are literal ops (`#cleanup`, `#expect <toi> <mode> <hex>`), not datagrams
                Some(raw) if raw.first() == Some(&b'#') => format!("orecv {}", String::from_utf8_lossy(&raw[1..])),
                Some(raw) => describe(raw, &mut shadow),
            };
            let kind = op.split(' ').nth(1).unwrap_or("").to_string();
            self.ctx.count(&format!("op:{}", kind));
            let ob = self.ctx.step(self.eng, &op);
            if ob.contains(":C") || ob.contains(",C") {
                self.ctx.count("outcome:complete");
            }
            if ob.contains(",E") || ob.contains(":E") {
                self.ctx.count("outcome:error");
            }
            if ob.contains(",I") || ob.contains(":I") {
                self.ctx.count("outcome:interrupted");
            }
            if ob == "PANIC" || ob == "TIMEOUT" {
                self.ctx.count(&format!("outcome:{}", ob));
            }
            if probe {
                self.ctx.step(self.eng, "orecv probe");
            }
            obs.push(ob);
        }
        self.ctx.end_case(self.eng);
        let key = format!("{}|{}", family, obs.join("|"));
        if obs.iter().any(|o| o.contains(':')) {
            self.ctx.nontrivial(&key);
        }
        obs
    }
}

fn content(rng: &mut Rng, n: usize) -> Vec<u8> {
    // compressible but not constant
    let mut v = Vec::with_capacity(n);
    let mut x = rng.next() as u8;
    for i in 0..n {
        if rng.chance(1, 3) {
            x = rng.next() as u8;
        }
        v.push(x.wrapping_add((i / 7) as u8));
    }
    v
}

fn permutations(n: usize) -> Vec<Vec<usize>> {
    fn go(cur: &mut Vec<usize>, used: &mut Vec<bool>, n: usize, out: &mut Vec<Vec<usize>>) {
        if cur.len() == n {
            out.push(cur.clone());
            return;
        }
        for i in 0..n {
            if !used[i] {
                used[i] = true;
                cur.push(i);
                go(cur, used, n, out);
                cur.pop();
                used[i] = false;
            }
        }
    }
    let mut out = Vec::new();
    go(&mut Vec::new(), &mut vec![false; n], n, &mut out);
    out
}

fn all_pushed(p: &[Vec<u8>]) -> Vec<Option<Vec<u8>>> {
    p.iter().map(|x| Some(x.clone())).collect()
}

/// rebuild an object packet from parsed fields with a field-aware edit
#[derive(Clone, Default)]
struct Edit {
    sbn: Option<u32>,
    esi: Option<u32>,
    close: Option<bool>,
    tl: Option<u64>,
    e: Option<u16>,
    b: Option<u32>,
    parity: Option<u32>,
    scheme: Option<u8>,
    sbl: Option<u32>,
    toi: Option<u128>,
    force_fti: bool,
    payload: Option<Vec<u8>>,
}

fn rebuild(raw: &[u8], o: &ObjInfo, ed: &Edit) -> Option<Vec<u8>> {
    let p = alc::parse_alc_pkt(raw).ok()?;
    let pid = alc::parse_payload_id(&p, &o.oti).ok()?;
    let base = p.oti.clone().unwrap_or(o.oti.clone());
    let scheme = ed.scheme.unwrap_or(base.fec_encoding_id as u8);
    let ss = if scheme == base.fec_encoding_id as u8 { hk::oti_scheme_specific(&base) } else if scheme == 6 { Some((1, 1, 1, 1)) } else if scheme == 1 { Some((2, 1, 1, 1)) } else { None };
    let oti = hk::make_oti(
        scheme,
        0,
        ed.b.unwrap_or(base.maximum_source_block_length),
        ed.e.unwrap_or(base.encoding_symbol_length),
        ed.parity.unwrap_or(base.max_number_of_parity_symbols),
        ss,
        p.oti.is_some() || ed.force_fti,
    )?;
    let f = hk::PktFields {
        payload: ed.payload.clone().unwrap_or(raw[p.data_payload_offset..].to_vec()),
        transfer_length: ed.tl.unwrap_or(p.transfer_length.unwrap_or(o.transfer.len() as u64)),
        esi: ed.esi.unwrap_or(pid.esi),
        sbn: ed.sbn.unwrap_or(pid.sbn),
        toi: ed.toi.unwrap_or(p.lct.toi),
        fdt_id: None,
        cenc: p.cenc.unwrap_or(o.cenc),
        inband_cenc: p.cenc.is_some(),
        close_object: ed.close.unwrap_or(p.lct.close_object),
        source_block_length: ed.sbl.or(pid.source_block_length).unwrap_or(0),
        sender_current_time: false,
    };
    guarded(std::panic::AssertUnwindSafe(move || hk::new_alc_pkt(&oti, &0u128, TSI, &f, false, now()))).ok()
}

/// TOI-0 packets carrying a hand-written FDT instance
fn fdt_packets(id: u32, xml: &str) -> Vec<Vec<u8>> {
    let oti = Oti::new_no_code(1400, 64);
    let data = xml.as_bytes();
    let n = (data.len() + 1399) / 1400;
    (0..n)
        .map(|i| {
            let f = hk::PktFields {
                payload: data[i * 1400..data.len().min((i + 1) * 1400)].to_vec(),
                transfer_length: data.len() as u64,
                esi: i as u32,
                sbn: 0,
                toi: 0,
                fdt_id: Some(id),
                cenc: Cenc::Null,
                inband_cenc: false,
                close_object: false,
                source_block_length: n as u32,
                sender_current_time: false,
            };
            hk::new_alc_pkt(&oti, &0u128, TSI, &f, false, now())
        })
        .collect()
}

fn crc32(data: &[u8]) -> u32 {
    let mut crc = 0xffff_ffffu32;
    for &b in data {
        crc ^= b as u32;
        for _ in 0..8 {
            crc = if crc & 1 != 0 { (crc >> 1) ^ 0xedb8_8320 } else { crc >> 1 };
        }
    }
    !crc
}

fn adler32(data: &[u8]) -> u32 {
    let (mut a, mut b) = (1u32, 0u32);
    for &x in data {
        a = (a + x as u32) % 65521;
        b = (b + a) % 65521;
    }
    (b << 16) | a
}

fn fdt_xml(files: &[String]) -> String {
    format!(
        "<?xml version=\"1.0\" encoding=\"UTF-8\"?><FDT-Instance xmlns=\"urn:IETF:metadata:2005:FLUTE:FDT\" Expires=\"4000000000\">{}</FDT-Instance>",
        files.join("")
    )
}

pub fn run(ctx: &mut Ctx, eng: &mut dyn Engine) {
    let thorough = ctx.tier_thorough;
    ctx.rule = "real flute Receiver (one session) with a monitoring ObjectWriterBuilder/ObjectWriter vs Lean model of ObjectReceiver/BlockDecoder/BlockWriter + session glue; \
        packets from real Sender sessions (No-Code, RS GF(2^8) both variants, RaptorQ, Raptor; in-band FTI and FDT-only OTI; cenc null/zlib/deflate/gzip; MD5 on/off; empty objects; \
        1..3 unequal blocks; 1..2 transfers) under: every permutation of tiny sessions, every sub-multiset with multiplicity <= 2, seeded reorder/dup/loss, payload bit flips/truncation, \
        field-aware header edits (SBN/ESI/TL/E/B/scheme/close flag), writer fault plans (builder answers, open fails, k-th write fails, md5 check off), receiver dropped at every/random point; \
        observation per datagram = the writer calls it caused (+ nb_objects, nb_objects_error, cache/block counters); non-trivial = distinct (family, observation sequence) with at least one writer call"
        .to_string();
    let mut rng = Rng::new(ctx.seed);
    let mut r = Runner { ctx, eng, n: 0 };
    let dflt = CaseCfg::default();

    // ---- 1. clean in-order sessions over the configuration grid
    let schemes: [u8; 5] = [0, 5, 129, 6, 1];
    let cencs = [Cenc::Null, Cenc::Zlib, Cenc::Deflate, Cenc::Gzip];
    let mut tiny: Vec<(Session, Vec<String>)> = Vec::new();
    for &scheme in &schemes {
        for inband in [true, false] {
            for (ci, &cenc) in cencs.iter().enumerate() {
                for size_i in 0..5 {
                    let (e, b, p) = (*rng.pick(&[4u16, 8, 16]), *rng.pick(&[2u16, 3, 4]), *rng.pick(&[1u16, 2]));
                    let size = match size_i {
                        0 => 0,
                        1 => 1,
                        2 => (e * b) as usize,
                        3 => (e * b) as usize * 2 + 3,
                        _ => rng.range(1, (e * b * 3) as u64) as usize,
                    };
                    if cenc != Cenc::Null && (e as usize * b as usize) < 16 {
                        continue; // tiny blocks x cenc: D15 (see findings), exercised separately
                    }
                    let oti = scheme_oti(scheme, e, b, p, inband);
                    let spec = ObjSpec { content: content(&mut rng, size), cenc, inband_cenc: ci % 2 == 1, md5: size_i % 2 == 0, oti: None, transfers: 1 };
                    let sess = match make_session(&oti, &[spec], 1 + (size_i as u8 % 3), 1) {
                        Some(s) => s,
                        None => continue,
                    };
                    let tables = codec_tables(&sess);
                    let mut h = all_pushed(&sess.pkts);
                    h.push(None);
                    r.ctx.count(&format!("scheme:{}", scheme));
                    r.ctx.count(&format!("cenc:{}", cenc as u8));
                    let obs = r.case("clean", &dflt, &sess, &tables, &h, size_i == 3);
                    if r.ctx.samples.len() < 4 {
                        r.ctx.sample(format!("clean scheme={} inband={} cenc={} size={} -> {}", scheme, inband, cenc as u8, size, obs.last().map(|s| s.as_str()).unwrap_or("")));
                    }
                    if cenc == Cenc::Null && sess.pkts.len() <= 7 && sess.pkts.len() >= 3 && tiny.len() < 40 {
                        tiny.push((sess, tables));
                    }
                }
            }
        }
    }

    // ---- 2. tiny sessions: all permutations (<= 6 packets quick, <= 7 thorough), all sub-multisets with multiplicity <= 2
    let maxp = if thorough { 7 } else { 6 };
    let mut nperm = 0;
    for (sess, tables) in tiny.iter() {
        let n = sess.pkts.len();
        if n > maxp || (!thorough && nperm >= 6) {
            continue;
        }
        nperm += 1;
        for perm in permutations(n) {
            let h: Vec<Option<Vec<u8>>> = perm.iter().map(|&i| Some(sess.pkts[i].clone())).chain(std::iter::once(None)).collect();
            r.case("perm", &dflt, sess, tables, &h, false);
        }
        // sub-multisets, emission order, multiplicity 0..2
        let total = 3usize.pow(n as u32);
        for code in 0..total {
            let mut c = code;
            let mut h: Vec<Option<Vec<u8>>> = Vec::new();
            for i in 0..n {
                for _ in 0..(c % 3) {
                    h.push(Some(sess.pkts[i].clone()));
                }
                c /= 3;
            }
            h.push(None);
            r.case("submulti", &dflt, sess, tables, &h, false);
        }
    }
    r.ctx.exhaustive = false;

    // ---- 3. seeded reorder / dup / loss on larger sessions, several objects, 2 transfers, receive_once off, drop points, fault plans
    let nrand = if thorough { 3000 } else { 400 };
    for i in 0..nrand {
        let scheme = *rng.pick(&schemes);
        let inband = rng.bool();
        let (e, b, p) = (*rng.pick(&[4u16, 8, 16, 32]), *rng.pick(&[1u16, 2, 3, 4]), *rng.pick(&[1u16, 2, 3]));
        let nobj = rng.range(1, 3) as usize;
        let mut specs = Vec::new();
        for _ in 0..nobj {
            let cenc = if rng.chance(1, 4) && (e as usize * b as usize) >= 16 { *rng.pick(&cencs) } else { Cenc::Null };
            let size = if rng.chance(1, 8) { 0 } else { rng.range(1, (e * b * 3) as u64 + 2) as usize };
            specs.push(ObjSpec { content: content(&mut rng, size), cenc, inband_cenc: rng.bool(), md5: rng.bool(), oti: None, transfers: if rng.chance(1, 4) { 2 } else { 1 } });
        }
        let oti = scheme_oti(scheme, e, b, p, inband);
        let sess = match make_session(&oti, &specs, rng.range(1, 4) as u8, rng.range(1, 3) as u32) {
            Some(s) => s,
            None => continue,
        };
        let tables = codec_tables(&sess);
        // history: loss, duplication, local reordering, drop points
        let mut idx: Vec<usize> = Vec::new();
        let loss = *rng.pick(&[0u64, 0, 1, 3]);
        for k in 0..sess.pkts.len() {
            if rng.chance(loss, 10) {
                continue;
            }
            idx.push(k);
            if rng.chance(1, 6) {
                idx.push(k);
            }
        }
        let mode = i % 3;
        if mode == 1 {
            for _ in 0..idx.len() {
                let a = rng.below(idx.len().max(1) as u64) as usize;
                let b2 = (a + rng.range(1, 4) as usize).min(idx.len().saturating_sub(1));
                if !idx.is_empty() {
                    idx.swap(a, b2);
                }
            }
        } else if mode == 2 {
            // full shuffle
            for a in (1..idx.len()).rev() {
                let b2 = rng.below(a as u64 + 1) as usize;
                idx.swap(a, b2);
            }
        }
        let mut h: Vec<Option<Vec<u8>>> = idx.iter().map(|&k| Some(sess.pkts[k].clone())).collect();
        if rng.chance(1, 3) && !h.is_empty() {
            let at = rng.below(h.len() as u64) as usize;
            h.insert(at, None);
        }
        h.push(None);
        let mut cc = CaseCfg { once: !rng.chance(1, 4), maxerr: *rng.pick(&[0usize, 0, 1, 5]), md5: !rng.chance(1, 5), ..Default::default() };
        if rng.chance(1, 3) {
            // writer fault plan for a random object, first and sometimes second builder call
            let toi = sess.objs[rng.below(sess.objs.len() as u64) as usize].toi;
            let null_cenc = sess.objs.iter().find(|o| o.toi == toi).map(|o| o.cenc == Cenc::Null).unwrap_or(true);
            for k in 0..2 {
                if k == 1 && rng.bool() {
                    break;
                }
                let ans = *rng.pick(&["store", "store", "store", "already", "abort"]);
                let fail = if null_cenc && rng.chance(1, 3) { rng.below(4).to_string() } else { "-".to_string() };
                cc.plans.push(format!("orecv plan {} {} {} {} {} {}", toi, k, ans, rng.bool() as u8, !rng.chance(1, 4) as u8, fail));
            }
        }
        r.ctx.count(&format!("scheme:{}", scheme));
        r.case("random", &cc, &sess, &tables, &h, i % 7 == 0);
    }

    // ---- 4. payload corruption (No-Code; RS only when every source symbol arrives), MD5 on and off
    let ncor = if thorough { 1500 } else { 250 };
    for i in 0..ncor {
        let scheme = if i % 3 == 0 { 5 } else { 0 };
        let (e, b) = (*rng.pick(&[4u16, 8, 16]), *rng.pick(&[2u16, 3]));
        let size = rng.range(1, (e * b * 3) as u64) as usize;
        let md5_announced = i % 4 != 3;
        let oti = scheme_oti(scheme, e, b, 1, rng.bool());
        let spec = ObjSpec { content: content(&mut rng, size), cenc: Cenc::Null, inband_cenc: false, md5: md5_announced, oti: None, transfers: 1 };
        let sess = match make_session(&oti, &[spec], 1, 1) {
            Some(s) => s,
            None => continue,
        };
        let o = sess.objs[0].clone();
        let mut h: Vec<Option<Vec<u8>>> = Vec::new();
        for raw in &sess.pkts {
            let is_obj = alc::parse_alc_pkt(raw).map(|p| p.lct.toi == o.toi).unwrap_or(false);
            if !is_obj {
                h.push(Some(raw.clone()));
                continue;
            }
            let p = alc::parse_alc_pkt(raw).unwrap();
            let pid = alc::parse_payload_id(&p, &o.oti).unwrap();
            let (al, asm, nl, _) = hk::block_partitioning(b as u64, size as u64, e as u64);
            let k = if (pid.sbn as u64) < nl { al } else { asm } as u32;
            if scheme == 5 && pid.esi >= k {
                continue; // drop repair symbols: RS then never reconstructs
            }
            let mut raw2 = raw.clone();
            if rng.chance(1, 3) && raw2.len() > p.data_payload_offset {
                let at = p.data_payload_offset + rng.below((raw2.len() - p.data_payload_offset) as u64) as usize;
                if rng.chance(1, 4) {
                    raw2.truncate(at);
                } else {
                    raw2[at] ^= 1 << rng.below(8);
                }
            }
            h.push(Some(raw2));
        }
        h.push(None);
        let md5_checked = rng.chance(3, 4);
        let cc = CaseCfg { md5: md5_checked, expect_mode: if md5_announced && md5_checked { Some('m') } else { None }, ..Default::default() };
        r.case("corrupt", &cc, &sess, &[], &h, false);
    }

    // ---- 5. field-aware header edits (No-Code: every field; RS: SBN/ESI/close/TOI only)
    let nmut = if thorough { 4000 } else { 600 };
    for i in 0..nmut {
        let scheme = if i % 4 == 0 { 129 } else if i % 4 == 1 { 5 } else { 0 };
        let inband = rng.chance(2, 3);
        let (e, b) = (*rng.pick(&[4u16, 8]), *rng.pick(&[2u16, 3]));
        let size = if rng.chance(1, 10) { 0 } else { rng.range(1, (e * b * 3) as u64) as usize };
        let oti = scheme_oti(scheme, e, b, 1, inband);
        let spec = ObjSpec { content: content(&mut rng, size), cenc: Cenc::Null, inband_cenc: rng.bool(), md5: rng.bool(), oti: None, transfers: 1 };
        let sess = match make_session(&oti, &[spec], 1, 1) {
            Some(s) => s,
            None => continue,
        };
        let tables = codec_tables(&sess);
        let o = sess.objs[0].clone();
        let (_, _, _, nblocks) = hk::block_partitioning(b as u64, size as u64, e as u64);
        let mut h: Vec<Option<Vec<u8>>> = Vec::new();
        let fdt_first = rng.chance(2, 3);
        let mut fdt_pkts: Vec<Vec<u8>> = Vec::new();
        for raw in &sess.pkts {
            let is_obj = alc::parse_alc_pkt(raw).map(|p| p.lct.toi == o.toi).unwrap_or(false);
            if !is_obj {
                if fdt_first {
                    h.push(Some(raw.clone()));
                } else {
                    fdt_pkts.push(raw.clone());
                }
                continue;
            }
            if rng.chance(1, 4) {
                let mut ed = Edit::default();
                let nk = if scheme == 0 { 12 } else { 5 };
                match rng.below(nk) {
                    0 => ed.sbn = Some(*rng.pick(&[nblocks as u32, nblocks as u32 + 1, 4097, 4200, 65535, 1])),
                    1 => ed.esi = Some(*rng.pick(&[b as u32, b as u32 + 1, 255, 0])),
                    2 => ed.close = Some(true),
                    3 => ed.toi = Some(*rng.pick(&[o.toi + 1, 77, 1 << 40])),
                    4 => {
                        ed.sbn = Some(rng.below(4) as u32);
                        ed.esi = Some(rng.below(4) as u32);
                    }
                    5 => {
                        ed.tl = Some(*rng.pick(&[0u64, 1, size as u64 + 1, size as u64 * 2 + 5, 1 << 16]));
                        ed.force_fti = true;
                    }
                    6 => {
                        ed.e = Some(*rng.pick(&[0u16, 1, e - 1, e + 1, 64]));
                        ed.force_fti = true;
                    }
                    7 => {
                        ed.b = Some(*rng.pick(&[0u32, 1, b as u32 + 1, 200, 70000]));
                        ed.force_fti = true;
                    }
                    8 => {
                        ed.scheme = Some(*rng.pick(&[5u8, 129, 0]));
                        ed.force_fti = rng.bool();
                    }
                    9 => {
                        let n = rng.below(2 * e as u64 + 2) as usize;
                        ed.payload = Some(rng.bytes(n));
                    }
                    10 => {
                        ed.tl = Some(*rng.pick(&[0u64, 3, 1 << 20]));
                        ed.b = Some(*rng.pick(&[1u32, 2, 5000]));
                        ed.e = Some(*rng.pick(&[1u16, 2, 16]));
                        ed.force_fti = true;
                    }
                    _ => {
                        ed.force_fti = true;
                    }
                }
                match rebuild(raw, &o, &ed) {
                    Some(m) => {
                        if rng.chance(1, 3) {
                            h.push(Some(raw.clone()));
                        }
                        h.push(Some(m))
                    }
                    None => h.push(Some(raw.clone())),
                }
            } else {
                h.push(Some(raw.clone()));
            }
        }
        for f in fdt_pkts {
            let at = rng.below(h.len() as u64 + 1) as usize;
            h.insert(at, Some(f));
        }
        h.push(None);
        let cc = CaseCfg { expect_mode: None, once: rng.bool(), maxerr: *rng.pick(&[0usize, 2]), max: *rng.pick(&[64usize, 200, 10 << 20]), ..Default::default() };
        r.case("mutate", &cc, &sess, &tables, &h, i % 3 == 0);
    }

    // ---- 6. FDT entries without OTI (hand-written instance), OTI arriving in-band; writer faults (the D17 path)
    for size in [0usize, 5, 20] {
        for open_ok in [true, false] {
            for ans in ["store", "already", "abort"] {
                for fdt_has_oti in [false, true] {
                    let oti = scheme_oti(0, 8, 2, 0, true);
                    let spec = ObjSpec { content: content(&mut rng, size), cenc: Cenc::Null, inband_cenc: false, md5: true, oti: None, transfers: 1 };
                    let sess = match make_session(&oti, &[spec], 1, 1) {
                        Some(s) => s,
                        None => continue,
                    };
                    let o = sess.objs[0].clone();
                    let attrs = if fdt_has_oti { " FEC-OTI-FEC-Encoding-ID=\"0\" FEC-OTI-Maximum-Source-Block-Length=\"2\" FEC-OTI-Encoding-Symbol-Length=\"8\"" } else { "" };
                    let xml = fdt_xml(&[format!("<File TOI=\"{}\" Content-Location=\"file:///o0\" Content-Length=\"{}\" Transfer-Length=\"{}\"{}/>", o.toi, size, size, attrs)]);
                    let mut h: Vec<Option<Vec<u8>>> = fdt_packets(7, &xml).into_iter().map(Some).collect();
                    for raw in &sess.pkts {
                        if alc::parse_alc_pkt(raw).map(|p| p.lct.toi == o.toi).unwrap_or(false) {
                            h.push(Some(raw.clone()));
                        }
                    }
                    h.push(None);
                    let cc = CaseCfg { plans: vec![format!("orecv plan {} 0 {} 1 {} -", o.toi, ans, open_ok as u8)], ..Default::default() };
                    r.case("fdt-without-oti", &cc, &sess, &[], &h, false);
                }
            }
        }
    }

    // ---- 6b. zero-length object whose FDT entry announces a Content-MD5 that is not the digest of the empty string (finding D33)
    {
        let oti = scheme_oti(0, 8, 2, 0, true);
        let spec = ObjSpec { content: vec![], cenc: Cenc::Null, inband_cenc: false, md5: true, oti: None, transfers: 1 };
        if let Some(sess) = make_session(&oti, &[spec], 1, 1) {
            let o = sess.objs[0].clone();
            let xml = fdt_xml(&[format!(
                "<File TOI=\"{}\" Content-Location=\"file:///o0\" Content-Length=\"0\" Transfer-Length=\"0\" Content-MD5=\"kAFQmDzST7DWlj99KOF/cg==\" FEC-OTI-FEC-Encoding-ID=\"0\" FEC-OTI-Maximum-Source-Block-Length=\"2\" FEC-OTI-Encoding-Symbol-Length=\"8\"/>",
                o.toi
            )]);
            let mut h: Vec<Option<Vec<u8>>> = fdt_packets(7, &xml).into_iter().map(Some).collect();
            for raw in &sess.pkts {
                if alc::parse_alc_pkt(raw).map(|p| p.lct.toi == o.toi).unwrap_or(false) {
                    h.push(Some(raw.clone()));
                }
            }
            h.push(None);
            let cc = CaseCfg { expect_mode: None, ..Default::default() };
            r.case("empty-bad-md5", &cc, &sess, &[], &h, false);
        }
    }

    // ---- 7. packet cache and block allocation limits (C17): objects that cannot be decoded yet, small limits
    let nc17 = if thorough { 300 } else { 60 };
    for i in 0..nc17 {
        let (e, b) = (*rng.pick(&[8u16, 16, 32]), *rng.pick(&[2u16, 4]));
        let size = rng.range((e * b) as u64, (e * b * 6) as u64) as usize;
        let oti = scheme_oti(if i % 2 == 0 { 0 } else { 5 }, e, b, 1, i % 3 == 0);
        let spec = ObjSpec { content: content(&mut rng, size), cenc: Cenc::Null, inband_cenc: false, md5: false, oti: None, transfers: 1 };
        let sess = match make_session(&oti, &[spec], 4, 1) {
            Some(s) => s,
            None => continue,
        };
        let tables = codec_tables(&sess);
        let o = sess.objs[0].clone();
        // object packets first (reverse order so that blocks complete out of order), FDT last or never
        let mut objp: Vec<Vec<u8>> = sess.pkts.iter().filter(|raw| alc::parse_alc_pkt(raw).map(|p| p.lct.toi == o.toi).unwrap_or(false)).cloned().collect();
        if i % 2 == 1 {
            objp.reverse();
        }
        let fdtp: Vec<Vec<u8>> = sess.pkts.iter().filter(|raw| alc::parse_alc_pkt(raw).map(|p| p.lct.toi == 0).unwrap_or(false)).cloned().collect();
        let mut h: Vec<Option<Vec<u8>>> = objp.into_iter().map(Some).collect();
        if i % 4 != 0 {
            h.extend(fdtp.into_iter().map(Some));
        }
        h.push(None);
        let cc = CaseCfg { max: *rng.pick(&[1usize, 50, 100, 300]), maxerr: *rng.pick(&[0usize, 3]), ..Default::default() };
        r.case("limits", &cc, &sess, &tables, &h, true);
    }

    // ---- 8. Reed-Solomon GF(2^m) (no decoder in flute): FTI announcing scheme 2, various m
    for m in [8u32, 4, 16, 31, 32, 40, 255] {
        for inband in [true, false] {
            let oti = scheme_oti(0, 8, 2, 0, true);
            let spec = ObjSpec { content: content(&mut rng, 20), cenc: Cenc::Null, inband_cenc: false, md5: false, oti: None, transfers: 1 };
            let sess = match make_session(&oti, &[spec], 1, 1) {
                Some(s) => s,
                None => continue,
            };
            let o = sess.objs[0].clone();
            let mut h: Vec<Option<Vec<u8>>> = Vec::new();
            if !inband {
                let xml = fdt_xml(&[format!(
                    "<File TOI=\"{}\" Content-Location=\"file:///o0\" Content-Length=\"20\" Transfer-Length=\"20\" FEC-OTI-FEC-Encoding-ID=\"2\" FEC-OTI-Maximum-Source-Block-Length=\"2\" FEC-OTI-Encoding-Symbol-Length=\"8\" FEC-OTI-Scheme-Specific-Info=\"{}\"/>",
                    o.toi,
                    { use base64::Engine; base64::engine::general_purpose::STANDARD.encode([m as u8, 1u8]) }
                )]);
                h.extend(fdt_packets(9, &xml).into_iter().map(Some));
            }
            for raw in &sess.pkts {
                let is_obj = alc::parse_alc_pkt(raw).map(|p| p.lct.toi == o.toi).unwrap_or(false);
                if !is_obj {
                    if inband {
                        h.push(Some(raw.clone()));
                    }
                    continue;
                }
                let p = alc::parse_alc_pkt(raw).unwrap();
                let pid = alc::parse_payload_id(&p, &o.oti).unwrap();
                // FDT-borne OTI: the packets themselves are built with m = 8 (same 4-byte payload ID), only the FDT announces m
                let oti2 = hk::make_oti(2, 0, 2, 8, 1, Some((0, if inband { m } else { 8 }, 1, 0)), inband).unwrap();
                let f = hk::PktFields {
                    payload: raw[p.data_payload_offset..].to_vec(),
                    transfer_length: 20,
                    esi: pid.esi,
                    sbn: pid.sbn,
                    toi: o.toi,
                    fdt_id: None,
                    cenc: Cenc::Null,
                    inband_cenc: false,
                    close_object: false,
                    source_block_length: 0,
                    sender_current_time: false,
                };
                if let Ok(raw2) = guarded(std::panic::AssertUnwindSafe(move || hk::new_alc_pkt(&oti2, &0u128, TSI, &f, false, now()))) {
                    h.push(Some(raw2));
                }
            }
            h.push(None);
            let cc = CaseCfg { expect_mode: None, ..Default::default() };
            r.case("rs2m", &cc, &sess, &[], &h, false);
        }
    }

    // ---- 9. content encoding with tiny blocks / empty content (the inflate loop, D15)
    for &cenc in &[Cenc::Gzip, Cenc::Zlib, Cenc::Deflate] {
        for (e, b, size) in [(4u16, 2u16, 0usize), (4, 2, 30), (2, 1, 10), (8, 2, 0), (1, 3, 5), (16, 1, 0), (16, 1, 40)] {
            let oti = scheme_oti(0, e, b, 0, true);
            let spec = ObjSpec { content: content(&mut rng, size), cenc, inband_cenc: true, md5: true, oti: None, transfers: 1 };
            let sess = match make_session(&oti, &[spec], 1, 1) {
                Some(s) => s,
                None => continue,
            };
            let mut h = all_pushed(&sess.pkts);
            h.push(None);
            r.case("cenc-tiny", &dflt, &sess, &[], &h, false);
        }
    }

    // ---- 10. content encoding + a first block made of EMPTY payloads (zero-sized decompression ring buffer)
    for &cenc in &[Cenc::Gzip, Cenc::Zlib] {
        for scheme in [0u8, 5] {
            let oti = scheme_oti(scheme, 8, 2, 1, true);
            let spec = ObjSpec { content: content(&mut rng, 60), cenc, inband_cenc: true, md5: false, oti: None, transfers: 1 };
            let sess = match make_session(&oti, &[spec], 1, 1) {
                Some(s) => s,
                None => continue,
            };
            let o = sess.objs[0].clone();
            let mut h: Vec<Option<Vec<u8>>> = Vec::new();
            for raw in &sess.pkts {
                let is_obj = alc::parse_alc_pkt(raw).map(|p| p.lct.toi == o.toi).unwrap_or(false);
                if !is_obj {
                    h.push(Some(raw.clone()));
                    continue;
                }
                let p = alc::parse_alc_pkt(raw).unwrap();
                let pid = alc::parse_payload_id(&p, &o.oti).unwrap();
                if pid.sbn == 0 && pid.esi < 2 {
                    let mut r2 = raw.clone();
                    r2.truncate(p.data_payload_offset);
                    h.push(Some(r2));
                } else if pid.sbn != 0 {
                    h.push(Some(raw.clone()));
                }
            }
            h.push(None);
            let cc = CaseCfg { expect_mode: None, ..Default::default() };
            r.case("cenc-empty-block", &cc, &sess, &[], &h, false);
        }
    }

    // ---- 11. the codec contract assumed by C03 `complete_implies_exact` (CodecOK), against the REAL crates through the
    // `fec_try_decode` hook: from any set of genuine symbols of a block the decoder returns the genuine block or nothing
    // (RS: every subset with >= k symbols must decode; RaptorQ/Raptor: the source symbols alone must decode; mixes are tried too)
    for &scheme in &[5u8, 129, 6, 1] {
        let grid: Vec<(u16, u16)> = if thorough { vec![(1, 1), (1, 3), (2, 1), (2, 2), (3, 2), (3, 5), (4, 4), (5, 3), (6, 2)] } else { vec![(1, 2), (2, 2), (3, 2), (4, 3)] };
        for (k, p) in grid {
            if scheme != 5 && scheme != 129 && k as usize + p as usize > 8 {
                continue;
            }
            for e in [4u16, 16] {
                for short in [0usize, 1, 3] {
                    let size = (k as usize * e as usize).saturating_sub(short).max(1);
                    let oti = scheme_oti(scheme, e, k, p, true);
                    let spec = ObjSpec { content: content(&mut rng, size), cenc: Cenc::Null, inband_cenc: false, md5: false, oti: None, transfers: 1 };
                    let sess = match make_session(&oti, &[spec], 1, 1) {
                        Some(s) => s,
                        None => continue,
                    };
                    let o = sess.objs[0].clone();
                    let (al, asm, nl, n) = hk::block_partitioning(k as u64, size as u64, e as u64);
                    if n != 1 {
                        continue;
                    }
                    let kk = if 0 < nl { al } else { asm } as usize;
                    let bs = hk::block_length(al, asm, nl, size as u64, e as u64, 0) as usize;
                    let mut syms: Vec<(u32, Vec<u8>)> = Vec::new();
                    for raw in &sess.pkts {
                        if let Ok(pk) = alc::parse_alc_pkt(raw) {
                            if pk.lct.toi != o.toi {
                                continue;
                            }
                            if let Ok(pid) = alc::parse_payload_id(&pk, &o.oti) {
                                if !syms.iter().any(|s| s.0 == pid.esi) {
                                    syms.push((pid.esi, raw[pk.data_payload_offset..].to_vec()));
                                }
                            }
                        }
                    }
                    syms.sort_by_key(|s| s.0);
                    if syms.len() > 9 {
                        continue;
                    }
                    r.n += 1;
                    r.eng.reset();
                    r.ctx.case(&format!("codec-contract-{}", r.n));
                    r.ctx.count("family:codec-contract");
                    r.ctx.step(r.eng, "orecv cfg max=1000 once=1 maxerr=0 md5=1");
                    let mut decoded = 0;
                    for mask in 1u32..(1 << syms.len()) {
                        let sub: Vec<(u32, Vec<u8>)> = syms.iter().enumerate().filter(|(i, _)| mask >> i & 1 == 1).map(|(_, s)| s.clone()).collect();
                        // two push orders: ascending ESI and descending
                        for rev in [false, true] {
                            let mut sub2 = sub.clone();
                            if rev {
                                sub2.reverse();
                            }
                            let oti2 = o.oti.clone();
                            let res = guarded(std::panic::AssertUnwindSafe(move || hk::fec_try_decode(&oti2, kk, bs, 0, &sub2)));
                            r.ctx.evaluations += 1;
                            match res {
                                Err(loc) => r.ctx.oracle_fail("C04:codec-panic", &format!("scheme {} k={} p={} e={}: decoder panics at {} on genuine symbols {:?}", scheme, kk, p, e, loc, sub.iter().map(|s| s.0).collect::<Vec<_>>())),
                                Ok(Some(b)) => {
                                    decoded += 1;
                                    let genuine = b.len() >= size && b[..size] == o.content[..] && b[size..].iter().all(|x| *x == 0);
                                    if !genuine {
                                        r.ctx.oracle_fail("C03:codec-contract-wrong-block", &format!("scheme {} k={} p={} e={} size={}: decoding genuine symbols {:?} returns a block that is not the sender's", scheme, kk, p, e, size, sub.iter().map(|s| s.0).collect::<Vec<_>>()));
                                    }
                                }
                                Ok(None) => {
                                    let src_all = (0..kk as u32).all(|i| sub.iter().any(|s| s.0 == i));
                                    let must = if scheme == 5 || scheme == 129 { sub.len() >= kk } else { src_all };
                                    if must {
                                        r.ctx.oracle_fail("C02:codec-contract-not-decodable", &format!("scheme {} k={} p={} e={}: genuine symbols {:?} are not decoded", scheme, kk, p, e, sub.iter().map(|s| s.0).collect::<Vec<_>>()));
                                    }
                                }
                            }
                        }
                    }
                    r.ctx.count(&format!("codec-contract:scheme{}:decoded", scheme));
                    let _ = decoded;
                    r.ctx.end_case(r.eng);
                }
            }
        }
    }

    // ---- 12. FDT Content-Length that disagrees with the real content (hostile or buggy sender), every cenc, MD5 on and off
    for (ci, &cenc) in cencs.iter().enumerate() {
        for size in [60usize, 900] {
            for md5 in [false, true] {
                for cl in [size as u64, size as u64 - 1, size as u64 + 1, 10, 100000, 0] {
                    let oti = scheme_oti(0, 16, 4, 0, ci % 2 == 0);
                    let spec = ObjSpec { content: content(&mut rng, size), cenc, inband_cenc: false, md5, oti: None, transfers: 1 };
                    ANNOUNCE_CL.with(|c| c.set(Some(cl)));
                    let sess = make_session(&oti, &[spec], 1, 1);
                    ANNOUNCE_CL.with(|c| c.set(None));
                    let sess = match sess {
                        Some(s) => s,
                        None => continue,
                    };
                    let mut h = all_pushed(&sess.pkts);
                    h.push(None);
                    let cc = CaseCfg { expect_mode: if cl == size as u64 { Some('g') } else { None }, ..Default::default() };
                    r.ctx.count(&format!("content-length:{}", if cl == size as u64 { "equal" } else if cl < size as u64 { "smaller" } else { "larger" }));
                    r.case("content-length", &cc, &sess, &[], &h, false);
                }
            }
        }
    }

    // ---- 13. object time-out: Receiver::cleanup() releases stalled objects (writer open or not), then traffic goes on
    for i in 0..(if thorough { 120 } else { 30 }) {
        let scheme = *rng.pick(&[0u8, 5]);
        let (e, b) = (*rng.pick(&[8u16, 16]), *rng.pick(&[2u16, 3]));
        let size = rng.range((e * b) as u64 + 1, (e * b * 3) as u64) as usize;
        let oti = scheme_oti(scheme, e, b, 1, rng.bool());
        let spec = ObjSpec { content: content(&mut rng, size), cenc: Cenc::Null, inband_cenc: false, md5: rng.bool(), oti: None, transfers: 1 };
        let sess = match make_session(&oti, &[spec], 1, 1) {
            Some(s) => s,
            None => continue,
        };
        let n = sess.pkts.len();
        let cut = rng.range(1, n as u64 - 1) as usize;
        let mut h: Vec<Option<Vec<u8>>> = sess.pkts[..cut].iter().cloned().map(Some).collect();
        h.push(Some(b"#cleanup".to_vec()));
        if i % 2 == 0 {
            h.extend(sess.pkts[cut..].iter().cloned().map(Some));
        }
        h.push(None);
        let cc = CaseCfg { once: rng.bool(), maxerr: *rng.pick(&[0usize, 2]), expect_mode: None, ..Default::default() };
        r.case("timeout", &cc, &sess, &[], &h, false);
    }

    // ---- 14. content encoding, the END of the compressed stream damaged (gzip CRC / zlib Adler trailer, last bytes of the last
    //          packet): only the final flush of the decoder can notice
    for &cenc in &[Cenc::Gzip, Cenc::Zlib] {
        for size in [40usize, 700] {
            for back in [1usize, 3, 6] {
                let oti = scheme_oti(0, 16, 4, 0, true);
                let spec = ObjSpec { content: content(&mut rng, size), cenc, inband_cenc: true, md5: false, oti: None, transfers: 1 };
                let sess = match make_session(&oti, &[spec], 1, 1) {
                    Some(s) => s,
                    None => continue,
                };
                let o = sess.objs[0].clone();
                // the packet carrying the last byte of the transfer = last source packet of the object
                let last = sess.pkts.iter().rposition(|raw| alc::parse_alc_pkt(raw).map(|p| p.lct.toi == o.toi && raw.len() > p.data_payload_offset).unwrap_or(false));
                let mut h = all_pushed(&sess.pkts);
                if let Some(li) = last {
                    let mut raw = sess.pkts[li].clone();
                    let off = alc::parse_alc_pkt(&raw).unwrap().data_payload_offset;
                    if raw.len() - off >= back {
                        let at = raw.len() - back;
                        raw[at] ^= 0x5a;
                        h[li] = Some(raw);
                    }
                }
                h.push(None);
                let cc = CaseCfg { expect_mode: None, ..Default::default() };
                r.case("cenc-trailer", &cc, &sess, &[], &h, false);
            }
        }
    }

    // ---- 14b. the compressed stream TRUNCATED: the FDT entry announces a transfer length k bytes short (it arrives first, the
    //           in-band FTI is then only compared): only finish() + the final decoder_read can notice
    for &cenc in &[Cenc::Gzip, Cenc::Zlib, Cenc::Deflate] {
        for size in [40usize, 700] {
            for k in [1u64, 4] {
                let oti = scheme_oti(0, 16, 4, 0, true);
                let spec = ObjSpec { content: content(&mut rng, size), cenc, inband_cenc: true, md5: false, oti: None, transfers: 1 };
                let sess = match make_session(&oti, &[spec], 1, 1) {
                    Some(s) => s,
                    None => continue,
                };
                let o = sess.objs[0].clone();
                let tl = o.transfer.len() as u64;
                if tl <= k + 1 {
                    continue;
                }
                // keep the number of symbols (hence the partition): otherwise the receiver drops a whole symbol in the MIDDLE of the
                // stream, which is corruption, not truncation (the ideal decompressor of the driver only knows prefixes)
                if (tl - k + 15) / 16 != (tl + 15) / 16 {
                    continue;
                }
                // hand-written FDT instance first: Transfer-Length k bytes short, real Content-Length, then the genuine packets
                let cenc_name = match cenc {
                    Cenc::Gzip => "gzip",
                    Cenc::Zlib => "zlib",
                    _ => "deflate",
                };
                let xml = fdt_xml(&[format!(
                    "<File TOI=\"{}\" Content-Location=\"file:///o0\" Content-Length=\"{}\" Transfer-Length=\"{}\" Content-Encoding=\"{}\" FEC-OTI-FEC-Encoding-ID=\"0\" FEC-OTI-Maximum-Source-Block-Length=\"4\" FEC-OTI-Encoding-Symbol-Length=\"16\"/>",
                    o.toi, size, tl - k, cenc_name
                )]);
                // a truncated stream must never be completed (seeded change C09-3: the error of the final decoder flush swallowed)
                let mut h: Vec<Option<Vec<u8>>> = vec![Some(format!("#expect {} n C09:complete-after-decoder-error", o.toi).into_bytes())];
                h.extend(fdt_packets(7, &xml).into_iter().map(Some));
                for raw in &sess.pkts {
                    if alc::parse_alc_pkt(raw).map(|p| p.lct.toi == o.toi).unwrap_or(false) {
                        h.push(Some(raw.clone()));
                    }
                }
                h.push(None);
                let cc = CaseCfg { expect_mode: None, ..Default::default() };
                r.case("cenc-truncated", &cc, &sess, &[], &h, false);
            }
        }
    }

    // ---- 16. content encoding announced ONLY in the FDT (RFC 6726 way, no EXT_CENC), FTI in-band, no Content-MD5, and the first j
    //           packets of the object arrive BEFORE the FDT instance (FDT overtaken / receiver joining mid-carousel): the object
    //           must still be decompressed - byte-exactness oracle on (seeded change C03-1: cenc defaulted to Null by the first packet)
    for &cenc in &[Cenc::Zlib, Cenc::Deflate, Cenc::Gzip] {
        for size in [60usize, 900] {
            let oti = scheme_oti(0, 16, 4, 0, true);
            let spec = ObjSpec { content: content(&mut rng, size), cenc, inband_cenc: false, md5: false, oti: None, transfers: 1 };
            let sess = match make_session(&oti, &[spec], 1, 1) {
                Some(s) => s,
                None => continue,
            };
            let is_obj = |raw: &Vec<u8>| alc::parse_alc_pkt(raw).map(|p| p.lct.toi != 0).unwrap_or(false);
            let obj: Vec<Vec<u8>> = sess.pkts.iter().filter(|raw| is_obj(raw)).cloned().collect();
            let fdt: Vec<Vec<u8>> = sess.pkts.iter().filter(|raw| !is_obj(raw)).cloned().collect();
            if obj.is_empty() || fdt.is_empty() {
                continue;
            }
            for j in [1usize, obj.len() / 2, obj.len()] {
                let j = j.clamp(1, obj.len());
                let mut h: Vec<Option<Vec<u8>>> = obj[..j].iter().cloned().map(Some).collect();
                h.extend(fdt.iter().cloned().map(Some));
                h.extend(obj[j..].iter().cloned().map(Some));
                // and once more the first packet (duplicate after the FDT)
                h.push(Some(obj[0].clone()));
                h.push(None);
                r.ctx.count("cenc-fdt-late");
                r.case("cenc-fdt-late", &dflt, &sess, &[], &h, false);
            }
        }
    }

    // ---- 17. FDT File entry with an absurd Transfer-Length (a u64 in the XML; EXT_FTI only has 48 bits): 2^48, 2^63, 2^64 - 16,
    //           2^64 - 1, FDT first (so the object takes the FDT's length), then the genuine packets of a small object.
    //           `block_length` multiplies in u64: outside `WfFile` of C04.Obj.attach_total - what does the code do?
    for tl_s in ["281474976710656", "9223372036854775808", "18446744073709551600", "18446744073709551615"] {
        for (e, b) in [(16u16, 4u16), (1024, 64)] {
            let oti = scheme_oti(0, e, b, 0, true);
            let spec = ObjSpec { content: content(&mut rng, 40), cenc: Cenc::Null, inband_cenc: false, md5: false, oti: None, transfers: 1 };
            let sess = match make_session(&oti, &[spec], 1, 1) {
                Some(s) => s,
                None => continue,
            };
            let o = sess.objs[0].clone();
            let xml = fdt_xml(&[format!(
                "<File TOI=\"{}\" Content-Location=\"file:///o0\" Content-Length=\"40\" Transfer-Length=\"{}\" FEC-OTI-FEC-Encoding-ID=\"0\" FEC-OTI-Maximum-Source-Block-Length=\"{}\" FEC-OTI-Encoding-Symbol-Length=\"{}\"/>",
                o.toi, tl_s, b, e
            )]);
            let mut h: Vec<Option<Vec<u8>>> = fdt_packets(7, &xml).into_iter().map(Some).collect();
            for raw in &sess.pkts {
                if alc::parse_alc_pkt(raw).map(|p| p.lct.toi == o.toi).unwrap_or(false) {
                    h.push(Some(raw.clone()));
                }
            }
            h.push(None);
            let cc = CaseCfg { expect_mode: None, ..Default::default() };
            r.ctx.count("fdt-huge-tl");
            r.case("fdt-huge-tl", &cc, &sess, &[], &h, false);
        }
    }

    // ---- 18. HUGE object (Transfer-Length 2^32 + 40, 2^33 + 40 announced by the FDT, No-Code E=16 B=4), only the first packets are
    //           delivered (block 0 complete, nothing else): the object must NOT be completed (seeded change C03-5: u32 byte counters
    //           in BlockWriter, complete after transfer_length mod 2^32 bytes)
    for tl in [(1u64 << 32) + 40, (1u64 << 33) + 40] {
        let oti = scheme_oti(0, 16, 4, 0, true);
        let spec = ObjSpec { content: content(&mut rng, 200), cenc: Cenc::Null, inband_cenc: false, md5: false, oti: None, transfers: 1 };
        let sess = match make_session(&oti, &[spec], 1, 1) {
            Some(s) => s,
            None => continue,
        };
        let o = sess.objs[0].clone();
        let xml = fdt_xml(&[format!(
            "<File TOI=\"{}\" Content-Location=\"file:///o0\" Content-Length=\"{}\" Transfer-Length=\"{}\" FEC-OTI-FEC-Encoding-ID=\"0\" FEC-OTI-Maximum-Source-Block-Length=\"4\" FEC-OTI-Encoding-Symbol-Length=\"16\"/>",
            o.toi, tl, tl
        )]);
        for with_close in [false, true] {
            let mut h: Vec<Option<Vec<u8>>> = vec![Some(format!("#expect {} n C03:complete-before-all-bytes", o.toi).into_bytes())];
            h.extend(fdt_packets(7, &xml).into_iter().map(Some));
            for raw in &sess.pkts {
                if let Ok(p) = alc::parse_alc_pkt(raw) {
                    if p.lct.toi == o.toi && (with_close || !p.lct.close_object) {
                        h.push(Some(raw.clone()));
                    }
                }
            }
            h.push(None);
            let cc = CaseCfg { expect_mode: None, ..Default::default() };
            r.ctx.count("huge-object");
            r.case("huge-object", &cc, &sess, &[], &h, false);
        }
    }

    // ---- 19. content-encoded object whose compressed stream is ONE STORED deflate block (hand-made gzip / zlib / raw deflate stream,
    //           carried by the packets of a cenc-Null session; encoding, lengths and Content-MD5 announced by a hand-written FDT):
    //           unaltered (must complete with the data), and with ONE BIT of the stored data flipped - the decoded length is unchanged,
    //           gzip CRC32 / zlib Adler-32 / the Content-MD5 are the only things that can notice (seeded change C03-7)
    for &cenc in &[Cenc::Gzip, Cenc::Zlib, Cenc::Deflate] {
        for size in [50usize, 300] {
            let data = content(&mut rng, size);
            let stored: Vec<u8> = {
                let l = size as u16;
                let mut v = vec![0x01, (l & 0xff) as u8, (l >> 8) as u8, (!l & 0xff) as u8, (!l >> 8) as u8];
                v.extend_from_slice(&data);
                v
            };
            let (stream, data_off): (Vec<u8>, usize) = match cenc {
                Cenc::Gzip => {
                    let mut v = vec![0x1f, 0x8b, 8, 0, 0, 0, 0, 0, 0, 0xff];
                    v.extend_from_slice(&stored);
                    v.extend_from_slice(&crc32(&data).to_le_bytes());
                    v.extend_from_slice(&(size as u32).to_le_bytes());
                    (v, 15)
                }
                Cenc::Zlib => {
                    let mut v = vec![0x78, 0x01];
                    v.extend_from_slice(&stored);
                    v.extend_from_slice(&adler32(&data).to_be_bytes());
                    (v, 7)
                }
                _ => (stored.clone(), 5),
            };
            let cenc_name = match cenc {
                Cenc::Gzip => "gzip",
                Cenc::Zlib => "zlib",
                _ => "deflate",
            };
            let md5_b64 = { use base64::Engine; base64::engine::general_purpose::STANDARD.encode(md5::compute(&data).0) };
            for flip in [None, Some(size / 2), Some(size - 1)] {
                let mut stream2 = stream.clone();
                let mut data2 = data.clone();
                if let Some(i) = flip {
                    stream2[data_off + i] ^= 0x10;
                    data2[i] ^= 0x10;
                }
                let oti = scheme_oti(0, 16, 4, 0, true);
                let spec = ObjSpec { content: stream2.clone(), cenc: Cenc::Null, inband_cenc: false, md5: false, oti: None, transfers: 1 };
                let sess = match make_session(&oti, &[spec], 1, 1) {
                    Some(s) => s,
                    None => continue,
                };
                let o = sess.objs[0].clone();
                let xml = fdt_xml(&[format!(
                    "<File TOI=\"{}\" Content-Location=\"file:///o0\" Content-Length=\"{}\" Transfer-Length=\"{}\" Content-Encoding=\"{}\" Content-MD5=\"{}\" FEC-OTI-FEC-Encoding-ID=\"0\" FEC-OTI-Maximum-Source-Block-Length=\"4\" FEC-OTI-Encoding-Symbol-Length=\"16\"/>",
                    o.toi, size, stream2.len(), cenc_name, md5_b64
                )]);
                // decompressor table of the driver: the (altered) stream decodes to the (altered) data; gzip / zlib then fail their trailer
                let bad = flip.is_some() && cenc != Cenc::Deflate;
                let mut h: Vec<Option<Vec<u8>>> = vec![
                    Some(format!("#zmap {} {}{}", hex(&stream2), hex(&data2), if bad { " bad" } else { "" }).into_bytes()),
                    Some(format!("#expect {} {} {}", o.toi, if flip.is_some() { 'm' } else { 'g' }, hex(&data)).into_bytes()),
                ];
                h.extend(fdt_packets(7, &xml).into_iter().map(Some));
                for raw in &sess.pkts {
                    if alc::parse_alc_pkt(raw).map(|p| p.lct.toi == o.toi).unwrap_or(false) {
                        h.push(Some(raw.clone()));
                    }
                }
                h.push(None);
                let cc = CaseCfg { expect_mode: None, ..Default::default() };
                r.ctx.count(&format!("cenc-stored-flip:{}", if flip.is_some() { "flipped" } else { "clean" }));
                r.case("cenc-stored-flip", &cc, &sess, &[], &h, false);
            }
        }
    }

    // ---- 19b. BYTES AFTER THE END OF THE COMPRESSED STREAM (review batch 4): the stored-block stream of family 19 followed by k zero
    //            bytes, Transfer-Length = |stream| + k.  The flate2 decoders consume nothing after the end of the stream (read = Ok(0)):
    //            the extra bytes stay in the decoder's BufReader / in the ring; the object COMPLETES when they fit (k < ring capacity
    //            2*64 - 1), and decode_write_pkt fails ("Decoder does not consume its input") once the ring was full twice in a row.
    //            Exercises the ring-full / `stalled` branch of decode_write_pkt (dwLoop) on both sides.
    for &cenc in &[Cenc::Gzip, Cenc::Zlib, Cenc::Deflate] {
        for size in [50usize, 100] {
            let data = content(&mut rng, size);
            let stored: Vec<u8> = {
                let l = size as u16;
                let mut v = vec![0x01, (l & 0xff) as u8, (l >> 8) as u8, (!l & 0xff) as u8, (!l >> 8) as u8];
                v.extend_from_slice(&data);
                v
            };
            let stream: Vec<u8> = match cenc {
                Cenc::Gzip => {
                    let mut v = vec![0x1f, 0x8b, 8, 0, 0, 0, 0, 0, 0, 0xff];
                    v.extend_from_slice(&stored);
                    v.extend_from_slice(&crc32(&data).to_le_bytes());
                    v.extend_from_slice(&(size as u32).to_le_bytes());
                    v
                }
                Cenc::Zlib => {
                    let mut v = vec![0x78, 0x01];
                    v.extend_from_slice(&stored);
                    v.extend_from_slice(&adler32(&data).to_be_bytes());
                    v
                }
                _ => stored.clone(),
            };
            let cenc_name = match cenc {
                Cenc::Gzip => "gzip",
                Cenc::Zlib => "zlib",
                _ => "deflate",
            };
            // blocks of 4 x 16 = 64 bytes: ring capacity 128 (write_size 127)
            for k in [1usize, 20, 63, 64, 100, 128, 200, 320, 1000] {
                for with_cl in [false, true] {
                    let mut stream2 = stream.clone();
                    stream2.extend(std::iter::repeat(0u8).take(k));
                    let oti = scheme_oti(0, 16, 4, 0, true);
                    let spec = ObjSpec { content: stream2.clone(), cenc: Cenc::Null, inband_cenc: false, md5: false, oti: None, transfers: 1 };
                    let sess = match make_session(&oti, &[spec], 1, 1) {
                        Some(s) => s,
                        None => continue,
                    };
                    let o = sess.objs[0].clone();
                    let cl = if with_cl { format!(" Content-Length=\"{}\"", size) } else { String::new() };
                    let xml = fdt_xml(&[format!(
                        "<File TOI=\"{}\" Content-Location=\"file:///o0\"{} Transfer-Length=\"{}\" Content-Encoding=\"{}\" FEC-OTI-FEC-Encoding-ID=\"0\" FEC-OTI-Maximum-Source-Block-Length=\"4\" FEC-OTI-Encoding-Symbol-Length=\"16\"/>",
                        o.toi, cl, stream2.len(), cenc_name
                    )]);
                    // the table maps the STREAM (without the extra bytes) to the data; no `expect`: completion depends on k
                    let mut h: Vec<Option<Vec<u8>>> = vec![Some(format!("#zmap {} {}", hex(&stream), hex(&data)).into_bytes())];
                    h.extend(fdt_packets(7, &xml).into_iter().map(Some));
                    for raw in &sess.pkts {
                        if alc::parse_alc_pkt(raw).map(|p| p.lct.toi == o.toi).unwrap_or(false) {
                            h.push(Some(raw.clone()));
                        }
                    }
                    h.push(None);
                    let cc = CaseCfg { expect_mode: None, ..Default::default() };
                    r.ctx.count("cenc-trailing");
                    r.case("cenc-trailing", &cc, &sess, &[], &h, false);
                }
            }
        }
    }

    // ---- 19c. RaptorQ Scheme-Specific-Info from the FDT that the RaptorQ library asserts on (/repo 2addd2e, agent recv): Al = 0, Al not
    //            dividing E, N = 0 - the FDT parser takes the 4 bytes as they are (the EXT_FTI parser validates Al); BlockDecoder::init
    //            must refuse the block (object -> error), not panic.  Genuine RaptorQ packets without EXT_FTI, hand-written FDT.
    for (z, n, al) in [(1u8, 1u16, 0u8), (1, 0, 4), (1, 0, 0), (1, 1, 3), (1, 1, 5), (1, 1, 32)] {
        let oti = scheme_oti(6, 16, 4, 2, false);
        let spec = ObjSpec { content: content(&mut rng, 100), cenc: Cenc::Null, inband_cenc: false, md5: false, oti: None, transfers: 1 };
        let sess = match make_session(&oti, &[spec], 1, 1) {
            Some(s) => s,
            None => continue,
        };
        let o = sess.objs[0].clone();
        let ssi = { use base64::Engine; base64::engine::general_purpose::STANDARD.encode([z, (n >> 8) as u8, (n & 0xff) as u8, al]) };
        let xml = fdt_xml(&[format!(
            "<File TOI=\"{}\" Content-Location=\"file:///o0\" Content-Length=\"100\" Transfer-Length=\"{}\" FEC-OTI-FEC-Encoding-ID=\"6\" FEC-OTI-Maximum-Source-Block-Length=\"4\" FEC-OTI-Encoding-Symbol-Length=\"16\" FEC-OTI-Scheme-Specific-Info=\"{}\"/>",
            o.toi, o.transfer.len(), ssi
        )]);
        for fdt_first in [true, false] {
            let mut h: Vec<Option<Vec<u8>>> = vec![Some(format!("#expect {} n C09:complete-after-decoder-error", o.toi).into_bytes())];
            let objp: Vec<Vec<u8>> = sess.pkts.iter().filter(|raw| alc::parse_alc_pkt(raw).map(|p| p.lct.toi == o.toi).unwrap_or(false)).cloned().collect();
            if fdt_first {
                h.extend(fdt_packets(7, &xml).into_iter().map(Some));
                h.extend(objp.into_iter().map(Some));
            } else {
                // two packets into the cache first, then the FDT (replay of the cache), then the rest
                h.extend(objp.iter().take(2).cloned().map(Some));
                h.extend(fdt_packets(7, &xml).into_iter().map(Some));
                h.extend(objp.into_iter().skip(2).map(Some));
            }
            h.push(None);
            let cc = CaseCfg { expect_mode: None, ..Default::default() };
            r.ctx.count("fdt-rq-ssi");
            r.case("fdt-rq-ssi", &cc, &sess, &[], &h, false);
        }
    }

    // ---- 19d. BOTH SIDES OF THE LIMITS OF BlockDecoder::init (seeded change C02-10: Compact No-Code limit 65536 -> u16::MAX refused the
    //            legal block of exactly 65536 symbols; "> limit is refused" alone does not see it): one source block of k symbols,
    //            k in {limit - 1, limit, limit + 1} for No-Code (65536), Raptor (8192), RaptorQ (56403); hand-written FDT (OTI from the
    //            FDT, B = k through the u32 attribute), hand-made packets without EXT_FTI.  Quick: the first symbols and the last
    //            representable one (accept / refuse of init is visible at the first packet: refused => the object errors).
    //            Thorough: the whole No-Code block of 65536 x 2 bytes, which must complete byte-exact.
    {
        let dummy = {
            let oti = scheme_oti(0, 16, 4, 0, true);
            let spec = ObjSpec { content: content(&mut rng, 16), cenc: Cenc::Null, inband_cenc: false, md5: false, oti: None, transfers: 1 };
            make_session(&oti, &[spec], 1, 1)
        };
        if let Some(sess) = dummy {
            let toi = sess.objs[0].toi;
            // (FEC Encoding ID, E, limit, scheme-specific for make_oti, Scheme-Specific-Info bytes of the FDT)
            let schemes: Vec<(u8, u16, u32, Option<(u8, u32, u32, u32)>, Option<Vec<u8>>)> = vec![
                (0, 2, 65536, None, None),
                (1, 4, 8192, Some((2, 1, 1, 4)), Some(vec![0, 1, 1, 4])),
                (6, 4, 56403, Some((1, 1, 1, 4)), Some(vec![1, 0, 1, 4])),
            ];
            for (fec, e, limit, ss, ssi) in schemes {
                for k in [limit - 1, limit, limit + 1] {
                    let tl = k as usize * e as usize;
                    let data = content(&mut rng, tl);
                    let ssi_attr = match &ssi {
                        Some(b) => format!(" FEC-OTI-Scheme-Specific-Info=\"{}\"", { use base64::Engine; base64::engine::general_purpose::STANDARD.encode(b) }),
                        None => String::new(),
                    };
                    let xml = fdt_xml(&[format!(
                        "<File TOI=\"{}\" Content-Location=\"file:///o0\" Content-Length=\"{}\" Transfer-Length=\"{}\" FEC-OTI-FEC-Encoding-ID=\"{}\" FEC-OTI-Maximum-Source-Block-Length=\"{}\" FEC-OTI-Encoding-Symbol-Length=\"{}\"{}/>",
                        toi, tl, tl, fec, k, e, ssi_attr
                    )]);
                    let oti2 = match hk::make_oti(fec, 0, k, e, 0, ss, false) {
                        Some(o) => o,
                        None => continue,
                    };
                    // the largest ESI the payload ID can carry: 16 bits (No-Code, Raptor), 24 bits (RaptorQ)
                    let esi_max: u32 = if fec == 6 { (1 << 24) - 1 } else { 65535 };
                    let full = thorough && fec == 0 && k == limit;
                    let esis: Vec<u32> = if full {
                        (0..k).collect()
                    } else {
                        let mut v = vec![0u32, 1, 2];
                        if k - 1 <= esi_max { v.push(k - 1); }
                        v
                    };
                    let mut h: Vec<Option<Vec<u8>>> = Vec::new();
                    if full {
                        h.push(Some(format!("#expect {} g {}", toi, hex(&data)).into_bytes()));
                    }
                    h.extend(fdt_packets(7, &xml).into_iter().map(Some));
                    for esi in esis {
                        let f = hk::PktFields {
                            payload: data[esi as usize * e as usize..(esi as usize + 1) * e as usize].to_vec(),
                            transfer_length: tl as u64,
                            esi,
                            sbn: 0,
                            toi,
                            fdt_id: None,
                            cenc: Cenc::Null,
                            inband_cenc: false,
                            close_object: false,
                            source_block_length: 0,
                            sender_current_time: false,
                        };
                        let o3 = oti2.clone();
                        if let Ok(raw2) = guarded(std::panic::AssertUnwindSafe(move || hk::new_alc_pkt(&o3, &0u128, TSI, &f, false, now()))) {
                            h.push(Some(raw2));
                        }
                    }
                    h.push(None);
                    let cc = CaseCfg { expect_mode: None, ..Default::default() };
                    r.ctx.count(&format!("init-limits:{}:{}", fec, if k <= limit { "accept" } else { "refuse" }));
                    r.case("init-limits", &cc, &sess, &[], &h, false);
                }
            }
        }
    }

    // ---- 19e. Content-MD5 that is NOT canonical padded base64 (seeded change C09-9: check_md5 decodes both digests and answers `true`
    //            when one cannot be decoded): unpadded, one pad, one char too many, URL-safe alphabet, garbage, lower case, empty -
    //            x payload intact / one byte flipped, cenc null and deflate (one stored block).  The code compares the base64 TEXTS
    //            (model: string equality): anything but the canonical text of the digest of the written bytes must end in `error`;
    //            with a flipped byte `complete` is a violation whatever the attribute looks like (MD5 announced and checked).
    for &cenc in &[Cenc::Null, Cenc::Deflate] {
        let size = 50usize;
        let data = content(&mut rng, size);
        let canon = { use base64::Engine; base64::engine::general_purpose::STANDARD.encode(md5::compute(&data).0) };
        let mut urlsafe: String = canon.replace('+', "-").replace('/', "_");
        if urlsafe == canon {
            urlsafe = format!("-{}", &canon[1..]);
        }
        let variants: Vec<String> = vec![
            canon.clone(),
            canon.trim_end_matches('=').to_string(),
            format!("{}=", canon.trim_end_matches('=')),
            format!("{}A", canon),
            urlsafe,
            "!!!!".to_string(),
            canon.to_lowercase(),
            String::new(),
        ];
        for v in &variants {
            for flip in [None, Some(size / 2)] {
                let mut data2 = data.clone();
                if let Some(i) = flip {
                    data2[i] ^= 0x10;
                }
                let (transfer, cenc_attr): (Vec<u8>, &str) = match cenc {
                    Cenc::Deflate => {
                        let l = size as u16;
                        let mut t = vec![0x01, (l & 0xff) as u8, (l >> 8) as u8, (!l & 0xff) as u8, (!l >> 8) as u8];
                        t.extend_from_slice(&data2);
                        (t, " Content-Encoding=\"deflate\"")
                    }
                    _ => (data2.clone(), ""),
                };
                let oti = scheme_oti(0, 16, 4, 0, true);
                let spec = ObjSpec { content: transfer.clone(), cenc: Cenc::Null, inband_cenc: false, md5: false, oti: None, transfers: 1 };
                let sess = match make_session(&oti, &[spec], 1, 1) {
                    Some(s) => s,
                    None => continue,
                };
                let o = sess.objs[0].clone();
                let xml = fdt_xml(&[format!(
                    "<File TOI=\"{}\" Content-Location=\"file:///o0\" Content-Length=\"{}\" Transfer-Length=\"{}\"{} Content-MD5=\"{}\" FEC-OTI-FEC-Encoding-ID=\"0\" FEC-OTI-Maximum-Source-Block-Length=\"4\" FEC-OTI-Encoding-Symbol-Length=\"16\"/>",
                    o.toi, size, transfer.len(), cenc_attr, v
                )]);
                let mut h: Vec<Option<Vec<u8>>> = Vec::new();
                if cenc != Cenc::Null {
                    h.push(Some(format!("#zmap {} {}", hex(&transfer), hex(&data2)).into_bytes()));
                }
                h.push(Some(format!("#expect {} {} {}", o.toi, if flip.is_some() { 'm' } else { 'g' }, hex(&data)).into_bytes()));
                h.extend(fdt_packets(7, &xml).into_iter().map(Some));
                for raw in &sess.pkts {
                    if alc::parse_alc_pkt(raw).map(|p| p.lct.toi == o.toi).unwrap_or(false) {
                        h.push(Some(raw.clone()));
                    }
                }
                h.push(None);
                let cc = CaseCfg { expect_mode: None, ..Default::default() };
                r.ctx.count(&format!("md5-noncanonical:{}", if flip.is_some() { "flipped" } else { "intact" }));
                r.case("md5-noncanonical", &cc, &sess, &[], &h, false);
            }
        }
    }

    // ---- 19f. the cache replay INSIDE push() fails (seeded change C09-10: the `state != Receiving` test moved before push_from_cache, the
    //            packet that triggered the replay then hits the same failure: two terminal calls).  FDT File entry WITHOUT FEC-OTI
    //            (attached: the writer will be created in push), packets WITHOUT EXT_FTI of blocks 1..n (cached), then one packet WITH
    //            EXT_FTI: set_oti_from_pkt, init_object_writer (open), push_from_cache - which runs into the allocation limit
    //            (object_max_cache_size small, 64-byte blocks) -> error() exactly once.
    for (max, ncached) in [(150usize, 3u32), (200, 4), (200, 5), (150, 2), (10 << 20, 3)] {
        let nblocks = ncached + 2;
        let tl = nblocks as usize * 64;
        let data = content(&mut rng, tl);
        let dummy = {
            let oti = scheme_oti(0, 16, 4, 0, true);
            let spec = ObjSpec { content: content(&mut rng, 16), cenc: Cenc::Null, inband_cenc: false, md5: false, oti: None, transfers: 1 };
            make_session(&oti, &[spec], 1, 1)
        };
        let sess = match dummy {
            Some(s) => s,
            None => continue,
        };
        let toi = sess.objs[0].toi;
        let xml = fdt_xml(&[format!("<File TOI=\"{}\" Content-Location=\"file:///o0\" Content-Length=\"{}\" Transfer-Length=\"{}\"/>", toi, tl, tl)]);
        let mk = |sbn: u32, esi: u32, inband: bool| -> Option<Vec<u8>> {
            let oti2 = scheme_oti(0, 16, 4, 0, inband);
            let off = sbn as usize * 64 + esi as usize * 16;
            let f = hk::PktFields {
                payload: data[off..off + 16].to_vec(),
                transfer_length: tl as u64,
                esi,
                sbn,
                toi,
                fdt_id: None,
                cenc: Cenc::Null,
                inband_cenc: false,
                close_object: false,
                source_block_length: 0,
                sender_current_time: false,
            };
            guarded(std::panic::AssertUnwindSafe(move || hk::new_alc_pkt(&oti2, &0u128, TSI, &f, false, now()))).ok()
        };
        let mut h: Vec<Option<Vec<u8>>> = fdt_packets(7, &xml).into_iter().map(Some).collect();
        for sbn in 1..=ncached {
            if let Some(p) = mk(sbn, 0, false) {
                h.push(Some(p));
            }
        }
        if let Some(p) = mk(ncached + 1, 0, true) {
            h.push(Some(p));
        }
        // and what comes after: more packets with EXT_FTI (a new object is created for them when the first one ended)
        if let Some(p) = mk(0, 0, true) {
            h.push(Some(p));
        }
        h.push(None);
        let cc = CaseCfg { expect_mode: None, max, ..Default::default() };
        r.ctx.count("replay-fails-in-push");
        r.case("replay-fails-in-push", &cc, &sess, &[], &h, false);
    }

    // ---- 19g. THE CRATE'S OWN WRITER BUILDERS (seeded changes C03-9: `ObjectWriterBufferBuilder::default()` with the MD5 check off,
    //            C03-10: ObjectWriterFS answers enable_md5_check() = false until the file is open): an object with announced
    //            Content-MD5, intact / one payload byte flipped, fed to a fresh real Receiver writing through
    //            ObjectWriterBufferBuilder::default(), ::new(true) and ObjectWriterFSBuilder::new(dir, true).  Oracle-only op
    //            `realwriter`: nothing that is not the sender's object may be held as complete / left in the destination.
    for kind in ["bufdefault", "bufnew", "bufoff", "fs"] {
        for flip in [None, Some(7usize), Some(40)] {
            let size = 50usize;
            let data = content(&mut rng, size);
            let mut data2 = data.clone();
            if let Some(i) = flip {
                data2[i] ^= 0x04;
            }
            let md5_b64 = { use base64::Engine; base64::engine::general_purpose::STANDARD.encode(md5::compute(&data).0) };
            let oti = scheme_oti(0, 16, 4, 0, true);
            let spec = ObjSpec { content: data2.clone(), cenc: Cenc::Null, inband_cenc: false, md5: false, oti: None, transfers: 1 };
            let sess = match make_session(&oti, &[spec], 1, 1) {
                Some(s) => s,
                None => continue,
            };
            let o = sess.objs[0].clone();
            let xml = fdt_xml(&[format!(
                "<File TOI=\"{}\" Content-Location=\"file:///o0\" Content-Length=\"{}\" Transfer-Length=\"{}\" Content-MD5=\"{}\" FEC-OTI-FEC-Encoding-ID=\"0\" FEC-OTI-Maximum-Source-Block-Length=\"4\" FEC-OTI-Encoding-Symbol-Length=\"16\"/>",
                o.toi, size, size, md5_b64
            )]);
            let mut raws: Vec<Vec<u8>> = fdt_packets(7, &xml);
            for raw in &sess.pkts {
                if alc::parse_alc_pkt(raw).map(|p| p.lct.toi == o.toi).unwrap_or(false) {
                    raws.push(raw.clone());
                }
            }
            let joined = raws.iter().map(|r| hex(r)).collect::<Vec<_>>().join(".");
            let h: Vec<Option<Vec<u8>>> = vec![Some(format!("#realwriter {} {} {}", kind, hex(&data), joined).into_bytes())];
            let cc = CaseCfg { expect_mode: None, ..Default::default() };
            r.ctx.count(&format!("real-writers:{}", kind));
            r.case("real-writers", &cc, &sess, &[], &h, false);
        }
    }

    // ---- 20. OBJECT-level FTI poisoning (review batch 3): ONE forged datagram of the TOI with a conflicting EXT_FTI (transfer length
    //           2^40, another E, another B) arrives BEFORE the FDT and the genuine packets; the FDT is the authority: the object must
    //           be delivered byte-exact (before the repair in attach_fdt it ended `interrupted`)
    for (vi, ed) in [
        Edit { tl: Some(1u64 << 40), force_fti: true, ..Default::default() },
        Edit { e: Some(32), force_fti: true, ..Default::default() },
        Edit { b: Some(1), force_fti: true, ..Default::default() },
        Edit { tl: Some(7), e: Some(8), force_fti: true, ..Default::default() },
    ]
    .iter()
    .enumerate()
    {
        for inband in [true, false] {
            let oti = scheme_oti(0, 16, 4, 0, inband);
            let spec = ObjSpec { content: content(&mut rng, 150), cenc: Cenc::Null, inband_cenc: false, md5: vi % 2 == 0, oti: None, transfers: 1 };
            let sess = match make_session(&oti, &[spec], 1, 1) {
                Some(s) => s,
                None => continue,
            };
            let o = sess.objs[0].clone();
            let first_obj = match sess.pkts.iter().find(|raw| alc::parse_alc_pkt(raw).map(|p| p.lct.toi == o.toi).unwrap_or(false)) {
                Some(r) => r.clone(),
                None => continue,
            };
            let forged = match rebuild(&first_obj, &o, ed) {
                Some(f) => f,
                None => continue,
            };
            let mut h: Vec<Option<Vec<u8>>> = vec![Some(forged)];
            h.extend(all_pushed(&sess.pkts).into_iter().filter(|x| x.is_some()));
            h.push(None);
            r.ctx.count("fti-poison");
            r.case("fti-poison", &dflt, &sess, &[], &h, false);
        }
    }

    // ---- 20b. STALE TRANSFER LENGTH WITH THE SAME PARTITION (seeded change C07-9: attach_fdt no longer compares the transfer length,
    //            "the partition comparison covers it"): a stale datagram of the TOI with EXT_FTI announcing L' != L where
    //            ceil(L'/E) = ceil(L/E) (same symbol count, same partition tuple) - L = 150, E = 16: 145..160 - before the FDT (then the
    //            FDT's L is the authority and the clean genuine transfer must complete byte-exact), and the reverse order (FDT first,
    //            then the stale packet, which must change nothing)
    for tl2 in [149u64, 151, 145, 159, 160] {
        for inband in [true, false] {
            for fdt_first in [false, true] {
                let oti = scheme_oti(0, 16, 4, 0, inband);
                let spec = ObjSpec { content: content(&mut rng, 150), cenc: Cenc::Null, inband_cenc: false, md5: tl2 % 2 == 0, oti: None, transfers: 1 };
                let sess = match make_session(&oti, &[spec], 1, 1) {
                    Some(s) => s,
                    None => continue,
                };
                let o = sess.objs[0].clone();
                let is_obj = |raw: &Vec<u8>| alc::parse_alc_pkt(raw).map(|p| p.lct.toi == o.toi).unwrap_or(false);
                let first_obj = match sess.pkts.iter().find(|raw| is_obj(raw)) {
                    Some(r) => r.clone(),
                    None => continue,
                };
                let forged = match rebuild(&first_obj, &o, &Edit { tl: Some(tl2), force_fti: true, ..Default::default() }) {
                    Some(f) => f,
                    None => continue,
                };
                let mut h: Vec<Option<Vec<u8>>> = Vec::new();
                if fdt_first {
                    h.extend(sess.pkts.iter().filter(|raw| !is_obj(raw)).cloned().map(Some));
                    h.push(Some(forged));
                    h.extend(sess.pkts.iter().filter(|raw| is_obj(raw)).cloned().map(Some));
                } else {
                    h.push(Some(forged));
                    h.extend(sess.pkts.iter().filter(|raw| !is_obj(raw)).cloned().map(Some));
                    h.extend(sess.pkts.iter().filter(|raw| is_obj(raw)).cloned().map(Some));
                }
                h.push(None);
                r.ctx.count("fti-stale-length-same-partition");
                let obs = r.case("fti-stale-length-same-partition", &dflt, &sess, &[], &h, false);
                // a clean genuine transfer after the FDT must be delivered (with in-band FTI on every genuine packet a stale L' that
                // arrives first and is never contradicted by an FDT-borne OTI check is outside this demand: only count it)
                if !obs.iter().any(|x| x.contains(":C") || x.contains(",C")) {
                    r.ctx.count("fti-stale-length-same-partition:not-completed");
                }
            }
        }
    }

    // ---- 15. a TOI reused for DIFFERENT content while the older FDT instance that listed it is still retained
    //          (FDT-only OTI, no MD5, receive_once off): the new object must take the NEWEST instance listing the TOI
    for i in 0..(if thorough { 40 } else { 10 }) {
        let (e, b) = (*rng.pick(&[8u16, 16]), *rng.pick(&[2u16, 3]));
        let oti = scheme_oti(0, e, b, 0, false);
        let size_a = rng.range(5, (e * b * 2) as u64) as usize;
        let size_b = rng.range(5, (e * b * 3) as u64) as usize;
        let mk = |content: Vec<u8>, fdt_id: u32| -> Option<Session> {
            let oti = oti.clone();
            guarded(std::panic::AssertUnwindSafe(move || {
                let mut cfg = sender::Config::default();
                cfg.toi_initial_value = Some(1);
                cfg.fdt_start_id = fdt_id;
                let mut s = Sender::new(endpoint(), TSI, &Oti::new_no_code(1400, 64), &cfg);
                let url = url::Url::parse("file:///reused").unwrap();
                let tc = TransferConfig { oti: Some(oti.clone()), ..Default::default() };
                let desc = ObjectDesc::create_from_buffer(content.clone(), "application/octet-stream", &url, false, tc).ok()?;
                let toi = s.add_object(0, desc).ok()?;
                s.publish(now()).ok()?;
                let mut pkts = Vec::new();
                while let Some(p) = s.read(now()) {
                    pkts.push(p);
                    if pkts.len() > 5000 {
                        break;
                    }
                }
                Some(Session { pkts, objs: vec![ObjInfo { toi, content: content.clone(), transfer: content, cenc: Cenc::Null, oti }] })
            }))
            .ok()
            .flatten()
        };
        let (sa, sb) = match (mk(content(&mut rng, size_a), 1), mk(content(&mut rng, size_b), 2)) {
            (Some(a), Some(b)) => (a, b),
            _ => continue,
        };
        let mut h = all_pushed(&sa.pkts);
        h.push(Some(format!("#expect {} g {}", sb.objs[0].toi, hex(&sb.objs[0].content)).into_bytes()));
        h.extend(all_pushed(&sb.pkts));
        if i % 2 == 1 {
            // and once more the first content: stale packets of the OLD content are decoded under the new FDT entry; a completed
            // MIXTURE of symbols of both contents is the known class C03:toi-reuse-mixed-complete (finding orecv-2), any other
            // completed bytes stay C03:complete-wrong-bytes
            h.push(Some(format!("#expect {} r {}.{}", sb.objs[0].toi, e, hex(&sa.objs[0].content)).into_bytes()));
            h.extend(sa.pkts.iter().filter(|raw| alc::parse_alc_pkt(raw).map(|p| p.lct.toi != 0).unwrap_or(false)).cloned().map(Some));
        }
        h.push(None);
        let cc = CaseCfg { once: false, ..Default::default() };
        r.case("toi-reuse", &cc, &sa, &[], &h, false);
    }
}

fn main() {
    harness_core::engine_main("orecv", || Box::new(OrecvEngine::new()), run);
}
