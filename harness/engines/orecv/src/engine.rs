//! The implementation side of engine `orecv`: a REAL `flute::receiver::Receiver` for one session, fed through the
//! public API (`push_data`), with a monitoring `ObjectWriterBuilder` / `ObjectWriter` (typestate automaton per writer =
//! the C09 oracle, scripted fault plans).  Ops run on a worker thread so that a hang becomes the observation `TIMEOUT`.
use flute::core::lct::Cenc;
use flute::core::{Oti, UDPEndpoint};
use flute::receiver::writer::{ObjectMetadata, ObjectWriter, ObjectWriterBuilder, ObjectWriterBuilderResult};
use flute::receiver::{Config, Receiver};
use flute::verif_hooks as hk;
use harness_core::{guarded, Engine, Oracle};
use std::cell::RefCell;
use std::collections::HashMap;
use std::rc::Rc;
use std::sync::mpsc;
use std::time::{Duration, SystemTime};

pub const TSI: u64 = 1;

pub fn now() -> SystemTime {
    SystemTime::UNIX_EPOCH + Duration::from_secs(1_750_000_000)
}

pub fn endpoint() -> UDPEndpoint {
    UDPEndpoint::new(None, "224.0.0.1".to_owned(), 5000)
}

pub fn fnv64(b: &[u8]) -> u64 {
    let mut h: u64 = 0xcbf29ce484222325;
    for x in b {
        h ^= *x as u64;
        h = h.wrapping_mul(0x100000001b3);
    }
    h
}

pub fn summary(b: &[u8]) -> String {
    format!("{}:{:016x}", b.len(), fnv64(b))
}

pub fn unhex(s: &str) -> Option<Vec<u8>> {
    if s == "-" {
        return Some(vec![]);
    }
    if s.len() % 2 != 0 {
        return None;
    }
    (0..s.len() / 2).map(|i| u8::from_str_radix(&s[2 * i..2 * i + 2], 16).ok()).collect()
}

pub fn show_ss(o: &Oti) -> String {
    match hk::oti_scheme_specific(o) {
        None => "-".to_string(),
        Some((0, m, g, _)) => format!("rs.{}.{}", m, g),
        Some((1, z, n, al)) => format!("rq.{}.{}.{}", z, n, al),
        Some((_, z, n, al)) => format!("r.{}.{}.{}", z, n, al),
    }
}

pub fn show_oti(o: Option<&Oti>) -> String {
    match o {
        None => "-".to_string(),
        Some(o) => format!(
            "{}/{}/{}/{}/{}",
            o.fec_encoding_id as u8,
            o.encoding_symbol_length,
            o.maximum_source_block_length,
            o.max_number_of_parity_symbols,
            show_ss(o)
        ),
    }
}

fn opt<T: std::fmt::Display>(v: Option<T>) -> String {
    match v {
        None => "-".to_string(),
        Some(x) => format!("{}", x),
    }
}

#[derive(Clone, Debug)]
pub struct PlanSpec {
    pub ans: u8, // 0 store, 1 already received, 2 abort
    pub md5: bool,
    pub open_ok: bool,
    pub fail_at: Option<usize>,
}

/// state of the writer-protocol automaton (Spec/WriterProto.lean)
#[derive(PartialEq, Clone, Copy, Debug)]
enum PS {
    Idle,
    Opened,
    Failed,
    Done,
}

struct WRec {
    toi: u128,
    idx: usize,
    cenc_null: bool,
    tl: Option<usize>,
    cl: Option<usize>,
    md5: Option<String>,
    plan: PlanSpec,
    st: PS,
    written: Vec<u8>,
    nwrites: usize,
    terminal: Option<char>,
}

#[derive(Default)]
struct Mon {
    plans: HashMap<(u128, usize), PlanSpec>,
    def_md5: bool,
    calls: HashMap<u128, usize>,
    writers: Vec<WRec>,
    /// calls of the current op: (toi, builder call index, printed form or None when suppressed)
    events: Vec<(u128, usize, Option<String>)>,
    fails: Vec<(String, String)>,
    fdt_seen: Vec<String>,
    /// expected content per TOI: mode 'g' (genuine packets only: writes are a prefix, complete => equal),
    /// 'm' (payloads altered, MD5 announced and checked: complete => equal)
    expect: HashMap<u128, (char, Vec<u8>)>,
    /// TOI reused for different content: (symbol length, OLD content); stale packets of the old content may still arrive
    reuse: HashMap<u128, (usize, Vec<u8>)>,
    /// TOIs that must never be told `complete` in this case (truncated stream, partial delivery), with the class to report
    never: HashMap<u128, String>,
}

type Shared = Rc<RefCell<Mon>>;

struct Builder(Shared);
struct Writer {
    mon: Shared,
    id: usize,
}

impl std::fmt::Debug for Builder {
    fn fmt(&self, f: &mut std::fmt::Formatter<'_>) -> std::fmt::Result {
        write!(f, "MonBuilder")
    }
}

fn show_meta(m: &ObjectMetadata) -> String {
    format!(
        "tl={},cl={},cenc={},md5={},oti={}",
        opt(m.transfer_length),
        opt(m.content_length),
        opt(m.cenc.map(|c| c as u8)),
        m.md5.clone().unwrap_or("-".to_string()),
        show_oti(m.oti.as_ref())
    )
}

impl ObjectWriterBuilder for Builder {
    fn new_object_writer(
        &self,
        _endpoint: &UDPEndpoint,
        _tsi: &u64,
        toi: &u128,
        meta: &ObjectMetadata,
        _now: SystemTime,
    ) -> ObjectWriterBuilderResult {
        let mut m = self.0.borrow_mut();
        let idx = *m.calls.get(toi).unwrap_or(&0);
        m.calls.insert(*toi, idx + 1);
        let plan = m.plans.get(&(*toi, idx)).cloned().unwrap_or(PlanSpec { ans: 0, md5: m.def_md5, open_ok: true, fail_at: None });
        let ans = ["store", "already", "abort"][plan.ans as usize];
        m.events.push((*toi, idx, Some(format!("N[{}]={}", show_meta(meta), ans))));
        match plan.ans {
            1 => ObjectWriterBuilderResult::ObjectAlreadyReceived,
            2 => ObjectWriterBuilderResult::Abort,
            _ => {
                let id = m.writers.len();
                m.writers.push(WRec {
                    toi: *toi,
                    idx,
                    cenc_null: meta.cenc == Some(Cenc::Null),
                    tl: meta.transfer_length,
                    cl: meta.content_length,
                    md5: meta.md5.clone(),
                    plan,
                    st: PS::Idle,
                    written: Vec::new(),
                    nwrites: 0,
                    terminal: None,
                });
                ObjectWriterBuilderResult::StoreObject(Box::new(Writer { mon: self.0.clone(), id }))
            }
        }
    }

    fn update_cache_control(&self, _e: &UDPEndpoint, _tsi: &u64, _toi: &u128, _meta: &ObjectMetadata, _now: SystemTime) {}

    fn fdt_received(
        &self,
        _endpoint: &UDPEndpoint,
        _tsi: &u64,
        fdt_xml: &str,
        _expires: SystemTime,
        _meta: &ObjectMetadata,
        _transfer_duration: Duration,
        _now: SystemTime,
        _ext_time: Option<SystemTime>,
    ) {
        self.0.borrow_mut().fdt_seen.push(fdt_xml.to_string());
    }
}

impl Mon {
    fn fail(&mut self, class: &str, desc: String) {
        self.fails.push((class.to_string(), desc));
    }

    fn terminal(&mut self, id: usize, kind: char) {
        let (toi, idx, st, prev, cenc_null) = {
            let w = &self.writers[id];
            (w.toi, w.idx, w.st, w.terminal, w.cenc_null)
        };
        let name = match kind {
            'C' => "complete",
            'E' => "error",
            _ => "interrupted",
        };
        let allowed = match kind {
            'C' | 'I' => st == PS::Opened,
            _ => st == PS::Opened || st == PS::Failed,
        };
        if !allowed {
            self.fail(
                &format!("C09:{}-in-{}", name, format!("{:?}", st).to_lowercase()),
                format!("writer {}.{}: `{}` called in protocol state {:?} (previous terminal call: {:?})", toi, idx, name, st, prev),
            );
        }
        if let Some(p) = prev {
            if (p == 'C') != (kind == 'C') {
                self.fail(
                    "C03:complete-and-failed",
                    format!("writer {}.{} was told both `{}` and `{}`", toi, idx, p, kind),
                );
            }
        }
        if kind == 'C' {
            let (tl, md5, check, written, cl) = {
                let w = &self.writers[id];
                (w.tl, w.md5.clone(), w.plan.md5, w.written.clone(), w.cl)
            };
            if let Some(cl) = cl {
                if cl != written.len() && tl != Some(0) {
                    self.fail(
                        "C09:complete-content-length",
                        format!("writer {}.{}: complete after {} bytes although Content-Length {} was announced", toi, idx, written.len(), cl),
                    );
                }
            }
            if cenc_null && tl != Some(written.len()) {
                self.fail(
                    "C09:complete-length",
                    format!("writer {}.{}: complete after {} bytes, announced transfer length {:?} (cenc null)", toi, idx, written.len(), tl),
                );
            }
            if let (Some(md5), true) = (md5.as_ref(), check) {
                use base64::Engine;
                let got = base64::engine::general_purpose::STANDARD.encode(md5::compute(&written).0);
                if &got != md5 && written.is_empty() && tl == Some(0) {
                    // known finding D33: a zero-length object is completed without MD5 comparison
                    self.fail(
                        "C09:complete-md5-unchecked-empty",
                        format!("writer {}.{}: empty object completed although the announced Content-MD5 {} is not the digest of the empty string", toi, idx, md5),
                    );
                } else if &got != md5 {
                    self.fail(
                        "C09:complete-md5-mismatch",
                        format!("writer {}.{}: complete although MD5 of the written bytes {} != announced {}", toi, idx, got, md5),
                    );
                    self.fail(
                        "C03:md5-mismatch-completed",
                        format!("writer {}.{}: MD5 announced and checked, written bytes differ, still complete", toi, idx),
                    );
                }
            }
            if let Some(class) = self.never.get(&toi).cloned() {
                self.fail(&class, format!("writer {}.{}: complete ({} bytes) although the object cannot have been received entirely / its stream is truncated", toi, idx, written.len()));
            }
            if let Some((_, want)) = self.expect.get(&toi) {
                let mixed = match self.reuse.get(&toi) {
                    Some((e, old)) => is_symbol_mix(&written, old, want, *e),
                    None => false,
                };
                if want != &written && mixed {
                    self.fail(
                        "C03:toi-reuse-mixed-complete",
                        format!("writer {}.{}: TOI reused for different content, complete with {} bytes every symbol of which is a symbol of the old or of the new content", toi, idx, written.len()),
                    );
                } else if want != &written {
                    let want_len = want.len();
                    self.fail(
                        "C03:complete-wrong-bytes",
                        format!("writer {}.{}: complete with {} bytes that are not the sender's object ({} bytes)", toi, idx, written.len(), want_len),
                    );
                }
            }
        }
        let w = &mut self.writers[id];
        w.st = PS::Done;
        w.terminal = Some(kind);
        let txt = if kind == 'C' || cenc_null { format!("{}{}", kind, summary(&w.written)) } else { format!("{}", kind) };
        self.events.push((toi, idx, Some(txt)));
    }
}

impl std::fmt::Debug for Writer {
    fn fmt(&self, f: &mut std::fmt::Formatter<'_>) -> std::fmt::Result {
        write!(f, "MonWriter")
    }
}

impl ObjectWriter for Writer {
    fn open(&self, _now: SystemTime) -> flute::error::Result<()> {
        let mut m = self.mon.borrow_mut();
        let (toi, idx, st, ok) = {
            let w = &m.writers[self.id];
            (w.toi, w.idx, w.st, w.plan.open_ok)
        };
        if st != PS::Idle {
            m.fail(&format!("C09:open-in-{}", format!("{:?}", st).to_lowercase()), format!("writer {}.{}: `open` called in protocol state {:?}", toi, idx, st));
        }
        m.writers[self.id].st = if ok { PS::Opened } else { PS::Failed };
        m.events.push((toi, idx, Some(format!("O={}", if ok { "ok" } else { "err" }))));
        if ok {
            Ok(())
        } else {
            Err(flute::error::FluteError::new("scripted open failure"))
        }
    }

    fn write(&self, sbn: u32, data: &[u8], _now: SystemTime) -> flute::error::Result<()> {
        let mut m = self.mon.borrow_mut();
        let (toi, idx, st, cenc_null, ok) = {
            let w = &m.writers[self.id];
            (w.toi, w.idx, w.st, w.cenc_null, w.plan.fail_at != Some(w.nwrites))
        };
        if st != PS::Opened {
            m.fail(&format!("C09:write-in-{}", format!("{:?}", st).to_lowercase()), format!("writer {}.{}: `write` called in protocol state {:?}", toi, idx, st));
        }
        m.writers[self.id].nwrites += 1;
        if ok {
            m.writers[self.id].written.extend_from_slice(data);
            let bad = match m.expect.get(&toi) {
                Some(('g', want)) => !m.reuse.contains_key(&toi) && !want.starts_with(&m.writers[self.id].written),
                _ => false,
            };
            if bad {
                let n = m.writers[self.id].written.len();
                m.fail("C09:write-not-prefix", format!("writer {}.{}: the {} bytes written so far are not a prefix of the object's content", toi, idx, n));
            }
        }
        let ev = if cenc_null { Some(format!("W{}:{}={}", sbn, summary(data), if ok { "ok" } else { "err" })) } else { None };
        m.events.push((toi, idx, ev));
        if ok {
            Ok(())
        } else {
            Err(flute::error::FluteError::new("scripted write failure"))
        }
    }

    fn complete(&self, _now: SystemTime) {
        self.mon.borrow_mut().terminal(self.id, 'C');
    }
    fn error(&self, _now: SystemTime) {
        self.mon.borrow_mut().terminal(self.id, 'E');
    }
    fn interrupted(&self, _now: SystemTime) {
        self.mon.borrow_mut().terminal(self.id, 'I');
    }
    fn enable_md5_check(&self) -> bool {
        self.mon.borrow().writers[self.id].plan.md5
    }
}

/// receiver + monitor of one case (lives on the worker thread)
struct Inner {
    mon: Shared,
    receiver: Option<Receiver>,
    cfg: Config,
    max_pkt: usize,
    dead: bool,
}

fn kv<'a>(t: &[&'a str], key: &str) -> Option<&'a str> {
    for a in t {
        if let Some(rest) = a.strip_prefix(key) {
            if let Some(v) = rest.strip_prefix('=') {
                return Some(v);
            }
        }
    }
    None
}

fn count_list(s: &str) -> usize {
    // `s` starts right after '['
    let end = s.find(']').unwrap_or(0);
    let body = &s[..end];
    if body.trim().is_empty() {
        0
    } else {
        body.split(',').count()
    }
}

fn nums_after(s: &str, key: &str) -> Vec<usize> {
    let mut out = Vec::new();
    let mut rest = s;
    while let Some(i) = rest.find(key) {
        rest = &rest[i + key.len()..];
        let d: String = rest.chars().take_while(|c| c.is_ascii_digit()).collect();
        if let Ok(v) = d.parse() {
            out.push(v);
        }
    }
    out
}

/// feed `raws` to a fresh real `Receiver` writing through one of the crate's own writer builders; returns oracle failures
fn real_writer_scenario(kind: &str, want: &[u8], raws: &[Vec<u8>]) -> Vec<(String, String)> {
    use flute::receiver::writer::{ObjectWriterBufferBuilder, ObjectWriterFSBuilder};
    let mut fails = Vec::new();
    let cfg = Config { enable_fdt_expiration_check: false, ..Default::default() };
    let feed = |b: Rc<dyn ObjectWriterBuilder>| -> Result<(), String> {
        let raws: Vec<Vec<u8>> = raws.to_vec();
        guarded(std::panic::AssertUnwindSafe(move || {
            let mut r = Receiver::new(&endpoint(), TSI, b, Some(cfg));
            for raw in &raws {
                let _ = r.push_data(raw, now());
            }
            drop(r);
        }))
    };
    match kind {
        "bufdefault" | "bufnew" | "bufoff" => {
            // `bufoff` = new(false): MD5 checking switched off by the application, a corrupted object MAY be held as complete (control:
            // only "no panic" is demanded); `default()` is documented as MD5 check ON (= new(true))
            let b = Rc::new(match kind {
                "bufdefault" => ObjectWriterBufferBuilder::default(),
                "bufnew" => ObjectWriterBufferBuilder::new(true),
                _ => ObjectWriterBufferBuilder::new(false),
            });
            if let Err(loc) = feed(b.clone()) {
                fails.push(("C04:panic".to_string(), format!("Receiver with ObjectWriterBufferBuilder panics at {}", loc)));
            }
            for o in b.objects.borrow().iter() {
                let o = o.borrow();
                if kind != "bufoff" && o.complete && o.data != want {
                    fails.push((
                        "C03:complete-wrong-bytes".to_string(),
                        format!("ObjectWriterBufferBuilder ({}): object held as COMPLETE with {} bytes that are not the sender's object ({} bytes; Content-MD5 announced)", kind, o.data.len(), want.len()),
                    ));
                }
            }
        }
        "fs" => {
            static N: std::sync::atomic::AtomicU64 = std::sync::atomic::AtomicU64::new(0);
            let dir = std::env::temp_dir().join(format!("orecv-fs-{}-{}", std::process::id(), N.fetch_add(1, std::sync::atomic::Ordering::Relaxed)));
            let _ = std::fs::create_dir_all(&dir);
            match ObjectWriterFSBuilder::new(&dir, true) {
                Ok(b) => {
                    if let Err(loc) = feed(Rc::new(b)) {
                        fails.push(("C04:panic".to_string(), format!("Receiver with ObjectWriterFSBuilder panics at {}", loc)));
                    }
                    // `error()` removes the file: a file that is still there after the Receiver was dropped has been delivered
                    let mut stack = vec![dir.clone()];
                    while let Some(d) = stack.pop() {
                        if let Ok(rd) = std::fs::read_dir(&d) {
                            for e in rd.flatten() {
                                let p = e.path();
                                if p.is_dir() {
                                    stack.push(p);
                                } else if let Ok(data) = std::fs::read(&p) {
                                    if data != want {
                                        fails.push((
                                            "C03:complete-wrong-bytes".to_string(),
                                            format!("ObjectWriterFSBuilder (MD5 check requested): file left in the destination with {} bytes that are not the sender's object ({} bytes; Content-MD5 announced)", data.len(), want.len()),
                                        ));
                                    }
                                }
                            }
                        }
                    }
                }
                Err(_) => fails.push(("HARNESS:fs-builder".to_string(), "ObjectWriterFSBuilder::new failed on a fresh temporary directory".to_string())),
            }
            let _ = std::fs::remove_dir_all(&dir);
        }
        _ => {}
    }
    fails
}

impl Inner {
    fn new() -> Inner {
        let mon: Shared = Rc::new(RefCell::new(Mon { def_md5: true, ..Default::default() }));
        Inner {
            mon,
            receiver: None,
            cfg: Config { enable_fdt_expiration_check: false, object_timeout: Some(Duration::from_millis(1)), ..Default::default() },
            max_pkt: 0,
            dead: false,
        }
    }

    fn receiver(&mut self) -> &mut Receiver {
        if self.receiver.is_none() {
            let b: Rc<dyn ObjectWriterBuilder> = Rc::new(Builder(self.mon.clone()));
            self.receiver = Some(Receiver::new(&endpoint(), TSI, b, Some(self.cfg)));
        }
        self.receiver.as_mut().unwrap()
    }

    fn observation(&mut self) -> String {
        let mut m = self.mon.borrow_mut();
        let evs = std::mem::take(&mut m.events);
        let mut keys: Vec<(u128, usize)> = evs.iter().map(|e| (e.0, e.1)).collect();
        keys.sort();
        keys.dedup();
        let body: Vec<String> = keys
            .iter()
            .filter_map(|k| {
                // writers whose calls of this op are all suppressed (writes with cenc != null) are not shown
                let l: Vec<String> = evs.iter().filter(|e| (e.0, e.1) == *k).filter_map(|e| e.2.clone()).collect();
                if l.is_empty() {
                    None
                } else {
                    Some(format!("{}.{}:{}", k.0, k.1, l.join(",")))
                }
            })
            .collect();
        let (no, ne) = match self.receiver.as_ref() {
            Some(r) => (r.nb_objects(), r.nb_objects_error()),
            None => (0, 0),
        };
        format!("{} | objs={} errs={}", body.join(";"), no, ne)
    }

    /// every writer that was created must have received its terminal call once the receiver is gone
    fn check_terminal_by_drop(&mut self) {
        let mut m = self.mon.borrow_mut();
        let open: Vec<(u128, usize, PS)> = m.writers.iter().filter(|w| w.st != PS::Done).map(|w| (w.toi, w.idx, w.st)).collect();
        for (toi, idx, st) in open {
            m.fail("C09:no-terminal-by-drop", format!("writer {}.{} is still in protocol state {:?} after the receiver was dropped", toi, idx, st));
        }
        // a dropped receiver cannot call them any more
        for w in m.writers.iter_mut() {
            w.st = PS::Done;
        }
    }

    fn probe(&mut self) -> String {
        let max = self.cfg.object_max_cache_size.unwrap_or(10 * 1024 * 1024);
        let max_pkt = self.max_pkt;
        let s = match self.receiver.as_ref() {
            Some(r) => format!("{:?}", r),
            None => String::new(),
        };
        // the numbers are scraped from the Debug output of private fields: a miss must be LOUD (an observation the model never
        // prints), not a silent pass of the C17 oracle on zeros
        let seg = match (s.find("objects: {"), s.find("objects_completed: ")) {
            (Some(a), Some(b)) if a < b => &s[a..b],
            _ if self.receiver.is_none() => "",
            _ => return "HARNESS-ERROR probe-scrape: `objects: {` .. `objects_completed: ` not found in the Debug output of Receiver".to_string(),
        };
        let (mut cache, mut csize, mut nballoc, mut alloc) = (0usize, 0usize, 0usize, 0usize);
        let mut fails = Vec::new();
        for obj in seg.split("ObjectReceiver {").skip(1) {
            let mut bytes = 0usize;
            for c in obj.split("AlcPktCache {").skip(1) {
                if let Some(i) = c.find(", data: [") {
                    bytes += count_list(&c[i + 9..]);
                }
            }
            let (cs, nb, tot, toi) = match (
                nums_after(obj, "cache_size: ").first().copied(),
                nums_after(obj, "nb_allocated_blocks: ").first().copied(),
                nums_after(obj, "total_allocated_blocks_size: ").last().copied(),
                nums_after(obj, " toi: ").first().copied(),
                obj.contains("AlcPktCache {") == obj.contains(", data: ["),
            ) {
                (Some(cs), Some(nb), Some(tot), Some(toi), true) => (cs, nb, tot, toi),
                _ => return "HARNESS-ERROR probe-scrape: cache_size / nb_allocated_blocks / total_allocated_blocks_size / toi / cache data not found in the Debug output of ObjectReceiver".to_string(),
            };
            // no block in the deque: no `block_size` field at all
            let largest = nums_after(obj, "block_size: ").into_iter().max().unwrap_or(0);
            if bytes > max + max_pkt {
                fails.push(("C17:cache-over-limit".to_string(), format!("object {}: {} bytes in the packet cache, configured object_max_cache_size {} (largest packet {})", toi, bytes, max, max_pkt)));
            }
            if tot > max + 2 * largest {
                fails.push(("C17:blocks-over-limit".to_string(), format!("object {}: {} bytes of allocated blocks, limit {} + 2 blocks of at most {}", toi, tot, max, largest)));
            }
            cache += bytes;
            csize += cs;
            nballoc += nb;
            alloc += tot;
        }
        self.mon.borrow_mut().fails.extend(fails);
        format!("cache={} csize={} nballoc={} alloc={}", cache, csize, nballoc, alloc)
    }

    fn exec(&mut self, op: &str) -> String {
        let t: Vec<&str> = op.split(' ').collect();
        if t.len() < 2 || t[0] != "orecv" {
            return "bad-op".to_string();
        }
        match t[1] {
            "cfg" => {
                let g = |k: &str| kv(&t, k).and_then(|v| v.parse::<usize>().ok());
                match (g("max"), g("once"), g("maxerr"), g("md5")) {
                    (Some(mx), Some(once), Some(me), Some(md5)) => {
                        self.cfg.object_max_cache_size = Some(mx);
                        self.cfg.object_receive_once = once != 0;
                        self.cfg.max_objects_error = me;
                        self.mon.borrow_mut().def_md5 = md5 != 0;
                        "ok".to_string()
                    }
                    _ => "bad-op".to_string(),
                }
            }
            "plan" if t.len() == 8 => {
                let ans = match t[4] {
                    "store" => 0,
                    "already" => 1,
                    "abort" => 2,
                    _ => return "bad-op".to_string(),
                };
                let fail_at = if t[7] == "-" { None } else { t[7].parse().ok() };
                match (t[2].parse::<u128>(), t[3].parse::<usize>(), t[5].parse::<u8>(), t[6].parse::<u8>()) {
                    (Ok(toi), Ok(idx), Ok(md5), Ok(opn)) => {
                        self.mon.borrow_mut().plans.insert((toi, idx), PlanSpec { ans, md5: md5 != 0, open_ok: opn != 0, fail_at });
                        "ok".to_string()
                    }
                    _ => "bad-op".to_string(),
                }
            }
            "ct" | "zmap" if t.len() == 4 => "ok".to_string(),
            "zmap" if t.len() == 5 && t[4] == "bad" => "ok".to_string(),
            "realwriter" if t.len() == 5 => {
                // ORACLE-ONLY op (the model answers `ok`): the datagrams are fed to a FRESH real Receiver whose writer is one of
                // the crate's own builders - `ObjectWriterBufferBuilder::default()`, `::new(true)`, `ObjectWriterFSBuilder::new(dir,
                // true)` - instead of the monitoring writer: what they hold as COMPLETE must be the expected object (seeded changes
                // C03-9 / C03-10: the MD5 decision is taken from the builder's / writer's `enable_md5_check`)
                match (unhex(t[3]), t[4].split('.').map(unhex).collect::<Option<Vec<Vec<u8>>>>()) {
                    (Some(want), Some(raws)) => {
                        let fails = real_writer_scenario(t[2], &want, &raws);
                        self.mon.borrow_mut().fails.extend(fails);
                        "ok".to_string()
                    }
                    _ => "bad-op".to_string(),
                }
            }
            "expect" if t.len() == 5 && t[3] == "n" => match t[2].parse::<u128>() {
                // `expect <toi> n <class>`: this TOI must never be told `complete`
                Ok(toi) if t[4].starts_with("C0") => {
                    self.mon.borrow_mut().never.insert(toi, t[4].to_string());
                    "ok".to_string()
                }
                _ => "bad-op".to_string(),
            },
            "expect" if t.len() == 5 && t[3] == "r" => {
                // `expect <toi> r <e>.<hex old content>`: the TOI was reused, stale packets of the OLD content follow; the expectation
                // (new content) stays, a completed mixture of symbols of both contents is the narrow class C03:toi-reuse-mixed-complete
                let mut it = t[4].splitn(2, '.');
                match (t[2].parse::<u128>(), it.next().and_then(|e| e.parse::<usize>().ok()), it.next().and_then(unhex)) {
                    (Ok(toi), Some(e), Some(old)) if e > 0 => {
                        self.mon.borrow_mut().reuse.insert(toi, (e, old));
                        "ok".to_string()
                    }
                    _ => "bad-op".to_string(),
                }
            }
            "expect" if t.len() == 5 => match (t[2].parse::<u128>(), t[3].chars().next(), unhex(t[4])) {
                (Ok(toi), Some('x'), Some(_)) => {
                    // from here on the packets of this TOI are no longer genuine for the expected content
                    self.mon.borrow_mut().expect.remove(&toi);
                    "ok".to_string()
                }
                (Ok(toi), Some(mode), Some(b)) => {
                    self.mon.borrow_mut().expect.insert(toi, (mode, b));
                    "ok".to_string()
                }
                _ => "bad-op".to_string(),
            },
            "pkt" | "nop" | "fdt" => {
                if self.dead {
                    return "dead".to_string();
                }
                let raw = match kv(&t, "raw").and_then(unhex) {
                    Some(r) => r,
                    None => return "bad-op".to_string(),
                };
                self.max_pkt = self.max_pkt.max(raw.len());
                self.mon.borrow_mut().fdt_seen.clear();
                let rcv: *mut Receiver = self.receiver();
                // SAFETY: the receiver outlives the call; the pointer only crosses the unwind boundary
                let r = guarded(std::panic::AssertUnwindSafe(move || unsafe { (*rcv).push_data(&raw, now()).is_ok() }));
                match r {
                    Err(loc) => {
                        self.dead = true;
                        self.mon.borrow_mut().events.clear();
                        self.mon.borrow_mut().fails.push(("C04:panic".to_string(), format!("Receiver::push_data panics at {}", loc)));
                        // the receiver is in an unknown state: leak it rather than run Drop on it
                        std::mem::forget(self.receiver.take());
                        "PANIC".to_string()
                    }
                    Ok(_) => {
                        let seen = self.mon.borrow().fdt_seen.len();
                        let mut obs = self.observation();
                        if (t[1] == "fdt") != (seen > 0) {
                            obs.push_str(if seen > 0 { " !fdt-completed" } else { " !fdt-not-completed" });
                        }
                        obs
                    }
                }
            }
            "drop" => {
                if self.dead {
                    return "dead".to_string();
                }
                self.receiver();
                let r = self.receiver.take();
                let res = guarded(std::panic::AssertUnwindSafe(move || drop(r)));
                if let Err(loc) = res {
                    self.dead = true;
                    self.mon.borrow_mut().fails.push(("C04:panic".to_string(), format!("Drop of the Receiver panics at {}", loc)));
                    return "PANIC".to_string();
                }
                let obs = self.observation();
                self.check_terminal_by_drop();
                obs
            }
            "cleanup" => {
                // every object has been idle for longer than object_timeout (1 ms): Receiver::cleanup releases them all
                if self.dead {
                    return "dead".to_string();
                }
                std::thread::sleep(Duration::from_millis(4));
                let rcv: *mut Receiver = self.receiver();
                let r = guarded(std::panic::AssertUnwindSafe(move || unsafe { (*rcv).cleanup(now()) }));
                if let Err(loc) = r {
                    self.dead = true;
                    self.mon.borrow_mut().fails.push(("C04:panic".to_string(), format!("Receiver::cleanup panics at {}", loc)));
                    std::mem::forget(self.receiver.take());
                    return "PANIC".to_string();
                }
                let obs = self.observation();
                let left = self.receiver.as_ref().map(|r| r.nb_objects()).unwrap_or(0);
                let mut m = self.mon.borrow_mut();
                if left == 0 {
                    let open: Vec<(u128, usize)> = m.writers.iter().filter(|w| w.st != PS::Done).map(|w| (w.toi, w.idx)).collect();
                    for (toi, idx) in open {
                        m.fail("C09:no-terminal-by-cleanup", format!("writer {}.{} has no terminal call although its timed-out object was released by cleanup()", toi, idx));
                    }
                    for w in m.writers.iter_mut() {
                        w.st = PS::Done;
                    }
                }
                drop(m);
                obs
            }
            "probe" => {
                if self.dead {
                    return "dead".to_string();
                }
                self.probe()
            }
            _ => "bad-op".to_string(),
        }
    }

    fn end_case(&mut self) {
        if self.dead {
            return;
        }
        if let Some(r) = self.receiver.take() {
            let _ = guarded(std::panic::AssertUnwindSafe(move || drop(r)));
            self.mon.borrow_mut().events.clear();
        }
        self.check_terminal_by_drop();
    }

    fn take_fails(&mut self) -> Vec<(String, String)> {
        std::mem::take(&mut self.mon.borrow_mut().fails)
    }
}

enum Cmd {
    Reset,
    Exec(String),
    End,
}

struct Reply {
    obs: String,
    fails: Vec<(String, String)>,
}

/// main-thread handle: forwards ops to the worker, turns a missing answer into `TIMEOUT`
pub struct OrecvEngine {
    tx: Option<mpsc::Sender<Cmd>>,
    rx: Option<mpsc::Receiver<Reply>>,
    hung: bool,
    pub timeout: Duration,
}

impl OrecvEngine {
    pub fn new() -> OrecvEngine {
        // 60 s: an op includes the Debug formatting of multi-MB receiver states (probe) and runs next to 20 other checks; a real hang is
        // caught all the same (and by the core per-op watchdog VERIF_OP_TIMEOUT)
        OrecvEngine { tx: None, rx: None, hung: false, timeout: Duration::from_secs(60) }
    }

    fn spawn(&mut self) {
        let (tx, wrx) = mpsc::channel::<Cmd>();
        let (wtx, rx) = mpsc::channel::<Reply>();
        std::thread::Builder::new()
            .stack_size(64 << 20)
            .spawn(move || {
                let mut inner = Inner::new();
                while let Ok(cmd) = wrx.recv() {
                    let obs = match cmd {
                        Cmd::Reset => {
                            inner.end_case();
                            inner = Inner::new();
                            String::new()
                        }
                        Cmd::Exec(op) => inner.exec(&op),
                        Cmd::End => {
                            inner.end_case();
                            String::new()
                        }
                    };
                    let fails = inner.take_fails();
                    if wtx.send(Reply { obs, fails }).is_err() {
                        break;
                    }
                }
            })
            .unwrap();
        self.tx = Some(tx);
        self.rx = Some(rx);
        self.hung = false;
    }

    fn call(&mut self, cmd: Cmd, o: Option<&mut Oracle>) -> Option<String> {
        if self.tx.is_none() {
            self.spawn();
        }
        if self.tx.as_ref().unwrap().send(cmd).is_err() {
            self.tx = None;
            return None;
        }
        match self.rx.as_ref().unwrap().recv_timeout(self.timeout) {
            Ok(r) => {
                if let Some(o) = o {
                    for (c, d) in r.fails {
                        o.fail(&c, &d);
                    }
                }
                Some(r.obs)
            }
            Err(_) => {
                // the worker is stuck inside the receiver: abandon it (it cannot be killed) and start afresh
                self.tx = None;
                self.rx = None;
                None
            }
        }
    }
}

impl Engine for OrecvEngine {
    fn reset(&mut self) {
        self.hung = false;
        if self.call(Cmd::Reset, None).is_none() {
            self.spawn();
        }
    }

    fn exec(&mut self, op: &str, o: &mut Oracle) -> String {
        if self.hung {
            return if op.starts_with("orecv pkt") || op.starts_with("orecv nop") || op.starts_with("orecv fdt") || op == "orecv drop" || op == "orecv cleanup" || op == "orecv probe" {
                "dead".to_string()
            } else {
                "ok".to_string()
            };
        }
        match self.call(Cmd::Exec(op.to_string()), Some(o)) {
            Some(obs) => obs,
            None => {
                self.hung = true;
                o.fail("C04:hang", &format!("receiver call did not return within {:?}", self.timeout));
                "TIMEOUT".to_string()
            }
        }
    }

    fn end_case(&mut self, o: &mut Oracle) {
        if self.hung {
            return;
        }
        self.call(Cmd::End, Some(o));
    }
}

/// every `e`-byte symbol of `written` (cut at the same offsets as the new content) is the symbol of the NEW content at that offset
/// or an `e`-aligned symbol of the OLD content (a reused TOI: the old partition differs, so old symbols land at other offsets)
fn is_symbol_mix(written: &[u8], old: &[u8], new: &[u8], e: usize) -> bool {
    if written.len() != new.len() {
        return false;
    }
    written.chunks(e).enumerate().all(|(c, chunk)| {
        let off = c * e;
        chunk == &new[off..off + chunk.len()]
            || old.chunks(e).any(|oc| oc.starts_with(chunk) || (!oc.is_empty() && chunk.starts_with(oc)))
    })
}
