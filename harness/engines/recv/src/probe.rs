//! Reads the registries of a `Receiver` that the public API does not expose from its `Debug` output
//! (no hook needed): `fdt_current` ids, `|fdt_receivers|`, `|objects_completed|`, bytes held by the FDT
//! writers, and the FDT instance every live object is attached to.  A field that is not found is an ERROR
//! (`Err(field)`, reported as oracle class `harness:scrape-miss`, which is never registered), not a zero.

/// splits `s` (the inside of a `{..}` / `[..]`) into its top-level comma separated items
fn split_top(s: &str) -> Vec<&str> {
    let b = s.as_bytes();
    let (mut depth, mut in_str, mut esc, mut start) = (0i32, false, false, 0usize);
    let mut out = Vec::new();
    for (i, c) in b.iter().enumerate() {
        if in_str {
            if esc {
                esc = false;
            } else if *c == b'\\' {
                esc = true;
            } else if *c == b'"' {
                in_str = false;
            }
            continue;
        }
        match c {
            b'"' => in_str = true,
            b'{' | b'[' | b'(' => depth += 1,
            b'}' | b']' | b')' => depth -= 1,
            b',' if depth == 0 => {
                out.push(s[start..i].trim());
                start = i + 1;
            }
            _ => {}
        }
    }
    let last = s[start..].trim();
    if !last.is_empty() {
        out.push(last);
    }
    out
}

/// the inside of the outermost bracket pair of `s`
fn inside(s: &str) -> &str {
    let a = s.find(|c| c == '{' || c == '[').map(|i| i + 1).unwrap_or(0);
    let z = s.rfind(|c| c == '}' || c == ']').unwrap_or(s.len());
    if a <= z {
        &s[a..z]
    } else {
        ""
    }
}

/// value of the top-level field `name` of a struct body
fn field<'a>(items: &[&'a str], name: &str) -> Option<&'a str> {
    let pat = format!("{}: ", name);
    items.iter().find(|x| x.starts_with(&pat)).map(|x| &x[pat.len()..])
}

fn opt_u32(v: &str) -> Option<u32> {
    v.strip_prefix("Some(").and_then(|x| x.strip_suffix(')')).and_then(|x| x.trim().parse().ok())
}

/// bytes held by the `FdtWriterInner` of one `FdtReceiver` debug string; `Err` = the Debug output does not
/// have the expected shape (a scrape miss must never read as "0 bytes")
fn fdt_bytes(fr: &str) -> Result<usize, String> {
    match fr.find("FdtWriterInner {") {
        Some(p) => {
            let rest = &fr[p..];
            let items = split_top(inside_first(rest));
            match field(&items, "data") {
                Some(d) => Ok(split_top(inside(d)).len()),
                None => Err("FdtWriterInner.data".to_string()),
            }
        }
        None => Err("FdtWriterInner".to_string()),
    }
}

/// inside of the first balanced `{..}` of `s`
fn inside_first(s: &str) -> &str {
    let a = match s.find('{') {
        Some(a) => a,
        None => return "",
    };
    let b = s.as_bytes();
    let (mut depth, mut in_str, mut esc) = (0i32, false, false);
    for i in a..b.len() {
        let c = b[i];
        if in_str {
            if esc {
                esc = false;
            } else if c == b'\\' {
                esc = true;
            } else if c == b'"' {
                in_str = false;
            }
            continue;
        }
        match c {
            b'"' => in_str = true,
            b'{' | b'[' | b'(' => depth += 1,
            b'}' | b']' | b')' => {
                depth -= 1;
                if depth == 0 {
                    return &s[a + 1..i];
                }
            }
            _ => {}
        }
    }
    ""
}

/// `Err(field)` = SCRAPE MISS: a field this reader relies on is not in the Debug output (a refactoring of the
/// crate renamed / removed it).  The caller turns that into a loud harness error, never into zeros.
pub fn probe(dbg: &str) -> Result<String, String> {
    let top = split_top(inside(dbg));
    let need = |name: &str| field(&top, name).ok_or_else(|| format!("Receiver.{}", name));
    let mut att: Vec<(u128, String)> = Vec::new();
    for e in split_top(inside(need("objects")?)) {
        // `<toi>: ObjectReceiver { .. }`
        let c = e.find(": ").ok_or("objects entry")?;
        let toi: u128 = e[..c].trim().parse().map_err(|_| "objects key".to_string())?;
        let items = split_top(inside(&e[c + 2..]));
        let raw = field(&items, "fdt_instance_id").ok_or("ObjectReceiver.fdt_instance_id")?;
        let id = if raw.trim() == "None" { None } else { Some(opt_u32(raw).ok_or("ObjectReceiver.fdt_instance_id value")?) };
        att.push((toi, format!("{}:{}", toi, id.map(|x| x.to_string()).unwrap_or_else(|| "-".into()))));
    }
    att.sort_by_key(|x| x.0);
    let cp = split_top(inside(need("objects_completed")?)).len();
    let mut fb = 0usize;
    let frs: Vec<&str> = split_top(inside(need("fdt_receivers")?));
    for f in &frs {
        fb += fdt_bytes(f)?;
    }
    let fcs: Vec<&str> = split_top(inside(need("fdt_current")?));
    let mut ids = Vec::new();
    for f in &fcs {
        fb += fdt_bytes(f)?;
        let items = split_top(inside(f));
        ids.push(field(&items, "fdt_id").ok_or("FdtReceiver.fdt_id")?.to_string());
    }
    Ok(format!(
        "fc={}:{} fr={} cp={} fb={} att={}",
        fcs.len(),
        if ids.is_empty() { "-".to_string() } else { ids.join(",") },
        frs.len(),
        cp,
        fb,
        if att.is_empty() { "-".to_string() } else { att.iter().map(|x| x.1.clone()).collect::<Vec<_>>().join(",") }
    ))
}

/// one number of the probe line (`fr`, `cp`, `fb`); `Err` on a scrape miss
pub fn probe_num(dbg: &str, key: &str) -> Result<usize, String> {
    let line = probe(dbg)?;
    let pat = format!("{}=", key);
    line.split(' ').find_map(|x| x.strip_prefix(pat.as_str())).and_then(|x| x.parse().ok()).ok_or_else(|| format!("probe line has no {}", key))
}
