//! Reads the registries of a `Receiver` that the public API does not expose from its `Debug` output
//! (no hook needed): `fdt_current` ids, `|fdt_receivers|`, `|objects_completed|`, bytes held by the FDT
//! writers, and the FDT instance every live object is attached to.

/// splits `s` (the inside of a `{..}` / `[..]`) into its top-level comma separated items
fn split_top(s: &str) -> Vec<&str> {
    let b = s.as_bytes();
    let (mut depth, mut in_str, mut esc, mut start) = (0i32, false, false, 0usize);
    let mut out = Vec::new();
    for (i, c) in b.iter().enumerate() {
        if in_str {
            if esc {
                esc = false;
            } else if *c == b'\\' {
                esc = true;
            } else if *c == b'"' {
                in_str = false;
            }
            continue;
        }
        match c {
            b'"' => in_str = true,
            b'{' | b'[' | b'(' => depth += 1,
            b'}' | b']' | b')' => depth -= 1,
            b',' if depth == 0 => {
                out.push(s[start..i].trim());
                start = i + 1;
            }
            _ => {}
        }
    }
    let last = s[start..].trim();
    if !last.is_empty() {
        out.push(last);
    }
    out
}

/// the inside of the outermost bracket pair of `s`
fn inside(s: &str) -> &str {
    let a = s.find(|c| c == '{' || c == '[').map(|i| i + 1).unwrap_or(0);
    let z = s.rfind(|c| c == '}' || c == ']').unwrap_or(s.len());
    if a <= z {
        &s[a..z]
    } else {
        ""
    }
}

/// value of the top-level field `name` of a struct body
fn field<'a>(items: &[&'a str], name: &str) -> Option<&'a str> {
    let pat = format!("{}: ", name);
    items.iter().find(|x| x.starts_with(&pat)).map(|x| &x[pat.len()..])
}

fn opt_u32(v: &str) -> Option<u32> {
    v.strip_prefix("Some(").and_then(|x| x.strip_suffix(')')).and_then(|x| x.trim().parse().ok())
}

/// bytes held by the `FdtWriterInner` of one `FdtReceiver` debug string
fn fdt_bytes(fr: &str) -> usize {
    match fr.find("FdtWriterInner {") {
        Some(p) => {
            let rest = &fr[p..];
            let items = split_top(inside_first(rest));
            match field(&items, "data") {
                Some(d) => split_top(inside(d)).len(),
                None => 0,
            }
        }
        None => 0,
    }
}

/// inside of the first balanced `{..}` of `s`
fn inside_first(s: &str) -> &str {
    let a = match s.find('{') {
        Some(a) => a,
        None => return "",
    };
    let b = s.as_bytes();
    let (mut depth, mut in_str, mut esc) = (0i32, false, false);
    for i in a..b.len() {
        let c = b[i];
        if in_str {
            if esc {
                esc = false;
            } else if c == b'\\' {
                esc = true;
            } else if c == b'"' {
                in_str = false;
            }
            continue;
        }
        match c {
            b'"' => in_str = true,
            b'{' | b'[' | b'(' => depth += 1,
            b'}' | b']' | b')' => {
                depth -= 1;
                if depth == 0 {
                    return &s[a + 1..i];
                }
            }
            _ => {}
        }
    }
    ""
}

pub fn probe(dbg: &str) -> String {
    let top = split_top(inside(dbg));
    let mut att: Vec<(u128, String)> = Vec::new();
    if let Some(objs) = field(&top, "objects") {
        for e in split_top(inside(objs)) {
            // `<toi>: ObjectReceiver { .. }`
            if let Some(c) = e.find(": ") {
                let toi: u128 = e[..c].trim().parse().unwrap_or(0);
                let items = split_top(inside(&e[c + 2..]));
                let id = field(&items, "fdt_instance_id").and_then(opt_u32);
                att.push((toi, format!("{}:{}", toi, id.map(|x| x.to_string()).unwrap_or_else(|| "-".into()))));
            }
        }
    }
    att.sort_by_key(|x| x.0);
    let cp = field(&top, "objects_completed").map(|m| split_top(inside(m)).len()).unwrap_or(0);
    let mut fb = 0usize;
    let frs: Vec<&str> = field(&top, "fdt_receivers").map(|m| split_top(inside(m))).unwrap_or_default();
    for f in &frs {
        fb += fdt_bytes(f);
    }
    let fcs: Vec<&str> = field(&top, "fdt_current").map(|m| split_top(inside(m))).unwrap_or_default();
    let mut ids = Vec::new();
    for f in &fcs {
        fb += fdt_bytes(f);
        let items = split_top(inside(f));
        ids.push(field(&items, "fdt_id").unwrap_or("?").to_string());
    }
    format!(
        "fc={}:{} fr={} cp={} fb={} att={}",
        fcs.len(),
        if ids.is_empty() { "-".to_string() } else { ids.join(",") },
        frs.len(),
        cp,
        fb,
        if att.is_empty() { "-".to_string() } else { att.iter().map(|x| x.1.clone()).collect::<Vec<_>>().join(",") }
    )
}
