//! Engine `recv`: the session-level receiver (`flute::receiver::Receiver`) - properties C19 (FDT expiry
//! on the sender's clock), C17 (memory bounded by configuration) and C04 (untrusted input).
//!
//! A REAL `Receiver` is driven through its public API (`new`, `push_data`, `cleanup`, `nb_objects`,
//! `nb_objects_error`, `is_expired`) with a recording `ObjectWriterBuilder`.  Datagrams come from real
//! `flute::sender::Sender` sessions (caller-supplied sender time) and, where the sender cannot produce
//! them (foreign TOIs, FDT instances that never complete, rewritten FDT XML), from the packet-builder
//! hook.  Every op line carries both the raw datagram (for the implementation) and its parsed,
//! abstract form (for the Lean model, which does not model the parser).
mod alloc;
mod gen;
mod probe;
mod shadow;

use flute::core::UDPEndpoint;
use flute::receiver::writer::{
    ObjectCacheControl, ObjectMetadata, ObjectWriter, ObjectWriterBuilder, ObjectWriterBuilderResult,
};
use flute::receiver::{Config as RxConfig, Receiver};
use harness_core::{guarded, Engine, Oracle};
use shadow::{parse_info, Shadow};
use std::cell::{Cell, RefCell};
use std::collections::HashMap;
use std::panic::AssertUnwindSafe;
use std::rc::Rc;
use std::time::{Duration, SystemTime};

pub const TSI: u64 = 1;
/// `flute::receiver::fdtreceiver::MAX_FDT_SIZE` (not exported): 16 MiB
const MAX_FDT_SIZE: i64 = 16 * 1024 * 1024;

pub fn st(us: i64) -> SystemTime {
    if us >= 0 {
        SystemTime::UNIX_EPOCH + Duration::from_micros(us as u64)
    } else {
        SystemTime::UNIX_EPOCH - Duration::from_micros((-us) as u64)
    }
}

pub fn us_of(t: SystemTime) -> i128 {
    match t.duration_since(SystemTime::UNIX_EPOCH) {
        Ok(d) => d.as_micros() as i128,
        Err(e) => -(e.duration().as_micros() as i128),
    }
}

fn show_cc(cc: &ObjectCacheControl) -> String {
    match cc {
        ObjectCacheControl::NoCache => "nc".to_string(),
        ObjectCacheControl::MaxStale => "ms".to_string(),
        ObjectCacheControl::ExpiresAt(t) => format!("ea{}", us_of(*t)),
        ObjectCacheControl::ExpiresAtHint(t) => format!("eh{}", us_of(*t)),
    }
}

type Log = Rc<RefCell<Vec<(u128, String)>>>;

/// run `f` with heap accounting switched off (harness bookkeeping inside receiver callbacks)
fn uncounted<T>(f: impl FnOnce() -> T) -> T {
    let was = alloc::pause();
    let r = f();
    alloc::resume(was);
    r
}

struct RecBuilder {
    log: Log,
    cur_fdt: Rc<Cell<u32>>,
    /// MultiReceiver mode: every event carries the TSI the callback was given (`T<tsi>.` prefix)
    tag_tsi: bool,
}
struct RecWriter {
    toi: u128,
    log: Log,
    tag: String,
}

impl RecBuilder {
    fn tag(&self, tsi: &u64) -> String {
        if self.tag_tsi {
            format!("T{}.", tsi)
        } else {
            String::new()
        }
    }
}

impl ObjectWriterBuilder for RecBuilder {
    fn new_object_writer(
        &self,
        _e: &UDPEndpoint,
        tsi: &u64,
        toi: &u128,
        meta: &ObjectMetadata,
        _now: SystemTime,
    ) -> ObjectWriterBuilderResult {
        uncounted(|| {
            let tag = self.tag(tsi);
            self.log.borrow_mut().push((*toi, format!("{}n{}:{}", tag, toi, show_cc(&meta.cache_control))));
            ObjectWriterBuilderResult::StoreObject(Box::new(RecWriter { toi: *toi, log: self.log.clone(), tag }))
        })
    }
    fn update_cache_control(&self, _e: &UDPEndpoint, tsi: &u64, toi: &u128, meta: &ObjectMetadata, _now: SystemTime) {
        uncounted(|| self.log.borrow_mut().push((*toi, format!("{}u{}:{}", self.tag(tsi), toi, show_cc(&meta.cache_control)))))
    }
    fn fdt_received(
        &self,
        _e: &UDPEndpoint,
        tsi: &u64,
        _xml: &str,
        _expires: SystemTime,
        _meta: &ObjectMetadata,
        _d: Duration,
        _now: SystemTime,
        _ext: Option<SystemTime>,
    ) {
        uncounted(|| self.log.borrow_mut().push((0, format!("{}f{}", self.tag(tsi), self.cur_fdt.get()))))
    }
}

impl ObjectWriter for RecWriter {
    fn open(&self, _now: SystemTime) -> flute::error::Result<()> {
        uncounted(|| self.log.borrow_mut().push((self.toi, format!("{}o{}", self.tag, self.toi))));
        Ok(())
    }
    fn write(&self, sbn: u32, data: &[u8], _now: SystemTime) -> flute::error::Result<()> {
        uncounted(|| self.log.borrow_mut().push((self.toi, format!("{}w{}:{}:{}", self.tag, self.toi, sbn, data.len()))));
        Ok(())
    }
    fn complete(&self, _now: SystemTime) {
        uncounted(|| self.log.borrow_mut().push((self.toi, format!("{}c{}", self.tag, self.toi))))
    }
    fn error(&self, _now: SystemTime) {
        uncounted(|| self.log.borrow_mut().push((self.toi, format!("{}e{}", self.tag, self.toi))))
    }
    fn interrupted(&self, _now: SystemTime) {
        uncounted(|| self.log.borrow_mut().push((self.toi, format!("{}i{}", self.tag, self.toi))))
    }
    fn enable_md5_check(&self) -> bool {
        false
    }
}

struct MRx {
    mr: flute::receiver::MultiReceiver,
    log: Log,
    cur_fdt: Rc<Cell<u32>>,
    opened: Rc<Cell<u64>>,
    closed: Rc<Cell<u64>>,
    ep: UDPEndpoint,
}

struct Counting2(Rc<Cell<u64>>, Rc<Cell<u64>>);
impl flute::receiver::MultiReceiverListener for Counting2 {
    fn on_session_open(&self, _e: &flute::receiver::ReceiverEndpoint) {
        self.0.set(self.0.get() + 1);
    }
    fn on_session_closed(&self, _e: &flute::receiver::ReceiverEndpoint) {
        self.1.set(self.1.get() + 1);
    }
}

struct Rx {
    r: Receiver,
    log: Log,
    cur_fdt: Rc<Cell<u32>>,
}

#[derive(Default, Clone)]
struct Hist {
    new: u32,
    complete: u32,
    error: u32,
    interrupted: u32,
    bytes: u64,
}

#[derive(Clone, Copy, Default)]
struct Cfg {
    max_err: usize,
    sess_to: bool,
    obj_to: bool,
    max_cache: usize,
    once: bool,
    check: bool,
    skew: i64,
    sct: bool,
    /// 0 = time-outs of 1 h, 1 = 1 ms, 2 = 500 ms (per-object staleness cases)
    fast: u8,
}

pub struct RecvEngine {
    rx: Option<Rx>,
    /// same datagrams, receiver clock without the skew (C19 `skew does not change the outcome`)
    rx0: Option<Rx>,
    cfg: Cfg,
    dead: bool,
    hist: HashMap<u128, Hist>,
    sh: Shadow,
    max_xml: usize,
    /// allocation-oracle classes already reported in this case (each class once per case)
    heap_reported: std::collections::HashSet<String>,
    /// C17 heap classes already reported in this case (each class once per case)
    heap17_reported: std::collections::HashSet<String>,
    /// payload bytes received so far per key (TOI, or FDT instance)
    rx_bytes: HashMap<u128, i64>,
    /// `mcfg`: a MultiReceiver (compared with tsi's `MultiRecv.step (recvMachine ..)` by the model driver)
    mrx: Option<MRx>,
    /// the `cfg` op of the current case (handed to the child process of `iso`)
    cfg_line: String,
    iso_n: u32,
    cur_encoded: bool,
    /// bytes that the FTIs announced so far in this case explain (first two source blocks of any
    /// announced size, per-symbol tables, pre-allocated block tables): see findings recv-1 / D31
    ann: HashMap<u128, (i64, i64)>,
    /// net heap growth during calls on TOI-0 packets
    grown_toi0: i64,
    cur_key: u128,
    cur_is_toi0: bool,
}

fn make_rx(c: &Cfg, count: bool) -> Rx {
    let log: Log = Rc::new(RefCell::new(Vec::new()));
    let cur_fdt = Rc::new(Cell::new(0u32));
    let builder = Rc::new(RecBuilder { log: log.clone(), cur_fdt: cur_fdt.clone(), tag_tsi: false });
    let to = match c.fast {
        1 => Duration::from_millis(1),
        // per-object staleness cases: the only direction that races with the machine load is "NOT yet timed out"
        // (a few calls between a push and the cleanup, nominally < 1 ms): 500 ms = a margin of > 100x; the
        // "timed out" direction is a sleep LONGER than the time-out, which no load can shorten
        2 => Duration::from_millis(500),
        _ => Duration::from_secs(3600),
    };
    let config = RxConfig {
        max_objects_error: c.max_err,
        session_timeout: if c.sess_to { Some(to) } else { None },
        object_timeout: if c.obj_to { Some(to) } else { None },
        object_max_cache_size: Some(c.max_cache),
        object_receive_once: c.once,
        enable_fdt_expiration_check: c.check,
    };
    let ep = UDPEndpoint::new(None, "224.0.0.1".to_string(), 5000);
    let was = alloc::resume(count);
    let r = Receiver::new(&ep, TSI, builder, Some(config));
    alloc::resume(was);
    Rx { r, log, cur_fdt }
}

thread_local! {
    static LIVE_BEFORE: Cell<i64> = Cell::new(0);
}

fn drain(log: &Log) -> Vec<(u128, String)> {
    let mut v: Vec<(u128, String)> = log.borrow_mut().drain(..).collect();
    v.sort_by_key(|x| x.0); // stable
    v
}

fn panic_class(loc: &str) -> String {
    // `file:line` of the panic site (path stripped to the basename: registry paths differ between machines)
    let mut it = loc.split(':');
    let file = it.next().unwrap_or("?");
    let line = it.next().unwrap_or("?");
    let base = file.rsplit('/').next().unwrap_or(file);
    format!("C04:panic@{}:{}", base, line)
}

impl RecvEngine {
    pub fn new() -> RecvEngine {
        RecvEngine { rx: None, rx0: None, cfg: Cfg::default(), dead: false, hist: HashMap::new(), sh: Shadow::default(), max_xml: 0, heap_reported: Default::default(), heap17_reported: Default::default(), rx_bytes: HashMap::new(), mrx: None, cfg_line: String::new(), iso_n: 0, cur_encoded: false, ann: HashMap::new(), grown_toi0: 0, cur_key: 0, cur_is_toi0: false }
    }

    /// bytes that an announcement (EXT_FTI, or a File entry of an FDT) explains for `key`
    fn announce(&mut self, key: u128, e: u64, b: u64, l: u64) {
        let (e, b, l) = (e.max(1) as i128, b.max(1) as i128, l as i128);
        let t = (l + e - 1) / e;
        let n = (t + b - 1) / b;
        let blk = l.min(b * e);
        let blocks = (2 * (2 * blk + 48 * t.min(b))).min(i64::MAX as i128 / 8) as i64;
        let table = (200 * n.min(4097)) as i64;
        let ent = self.ann.entry(key).or_insert((0, 0));
        ent.0 = ent.0.max(blocks);
        ent.1 = ent.1.max(table);
    }

    fn drop_rx(&mut self) {
        let a = self.rx.take();
        let b = self.rx0.take();
        let c = self.mrx.take();
        let _ = guarded(AssertUnwindSafe(move || {
            drop(a);
            drop(b);
            drop(c);
        }));
    }

    /// the answer line of a MultiReceiver call: result, the two counters summed over the sessions, sessions
    /// opened / closed so far (listener), the writer callbacks of the call tagged with their TSI
    fn mobserve(&mut self, r: Result<bool, String>, o: &mut Oracle, what: &str) -> String {
        let m = self.mrx.as_mut().unwrap();
        let evs = drain(&m.log);
        let res = match r {
            Ok(true) => "OK",
            Ok(false) => "ERR",
            Err(loc) => {
                self.dead = true;
                o.fail(&panic_class(&loc), &format!("MultiReceiver::{} panics at {}", what, loc));
                return "PANIC".to_string();
            }
        };
        let mut s = format!("{} {} {} s{}/{}", res, m.mr.nb_objects(), m.mr.nb_objects_error(), m.opened.get(), m.closed.get());
        for (_, e) in &evs {
            s.push(' ');
            s.push_str(e);
        }
        s
    }

    /// one receiver call on `rx`, returns (OK|ERR|PANIC loc, events)
    fn call(rx: &mut Rx, count: bool, f: impl FnOnce(&mut Receiver) -> bool) -> (Result<bool, String>, Vec<(u128, String)>, Duration) {
        let t0 = std::time::Instant::now();
        if count {
            LIVE_BEFORE.with(|c| c.set(alloc::live()));
            alloc::mark();
        }
        alloc::enter();
        let was = alloc::resume(count);
        let r = guarded(AssertUnwindSafe(|| f(&mut rx.r)));
        alloc::resume(was);
        alloc::leave();
        let dt = t0.elapsed();
        (r, drain(&rx.log), dt)
    }

    fn observe(&mut self, r: Result<bool, String>, evs: Vec<(u128, String)>, dt: Duration, now: i64, o: &mut Oracle, what: &str) -> String {
        // ---- C04: no panic, bounded time
        let res = match r {
            Ok(true) => "OK",
            Ok(false) => "ERR",
            Err(loc) => {
                self.dead = true;
                o.fail(&panic_class(&loc), &format!("{} panics at {}", what, loc));
                return "PANIC".to_string();
            }
        };
        let rx = self.rx.as_ref().unwrap();
        let (nobj, nerr) = (rx.r.nb_objects(), rx.r.nb_objects_error());
        // ---- C17: the list of failed objects never exceeds its configured length
        if nerr > self.cfg.max_err {
            o.fail("C17:errors-over-limit", &format!("nb_objects_error {} > max_objects_error {}", nerr, self.cfg.max_err));
        }
        // ---- C04: no single call allocates beyond the configured limits.  Classes by mechanism:
        //   :announced-block  the excess is explained by what the FTI of this TOI announced (first two
        //                     source blocks of any size + per-symbol tables: finding recv-1 / D31)
        //   :unexplained      anything else
        let live = alloc::live();
        let before = LIVE_BEFORE.with(|c| c.get());
        let grown = live - before;
        // what the call held at its worst moment (a transient copy counts: it has to fit in memory)
        let peak = (alloc::peak() - before).max(grown);
        if self.cur_is_toi0 {
            self.grown_toi0 += grown.max(0);
        }
        let (ann_blocks, ann_table) = self.ann.get(&self.cur_key).copied().unwrap_or((0, 0));
        let got = self.rx_bytes.get(&self.cur_key).copied().unwrap_or(0);
        let call_bound = 2 * 1024 * 1024 + self.cfg.max_cache as i64;
        if peak > call_bound {
            // Every class has an EXPLICIT upper bound; beyond it the excess is `:unexplained` (a violation).
            //   :fdt-document    TOI 0, not content-encoded: <= 64 x the payload bytes RECEIVED for this instance
            //   :fdt-inflated    TOI 0 with EXT_CENC: <= 8 x 1032 x the payload bytes received for this instance
            //                    (1032:1 is the best deflate ratio; 8 copies: inflate buffer growth, UTF-8 copy,
            //                    parsed FdtInstance, clone)
            //   :announced-block <= 4 x (first two source blocks + per-symbol tables + block table that the
            //                    EXT_FTI of this TOI announces), the announcement itself being limited by the
            //                    codes' K maxima (No-Code 65536 since ee3ccfa) times the 16-bit symbol length
            // since 2037586 the document stops at MAX_FDT_SIZE.  Measured with the cap: a refused 20 MB inflate peaks at
            // 20.2 MB and holds nothing afterwards; a plain document is copied / parsed a few times.  Bounds: inflated
            // peak <= 2 x MAX_FDT_SIZE and <= 2 MiB + MAX_FDT_SIZE still held; plain peak <= 4 x MAX_FDT_SIZE.
            // (the pre-fix witness - 21 kB -> 105 MB peak, 63 MB held - is `:unexplained` under these)
            let cls = if self.cur_is_toi0 && !self.cur_encoded && peak <= call_bound + 4 * MAX_FDT_SIZE && peak <= call_bound + 64 * got.min(self.sh.max_len() as i64) {
                "C04:alloc-per-call:fdt-document"
            } else if self.cur_is_toi0 && self.cur_encoded && peak <= call_bound + 2 * MAX_FDT_SIZE && grown <= call_bound + MAX_FDT_SIZE && peak <= call_bound + 8 * 1032 * got {
                "C04:alloc-per-call:fdt-inflated"
            } else if peak <= call_bound + 4 * (ann_blocks + ann_table) {
                "C04:alloc-per-call:announced-block"
            } else {
                "C04:alloc-per-call:unexplained"
            };
            if self.heap_reported.insert(cls.to_string()) {
                o.fail(
                    cls,
                    &format!("{} held up to {} B during one call, {} B afterwards (bound {} B = 2 MiB + object_max_cache_size {}; payload bytes received for this TOI / FDT instance: {}; announced by its EXT_FTI: blocks+symbol tables {} B, block table {} B)", what, peak, grown, call_bound, self.cfg.max_cache, got, ann_blocks, ann_table),
                );
            }
        }
        // wall clock, judged on a possibly heavily loaded machine: 20 s is > 20x the slowest legitimate call seen
        // (0.9 s, a 60 MB inflate); a real hang is the watchdog's business
        if dt > Duration::from_secs(20) {
            // explicit bound of the explained class: 2 s + 1 s per 64 MiB announced
            let ann = ann_blocks + ann_table;
            let cls = if ann >= 64 * 1024 * 1024 && dt <= Duration::from_secs(20 + (ann / (64 * 1024 * 1024)) as u64) { "C04:slow-call:announced-block" } else { "C04:slow-call:unexplained" };
            if self.heap_reported.insert(cls.to_string()) {
                o.fail(cls, &format!("{} took {:?} (announced by the FTI of this TOI: {} B)", what, dt, ann));
            }
        }
        // ---- C17: live heap against the configured limits (generous slack; measured, not modelled)
        let unfinished = self.sh.unfinished() as i64;
        let bound = (nobj as i64) * (self.cfg.max_cache as i64 + 16 * 1024)
            + unfinished * (1024 * 1024 + 16 * 1024)
            + 1024 * 1024
            + 64 * self.max_xml as i64;
        if live > bound {
            let sum_blocks: i64 = self.ann.values().map(|x| x.0).sum();
            let sum_table: i64 = self.ann.values().map(|x| x.1).sum();
            let excess = live - bound;
            let cls = if excess <= 4 * sum_table && sum_table >= sum_blocks {
                "C17:heap:block-table-prealloc"
            } else if excess <= 4 * (sum_blocks + sum_table) {
                "C17:heap-first-two-blocks"
            } else if excess <= 2 * self.grown_toi0 && excess <= (10 + unfinished) * (MAX_FDT_SIZE + MAX_FDT_SIZE / 4) {
                // since 2037586 an FDT document holds at most MAX_FDT_SIZE bytes: 10 current instances + the
                // unfinished ones, document + parsed form
                "C17:heap:fdt-bytes"
            } else {
                "C17:heap:unexplained"
            };
            if self.heap17_reported.insert(cls.to_string()) {
                o.fail(
                    cls,
                    &format!("live heap {} B > bound {} B (objects {}, unfinished FDT instances {}, cache limit {}; announced blocks {} B, block tables {} B, grown in TOI-0 calls {} B)", live, bound, nobj, unfinished, self.cfg.max_cache, sum_blocks, sum_table, self.grown_toi0),
                );
            }
        }
        // ---- history + C19 oracle on writer creation
        let mut s = format!("{} {} {}", res, nobj, nerr);
        for (toi, e) in &evs {
            s.push(' ');
            s.push_str(e);
            if *toi == 0 {
                continue;
            }
            let h = self.hist.entry(*toi).or_default();
            match e.as_bytes()[0] {
                b'n' => {
                    h.new += 1;
                    if self.cfg.check {
                        if let Err((cls, why)) = self.sh.delivery_allowed(*toi, now as i128) {
                            o.fail(cls, &format!("writer created for TOI {} at receiver time {}: {}", toi, now, why));
                        }
                    }
                }
                // the object is over: what its FTI announced no longer explains any heap
                b'c' => {
                    h.complete += 1;
                    self.ann.remove(toi);
                }
                b'e' => {
                    h.error += 1;
                    self.ann.remove(toi);
                }
                b'i' => {
                    h.interrupted += 1;
                    self.ann.remove(toi);
                }
                b'w' => {
                    let len: u64 = e.rsplit(':').next().and_then(|x| x.parse().ok()).unwrap_or(0);
                    h.bytes += len;
                }
                _ => {}
            }
        }
        s
    }

    fn push(&mut self, bytes: &[u8], now: i64, o: &mut Oracle, opaque: bool) -> String {
        if self.dead || self.rx.is_none() {
            return if opaque { "fz".into() } else { "dead".into() };
        }
        // oracle shadow (independent of the model): FDT instances seen so far
        let info = guarded(|| parse_info(bytes));
        let mut fdt_id = 0;
        let mut done: Option<u32> = None;
        self.cur_key = 0;
        self.cur_is_toi0 = false;
        self.cur_encoded = false;
        if let Ok(Ok(i)) = &info {
            if i.tsi == TSI {
                self.cur_is_toi0 = i.toi == 0;
                self.cur_encoded = i.encoded;
                self.cur_key = if i.toi == 0 { u128::MAX - i.fdt_id.unwrap_or(0) as u128 } else { i.toi };
                *self.rx_bytes.entry(self.cur_key).or_insert(0) += i.payload.len() as i64;
                if let Some((_, e, b, l)) = i.fti {
                    self.announce(self.cur_key, e as u64, b as u64, l);
                }
            }
        }
        if let Ok(Ok(i)) = &info {
            if i.tsi == TSI && i.toi == 0 {
                if let Some(id) = i.fdt_id {
                    fdt_id = id;
                    if self.sh.feed(i, now as i128) {
                        done = Some(id);
                        // what the File entries of the completed instance announce (OTI through the FDT)
                        let files: Vec<(u128, u64, u64, u64)> = self
                            .sh
                            .inst
                            .get(&id)
                            .and_then(|x| x.answer.as_ref())
                            .and_then(|a| a.files.as_ref())
                            .map(|fs| {
                                fs.iter()
                                    .filter_map(|f| match (f.toi.trim().parse::<u128>(), f.oti) {
                                        (Ok(toi), Some((_, esl, msbl))) => Some((toi, esl as u64, msbl as u64, f.transfer_length as u64)),
                                        _ => None,
                                    })
                                    .collect()
                            })
                            .unwrap_or_default();
                        for (toi, e, b, l) in files {
                            self.announce(toi, e, b, l);
                        }
                    }
                    self.max_xml = self.max_xml.max(self.sh.max_len());
                }
            }
        }
        let rx = self.rx.as_mut().unwrap();
        rx.cur_fdt.set(fdt_id);
        let (r, evs, dt) = Self::call(rx, true, |r| r.push_data(bytes, st(now)).is_ok());
        let obs = self.observe(r, evs, dt, now, o, "push_data");
        if let Some(id) = done {
            self.sh.completed_call(id, &obs);
            // the FDT object of that instance is over as well
            self.ann.remove(&(u128::MAX - id as u128));
        }
        // ---- C19: a receiver clock skew of any size does not change the outcome (SCT present)
        if let Some(rx0) = self.rx0.as_mut() {
            rx0.cur_fdt.set(fdt_id);
            let skew = self.cfg.skew;
            let (r0, evs0, _) = Self::call(rx0, false, |r| r.push_data(bytes, st(now - skew)).is_ok());
            let obs0 = match r0 {
                Ok(ok) => {
                    let mut s = format!("{} {} {}", if ok { "OK" } else { "ERR" }, rx0.r.nb_objects(), rx0.r.nb_objects_error());
                    for (_, e) in &evs0 {
                        s.push(' ');
                        s.push_str(e);
                    }
                    s
                }
                Err(_) => "PANIC".to_string(),
            };
            if obs0 != obs {
                o.fail("C19:skew-changes-outcome", &format!("skew {} us: `{}` but without skew `{}`", self.cfg.skew, obs, obs0));
            }
        }
        if opaque {
            "fz".into()
        } else {
            obs
        }
    }
}

impl Engine for RecvEngine {
    fn reset(&mut self) {
        self.drop_rx();
        self.dead = false;
        self.hist.clear();
        self.sh = Shadow::default();
        self.max_xml = 0;
        self.heap_reported.clear();
        self.heap17_reported.clear();
        self.rx_bytes.clear();
        self.cur_encoded = false;
        self.ann.clear();
        self.grown_toi0 = 0;
        self.cur_key = 0;
        self.cur_is_toi0 = false;
        self.cfg = Cfg::default();
    }

    fn exec(&mut self, op: &str, o: &mut Oracle) -> String {
        let t: Vec<&str> = op.split(' ').collect();
        if t.len() < 2 {
            return "bad-op".into();
        }
        let b = |s: &str| s == "1";
        match t[1] {
            "cfg" if t.len() >= 11 => {
                self.reset();
                let c = Cfg {
                    max_err: t[2].parse().unwrap_or(0),
                    sess_to: b(t[3]),
                    obj_to: b(t[4]),
                    max_cache: t[5].parse().unwrap_or(0),
                    once: b(t[6]),
                    check: b(t[7]),
                    skew: t[8].parse().unwrap_or(0),
                    sct: b(t[9]),
                    fast: t[10].parse().unwrap_or(0),
                };
                self.cfg = c;
                self.cfg_line = op.to_string();
                self.sh = Shadow { once: c.once, obj_to: c.obj_to, ..Default::default() };
                alloc::reset();
                self.rx = Some(make_rx(&c, true));
                if c.skew != 0 && c.sct {
                    self.rx0 = Some(make_rx(&c, false));
                }
                "ok".into()
            }
            "rej" | "tsi" | "pkt" | "fz" if t.len() >= 4 => {
                let now: i64 = match t[2].parse() {
                    Ok(n) => n,
                    Err(_) => return "bad-op".into(),
                };
                let bytes = match unhex(t[3]) {
                    Some(b) => b,
                    None => return "bad-op".into(),
                };
                // an opaque datagram whose EXT_FTI announces more than 1 GiB of symbol table / first block goes
                // to a fresh receiver in a child process instead (see `iso`): on a tree without the K limits of
                // BlockDecoder::init it would take the engine down (allocator fuse, or abort)
                if t[1] == "fz" && !self.dead && self.rx.is_some() && std::env::var("RECV_CHILD").is_err() {
                    if let Ok(Ok(i)) = guarded(|| parse_info(&bytes)) {
                        if let Some((_, e, b, l)) = i.fti {
                            let (e, b, l) = (e.max(1) as u128, b.max(1) as u128, l as u128);
                            let k = ((l + e - 1) / e).min(b);
                            if k * 48 + l.min(k * e) > 1 << 30 {
                                let line = format!("recv iso {} {}", now, t[3]);
                                return self.exec(&line, o);
                            }
                        }
                    }
                }
                let before = if t[1] == "rej" { self.rx.as_ref().map(|r| (r.r.nb_objects(), r.r.nb_objects_error())) } else { None };
                let obs = self.push(&bytes, now, o, t[1] == "fz");
                // ---- C04: a rejected packet leaves the receiver as it was
                if let (Some(bf), Some(rx)) = (before, self.rx.as_ref()) {
                    if !self.dead && bf != (rx.r.nb_objects(), rx.r.nb_objects_error()) {
                        o.fail("C04:reject-changes-state", &format!("rejected datagram changed (nb_objects, nb_objects_error) from {:?}", bf));
                    }
                }
                obs
            }
            "iso" if t.len() >= 4 => {
                // The datagrams (comma separated) go to a FRESH receiver with the configuration of this case
                // in a CHILD PROCESS: an allocation failure aborts, an over-sized request trips the
                // allocator fuse (exit 103), a hang is killed - none of which the engine itself survives.
                // The child is this binary in replay mode, so every oracle of `push_data` applies.
                if std::env::var("RECV_CHILD").is_ok() {
                    // never from a child (a child that spawned children would never end)
                    return "fz".into();
                }
                self.iso_n += 1;
                let dir = std::env::temp_dir().join(format!("recv-iso-{}-{}", std::process::id(), self.iso_n));
                let _ = std::fs::create_dir_all(&dir);
                let ops = dir.join("iso.ops");
                let now: i64 = t[2].parse().unwrap_or(0);
                let mut text = format!("case iso\n{}\n", self.cfg_line);
                for (i, h) in t[3].split(',').enumerate() {
                    text.push_str(&format!("recv fz {} {}\n", now + i as i64, h));
                }
                text.push_str(&format!("recv fzc {}\n", now + 1_000_000));
                let _ = std::fs::write(&ops, text);
                let exe = std::env::current_exe().unwrap();
                let child = std::process::Command::new(exe)
                    .arg("exec")
                    .arg(&ops)
                    .arg(&dir)
                    .env("VERIF_OP_TIMEOUT", "60")
                    .env("RECV_CHILD", "1")
                    .stdout(std::process::Stdio::null())
                    .stderr(std::process::Stdio::piped())
                    .spawn();
                let verdict = match child {
                    Err(e) => format!("spawn failed: {}", e),
                    Ok(mut ch) => {
                        let t0 = std::time::Instant::now();
                        let status = loop {
                            match ch.try_wait() {
                                Ok(Some(st)) => break Some(st),
                                Ok(None) if t0.elapsed() > Duration::from_secs(90) => {
                                    let _ = ch.kill();
                                    let _ = ch.wait();
                                    break None;
                                }
                                Ok(None) => std::thread::sleep(Duration::from_millis(5)),
                                Err(_) => break None,
                            }
                        };
                        let mut err = String::new();
                        if let Some(mut e) = ch.stderr.take() {
                            use std::io::Read;
                            let _ = e.read_to_string(&mut err);
                        }
                        let err = err.replace('\n', " ");
                        if let Ok(txt) = std::fs::read_to_string(dir.join("recv.oracle")) {
                            for l in txt.lines() {
                                let f: Vec<&str> = l.split('\t').collect();
                                if f.len() >= 4 && f[0] == "FAIL" {
                                    o.fail(f[1], &format!("[child process] {}", f[3]));
                                }
                            }
                        }
                        match status.map(|s| (s.code(), s)) {
                            Some((Some(0), _)) => "ok".to_string(),
                            Some((Some(103), _)) => {
                                o.fail("C04:alloc-per-call:unexplained", &format!("allocator fuse: {}", err));
                                "fuse".to_string()
                            }
                            Some((Some(3), _)) | None => {
                                o.fail("C04:hang", &format!("child did not finish: {}", err));
                                "hang".to_string()
                            }
                            Some((code, st)) => {
                                o.fail("C04:process-abort", &format!("child ended with {:?} ({}): {}", code, st, err));
                                "abort".to_string()
                            }
                        }
                    }
                };
                let _ = std::fs::remove_dir_all(&dir);
                if std::env::var("RECV_DUMP").is_ok() {
                    eprintln!("iso: {}", verdict);
                }
                "fz".into()
            }
            "mr" if t.len() >= 3 => {
                // C17 last clause at the MultiReceiver: idle sessions (session time-out 1 ms, NO object
                // time-out, one undecodable object each) are released by cleanup.  Oracle only.
                let n: u64 = t[2].parse().unwrap_or(1);
                let r = guarded(move || idle_sessions(n));
                match r {
                    Ok(Ok(())) => {}
                    Ok(Err(why)) => o.fail("C17:idle-session-not-released", &why),
                    Err(loc) => o.fail(&panic_class(&loc), &format!("MultiReceiver panics at {}", loc)),
                }
                "ok".into()
            }
            "mcfg" if t.len() >= 6 => {
                // recv mcfg <max_objects_error> <object_max_cache_size> <receive_once> <expiry_check>
                // a MultiReceiver without TSI filtering and without any time-out (nothing depends on real time)
                self.reset();
                let log: Log = Rc::new(RefCell::new(Vec::new()));
                let cur_fdt = Rc::new(Cell::new(0u32));
                let builder = Rc::new(RecBuilder { log: log.clone(), cur_fdt: cur_fdt.clone(), tag_tsi: true });
                let config = RxConfig {
                    max_objects_error: t[2].parse().unwrap_or(0),
                    session_timeout: None,
                    object_timeout: None,
                    object_max_cache_size: Some(t[3].parse().unwrap_or(0)),
                    object_receive_once: b(t[4]),
                    enable_fdt_expiration_check: b(t[5]),
                };
                let mut mr = flute::receiver::MultiReceiver::new(builder, Some(config), false);
                let (opened, closed) = (Rc::new(Cell::new(0u64)), Rc::new(Cell::new(0u64)));
                mr.add_listener(Counting2(opened.clone(), closed.clone()));
                let ep = UDPEndpoint::new(None, "224.0.0.1".to_string(), 5000);
                self.mrx = Some(MRx { mr, log, cur_fdt, opened, closed, ep });
                "ok".into()
            }
            "mpkt" if t.len() >= 4 => {
                // recv mpkt <now> <hex> <ans..>   (the answer of the XML parser is for the model only)
                if self.dead || self.mrx.is_none() {
                    return "dead".into();
                }
                let now: i64 = t[2].parse().unwrap_or(0);
                let bytes = match unhex(t[3]) {
                    Some(b) => b,
                    None => return "bad-op".into(),
                };
                let fdt_id = match guarded(|| parse_info(&bytes)) {
                    Ok(Ok(i)) => i.fdt_id.unwrap_or(0),
                    _ => 0,
                };
                let m = self.mrx.as_mut().unwrap();
                m.cur_fdt.set(fdt_id);
                let ep = m.ep.clone();
                let r = guarded(AssertUnwindSafe(|| m.mr.push(&ep, &bytes, st(now)).is_ok()));
                self.mobserve(r, o, "push")
            }
            "mcleanup" if t.len() >= 3 => {
                if self.dead || self.mrx.is_none() {
                    return "dead".into();
                }
                let now: i64 = t[2].parse().unwrap_or(0);
                let m = self.mrx.as_mut().unwrap();
                let r = guarded(AssertUnwindSafe(|| {
                    m.mr.cleanup(st(now));
                    true
                }));
                self.mobserve(r, o, "cleanup")
            }
            "mr2" if t.len() >= 3 => {
                // C17 at the MultiReceiver: FDT-ONLY traffic (no object in flight): unfinished FDT instances are
                // released by cleanup once the object time-out has elapsed.  Oracle only.
                let n: u32 = t[2].parse().unwrap_or(1);
                let r = guarded(move || fdt_only_session(n));
                match r {
                    Ok(Ok(())) => {}
                    Ok(Err(why)) => o.fail("C17:multireceiver-fdt-not-released", &why),
                    Err(loc) => o.fail(&panic_class(&loc), &format!("MultiReceiver panics at {}", loc)),
                }
                "ok".into()
            }
            "sleep" if t.len() >= 3 => {
                std::thread::sleep(Duration::from_millis(t[2].parse().unwrap_or(0)));
                "ok".into()
            }
            "probe" => {
                if self.dead || self.rx.is_none() {
                    return "dead".into();
                }
                let d = format!("{:?}", self.rx.as_ref().unwrap().r);
                if std::env::var("RECV_DUMP").is_ok() {
                    eprintln!("{}", d);
                }
                match probe::probe(&d) {
                    Ok(line) => line,
                    Err(field) => {
                        o.fail("harness:scrape-miss", &format!("the Debug output of Receiver has no `{}`: the probe cannot be read", field));
                        format!("scrape-miss {}", field)
                    }
                }
            }
            "fzc" if t.len() >= 3 => {
                if self.dead || self.rx.is_none() {
                    return "fz".into();
                }
                let now: i64 = t[2].parse().unwrap_or(0);
                let rx = self.rx.as_mut().unwrap();
                let (r, evs, dt) = Self::call(rx, true, |r| {
                    r.cleanup(st(now));
                    true
                });
                let _ = self.observe(r, evs, dt, now, o, "cleanup");
                "fz".into()
            }
            "cleanup" if t.len() >= 4 => {
                if self.dead || self.rx.is_none() {
                    return "dead".into();
                }
                let now: i64 = t[2].parse().unwrap_or(0);
                // `1`: every time-out has elapsed (1 ms time-outs, sleep here); `T../F..`: the generator slept
                // between groups of pushes itself (500 ms time-outs); `0`: nothing elapsed
                let stale = t[3] == "1";
                if stale {
                    std::thread::sleep(Duration::from_millis(3));
                }
                self.sh.cleanup(t[3]);
                if stale && self.cfg.obj_to {
                    // every object and every unfinished instance has timed out: no announcement explains heap any more
                    self.ann.clear();
                }
                let rx = self.rx.as_mut().unwrap();
                let (r, evs, dt) = Self::call(rx, true, |r| {
                    r.cleanup(st(now));
                    true
                });
                let obs = self.observe(r, evs, dt, now, o, "cleanup");
                if let Some(rx0) = self.rx0.as_mut() {
                    let skew = self.cfg.skew;
                    let _ = Self::call(rx0, false, |r| {
                        r.cleanup(st(now - skew));
                        true
                    });
                }
                if stale && !self.dead && self.cfg.obj_to {
                    let rx = self.rx.as_ref().unwrap();
                    // ---- C17: ... no FDT instance is still under reception (every one of them is older than
                    //      the object time-out; complete ones have left `fdt_receivers` when they completed)
                    let fr = match probe::probe_num(&format!("{:?}", rx.r), "fr") {
                        Ok(n) => n,
                        Err(field) => {
                            o.fail("harness:scrape-miss", &format!("the Debug output of Receiver has no `{}`", field));
                            0
                        }
                    };
                    if fr != 0 {
                        o.fail("C17:fdt-instance-kept-after-timeout", &format!("{} FDT instances still registered in fdt_receivers after a cleanup with the object time-out elapsed", fr));
                    }
                    // ---- C17: after the object time-out a cleanup releases everything of stalled objects ...
                    if rx.r.nb_objects() != 0 {
                        o.fail("C17:cleanup-keeps-objects", &format!("{} objects left after the object time-out elapsed", rx.r.nb_objects()));
                    }
                    // ---- ... and of unfinished FDT instances
                    let live = alloc::live();
                    let slack = 1024 * 1024 + 64 * self.max_xml as i64;
                    if live > slack {
                        let unfinished = self.sh.unfinished();
                        if unfinished > 0 {
                            o.fail(
                                "C17:unfinished-fdt-not-released",
                                &format!("{} B still held after cleanup with all time-outs elapsed; {} FDT instances never completed", live, unfinished),
                            );
                        } else {
                            o.fail("C17:cleanup-leaves-heap", &format!("{} B still held after cleanup with all time-outs elapsed", live));
                        }
                    }
                }
                obs
            }
            "isexp" if t.len() >= 3 => {
                if self.dead || self.rx.is_none() {
                    return "dead".into();
                }
                let el = b(t[2]);
                if el {
                    std::thread::sleep(Duration::from_millis(3));
                }
                let e = self.rx.as_ref().unwrap().r.is_expired();
                // ---- C17: an idle session is reported expired after the session time-out
                if el && self.cfg.sess_to && !e {
                    o.fail("C17:session-not-expired", "is_expired() false after the session time-out elapsed");
                }
                format!("exp {}", if e { 1 } else { 0 })
            }
            "expect" if t.len() >= 4 => {
                if self.dead {
                    return "ok".into();
                }
                let toi: u128 = t[2].parse().unwrap_or(0);
                let h = self.hist.get(&toi).cloned().unwrap_or_default();
                let cls = t.get(5).copied().unwrap_or("C19");
                // `Cxx` -> classes `Cxx:not-delivered` ...; `Cxx:token` -> that exact class
                let full = |suffix: &str| if cls.contains(':') { cls.to_string() } else { format!("{}:{}", cls, suffix) };
                match t[3] {
                    "c" => {
                        let len: u64 = t.get(4).and_then(|x| x.parse().ok()).unwrap_or(0);
                        if h.complete == 0 {
                            o.fail(&full("not-delivered"), &format!("TOI {} expected complete, history new={} complete={} error={} interrupted={}", toi, h.new, h.complete, h.error, h.interrupted));
                        } else if h.bytes != len * h.complete as u64 && h.error == 0 && h.interrupted == 0 {
                            o.fail(&full("wrong-length"), &format!("TOI {} delivered {} bytes, expected {}", toi, h.bytes, len));
                        }
                    }
                    "b" => {
                        // bytes held by the FDT writers (fdt_receivers + fdt_current) at most this many
                        let want: usize = t.get(4).and_then(|x| x.parse().ok()).unwrap_or(0);
                        if let Some(rx) = self.rx.as_ref() {
                            let fb = match probe::probe_num(&format!("{:?}", rx.r), "fb") {
                                Ok(n) => n,
                                Err(field) => {
                                    o.fail("harness:scrape-miss", &format!("the Debug output of Receiver has no `{}`", field));
                                    0
                                }
                            };
                            if fb > want {
                                o.fail(&full("fdt-bytes"), &format!("{} B held by FDT writers, expected at most {}", fb, want));
                            }
                        }
                    }
                    "n" => {
                        // the receiver holds exactly this many objects now (which time-out applies to what)
                        let want: usize = t.get(4).and_then(|x| x.parse().ok()).unwrap_or(0);
                        let have = self.rx.as_ref().map(|r| r.r.nb_objects()).unwrap_or(0);
                        if have != want {
                            o.fail(&full("object-count"), &format!("nb_objects() = {}, expected {}", have, want));
                        }
                    }
                    "s" => {
                        if h.new + h.complete + h.error + h.interrupted != 0 {
                            o.fail(&full("expired-not-silent"), &format!("TOI {} announced only by expired FDT instances: new={} complete={} error={} interrupted={}", toi, h.new, h.complete, h.error, h.interrupted));
                        }
                    }
                    _ => return "bad-op".into(),
                }
                "ok".into()
            }
            _ => "bad-op".into(),
        }
    }

    fn end_case(&mut self, _o: &mut Oracle) {
        self.drop_rx();
    }
}

struct Closed(Rc<Cell<u64>>);
impl flute::receiver::MultiReceiverListener for Closed {
    fn on_session_open(&self, _e: &flute::receiver::ReceiverEndpoint) {}
    fn on_session_closed(&self, _e: &flute::receiver::ReceiverEndpoint) {
        self.0.set(self.0.get() + 1);
    }
}

fn fdt_only_session(n: u32) -> Result<(), String> {
    let log: Log = Rc::new(RefCell::new(Vec::new()));
    let builder = Rc::new(RecBuilder { log, cur_fdt: Rc::new(Cell::new(0)), tag_tsi: false });
    let config = RxConfig { session_timeout: None, object_timeout: Some(Duration::from_millis(1)), ..Default::default() };
    let ep = UDPEndpoint::new(None, "224.0.0.1".to_string(), 5000);
    let now = st(gen::T0);
    let pkts: Vec<Vec<u8>> = (0..n).map(|id| gen::mk_pkt(0, Some(id), 64, 64, true, 128, 0, 0, vec![2; 64], false, None)).collect();
    let was = alloc::resume(false);
    let base = alloc::live();
    alloc::resume(true);
    let mut mr = flute::receiver::MultiReceiver::new(builder, Some(config), false);
    let mut res = Ok(());
    for p in &pkts {
        if let Err(e) = mr.push(&ep, p, now) {
            res = Err(format!("push: {:?}", e));
            break;
        }
    }
    let held = alloc::live() - base;
    alloc::resume(false);
    std::thread::sleep(Duration::from_millis(5));
    alloc::resume(true);
    mr.cleanup(now);
    let after = alloc::live() - base;
    drop(mr);
    alloc::resume(was);
    res?;
    // each unfinished instance holds its FdtReceiver + ObjectReceiver + one 64-byte symbol (> 1 kB)
    if held > 256 * 1024 && after > held / 4 {
        return Err(format!(
            "{} FDT instance ids, each missing its last packet, no object in flight: {} B held; after the 1 ms object time-out elapsed and cleanup(): still {} B",
            n, held, after
        ));
    }
    Ok(())
}

fn idle_sessions(n: u64) -> Result<(), String> {
    let log: Log = Rc::new(RefCell::new(Vec::new()));
    let builder = Rc::new(RecBuilder { log, cur_fdt: Rc::new(Cell::new(0)), tag_tsi: false });
    let config = RxConfig { session_timeout: Some(Duration::from_millis(1)), object_timeout: None, ..Default::default() };
    let mut mr = flute::receiver::MultiReceiver::new(builder, Some(config), false);
    let closed = Rc::new(Cell::new(0u64));
    mr.add_listener(Closed(closed.clone()));
    let ep = UDPEndpoint::new(None, "224.0.0.1".to_string(), 5000);
    let now = st(gen::T0);
    for tsi in 0..n {
        // one packet of an object that can never be decoded (no FDT, no in-band FTI)
        let p = gen::mk_pkt_tsi(100 + tsi, 9, 0);
        mr.push(&ep, &p, now).map_err(|e| format!("push: {:?}", e))?;
    }
    if mr.nb_objects() as u64 != n {
        return Err(format!("{} objects after one packet on each of {} sessions", mr.nb_objects(), n));
    }
    std::thread::sleep(Duration::from_millis(5));
    mr.cleanup(now);
    if mr.nb_objects() != 0 || closed.get() != n {
        return Err(format!(
            "{} sessions idle beyond their 1 ms session time-out (object time-out None, one pending object each): after cleanup nb_objects() = {}, {} sessions closed",
            n, mr.nb_objects(), closed.get()
        ));
    }
    Ok(())
}

pub fn unhex(s: &str) -> Option<Vec<u8>> {
    if s == "-" {
        return Some(vec![]);
    }
    if s.len() % 2 != 0 {
        return None;
    }
    (0..s.len() / 2).map(|i| u8::from_str_radix(&s[2 * i..2 * i + 2], 16).ok()).collect()
}

fn main() {
    if let Some(mb) = std::env::var("RECV_FUSE_MB").ok().and_then(|x| x.parse::<i64>().ok()) {
        alloc::set_fuse(mb << 20);
    }
    // watchdog: a receiver call that never returns is turned into a crash of the engine (reported by ./check)
    std::thread::spawn(|| loop {
        std::thread::sleep(Duration::from_secs(5));
        if alloc::stuck_for_secs() > 200 {
            eprintln!("TIMEOUT: a receiver call did not return within 200 s (C04 hang; the core watchdog should have fired at 120 s)");
            std::process::exit(101);
        }
    });
    harness_core::engine_main("recv", || Box::new(RecvEngine::new()), gen::run);
}
