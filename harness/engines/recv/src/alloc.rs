//! Counting global allocator: net bytes allocated while a receiver call is running
//! (= memory held by the receiver), switched off inside writer callbacks and harness code.
use std::alloc::{GlobalAlloc, Layout, System};
use std::sync::atomic::{AtomicBool, AtomicI64, AtomicU64, Ordering::Relaxed};

pub struct Counting;
static ON: AtomicBool = AtomicBool::new(false);
static LIVE: AtomicI64 = AtomicI64::new(0);
static ENTER_MS: AtomicU64 = AtomicU64::new(0);

unsafe impl GlobalAlloc for Counting {
    unsafe fn alloc(&self, l: Layout) -> *mut u8 {
        if ON.load(Relaxed) {
            LIVE.fetch_add(l.size() as i64, Relaxed);
        }
        System.alloc(l)
    }
    unsafe fn dealloc(&self, p: *mut u8, l: Layout) {
        if ON.load(Relaxed) {
            LIVE.fetch_sub(l.size() as i64, Relaxed);
        }
        System.dealloc(p, l)
    }
    unsafe fn realloc(&self, p: *mut u8, l: Layout, new_size: usize) -> *mut u8 {
        if ON.load(Relaxed) {
            LIVE.fetch_add(new_size as i64 - l.size() as i64, Relaxed);
        }
        System.realloc(p, l, new_size)
    }
}

#[global_allocator]
static A: Counting = Counting;

fn now_ms() -> u64 {
    std::time::SystemTime::now().duration_since(std::time::UNIX_EPOCH).map(|d| d.as_millis() as u64).unwrap_or(1)
}

/// switch accounting off, returns the previous setting
pub fn pause() -> bool {
    ON.swap(false, Relaxed)
}
/// set accounting, returns the previous setting
pub fn resume(on: bool) -> bool {
    ON.swap(on, Relaxed)
}
pub fn live() -> i64 {
    LIVE.load(Relaxed)
}
pub fn reset() {
    LIVE.store(0, Relaxed);
}
/// a receiver call starts / ends (watchdog)
pub fn enter() {
    ENTER_MS.store(now_ms(), Relaxed);
}
pub fn leave() {
    ENTER_MS.store(0, Relaxed);
}
pub fn stuck_for_secs() -> u64 {
    let e = ENTER_MS.load(Relaxed);
    if e == 0 {
        0
    } else {
        now_ms().saturating_sub(e) / 1000
    }
}
