//! Counting global allocator: net bytes allocated while a receiver call is running
//! (= memory held by the receiver), switched off inside writer callbacks and harness code.
use std::alloc::{GlobalAlloc, Layout, System};
use std::sync::atomic::{AtomicBool, AtomicI64, AtomicU64, Ordering::Relaxed};

pub struct Counting;
static ON: AtomicBool = AtomicBool::new(false);
static LIVE: AtomicI64 = AtomicI64::new(0);
static PEAK: AtomicI64 = AtomicI64::new(0);
static ENTER_MS: AtomicU64 = AtomicU64::new(0);
/// fuse: a counted call that holds / asks for more than this is not survivable for the engine (the
/// machine may not have the memory, an allocation failure aborts); the process exits with code 103
/// after naming the request.  Cases that are expected to come near it run in a child process (`iso`).
static FUSE: AtomicI64 = AtomicI64::new(3 << 30);

#[cold]
fn blown(req: usize, live: i64) -> ! {
    ON.store(false, Relaxed);
    eprintln!("ALLOC-FUSE: a receiver call asked for {} B with {} B already held by it (fuse {} B)", req, live, FUSE.load(Relaxed));
    std::process::exit(103);
}

#[inline]
fn account(delta: i64, req: usize) {
    let v = LIVE.fetch_add(delta, Relaxed) + delta;
    if delta > 0 {
        PEAK.fetch_max(v, Relaxed);
        if v > FUSE.load(Relaxed) {
            blown(req, v - delta);
        }
    }
}

unsafe impl GlobalAlloc for Counting {
    unsafe fn alloc(&self, l: Layout) -> *mut u8 {
        if ON.load(Relaxed) {
            account(l.size() as i64, l.size());
        }
        System.alloc(l)
    }
    unsafe fn dealloc(&self, p: *mut u8, l: Layout) {
        if ON.load(Relaxed) {
            LIVE.fetch_sub(l.size() as i64, Relaxed);
        }
        System.dealloc(p, l)
    }
    unsafe fn realloc(&self, p: *mut u8, l: Layout, new_size: usize) -> *mut u8 {
        if ON.load(Relaxed) {
            account(new_size as i64 - l.size() as i64, new_size);
        }
        System.realloc(p, l, new_size)
    }
}

#[global_allocator]
static A: Counting = Counting;

fn now_ms() -> u64 {
    std::time::SystemTime::now().duration_since(std::time::UNIX_EPOCH).map(|d| d.as_millis() as u64).unwrap_or(1)
}

/// switch accounting off, returns the previous setting
pub fn pause() -> bool {
    ON.swap(false, Relaxed)
}
/// set accounting, returns the previous setting
pub fn resume(on: bool) -> bool {
    ON.swap(on, Relaxed)
}
pub fn live() -> i64 {
    LIVE.load(Relaxed)
}
pub fn reset() {
    LIVE.store(0, Relaxed);
    PEAK.store(0, Relaxed);
}
/// highest value of `live()` since the last `mark()`
pub fn peak() -> i64 {
    PEAK.load(Relaxed)
}
pub fn mark() {
    PEAK.store(LIVE.load(Relaxed), Relaxed);
}
pub fn set_fuse(bytes: i64) {
    FUSE.store(bytes, Relaxed);
}
/// a receiver call starts / ends (watchdog)
pub fn enter() {
    ENTER_MS.store(now_ms(), Relaxed);
}
pub fn leave() {
    ENTER_MS.store(0, Relaxed);
}
pub fn stuck_for_secs() -> u64 {
    let e = ENTER_MS.load(Relaxed);
    if e == 0 {
        0
    } else {
        now_ms().saturating_sub(e) / 1000
    }
}
