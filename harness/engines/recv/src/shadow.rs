//! Harness-side view of the datagrams: parsed fields (through the crate's PUBLIC parser) and a
//! reassembly of every FDT instance seen, used (a) by the generator to tell the Lean model what the
//! XML parser answered, (b) by the C19 oracle (which instances list a TOI, their Expires, the
//! clock offsets observed in their EXT_TIME).
use flute::core::alc as falc;
use flute::verif_hooks as hk;
use harness_core::guarded;
use std::collections::{BTreeMap, HashMap, VecDeque};

pub struct Info {
    pub tsi: u64,
    pub toi: u128,
    pub co: bool,
    pub cs: bool,
    pub fdt_id: Option<u32>,
    pub sct: Option<i128>,
    /// (fec encoding id, symbol length, max source block length, transfer length)
    pub fti: Option<(u8, u16, u32, u64)>,
    pub pid: Option<(u32, u32)>,
    pub payload: Vec<u8>,
    /// EXT_CENC present with a content encoding other than null
    pub encoded: bool,
}

/// `Err(())` = the parser rejected the datagram
pub fn parse_info(bytes: &[u8]) -> Result<Info, ()> {
    let p = falc::parse_alc_pkt(bytes).map_err(|_| ())?;
    let sct = match falc::get_sender_current_time(&p) {
        Ok(Some(t)) => Some(crate::us_of(t)),
        _ => None,
    };
    let fti = p
        .oti
        .as_ref()
        .map(|o| (o.fec_encoding_id as u8, o.encoding_symbol_length, o.maximum_source_block_length, p.transfer_length.unwrap_or(0)));
    let hdr = &bytes[p.data_alc_header_offset..p.data_payload_offset];
    let be32 = |b: &[u8]| u32::from_be_bytes([b[0], b[1], b[2], b[3]]);
    // `get_fec_inline_payload_id` per codepoint
    let pid = match (p.lct.cp, hdr.len()) {
        (0, 4) | (1, 4) => Some((be32(hdr) >> 16, be32(hdr) & 0xFFFF)),
        (5, 4) => Some((be32(hdr) >> 8, be32(hdr) & 0xFF)),
        (6, 4) => Some((be32(hdr) >> 24, be32(hdr) & 0xFF_FFFF)),
        (129, 8) => Some((be32(&hdr[0..4]), be32(&hdr[4..8]) & 0xFFFF)),
        _ => None,
    };
    Ok(Info {
        tsi: p.lct.tsi,
        toi: p.lct.toi,
        co: p.lct.close_object,
        cs: p.lct.close_session,
        fdt_id: p.fdt_info.as_ref().map(|f| f.fdt_instance_id),
        sct,
        fti,
        pid,
        payload: bytes[p.data_payload_offset..].to_vec(),
        encoded: matches!(p.cenc, Some(c) if c != flute::core::lct::Cenc::Null),
    })
}

pub struct Inst {
    /// the FTI of the first packet of this reception (`FdtReceiver::first_fti`)
    first_fti: (u8, u16, u32, u64),
    e: u64,
    l: u64,
    quad: (u64, u64, u64, u64),
    need: u64,
    syms: BTreeMap<(u32, u32), Vec<u8>>,
    pub complete: bool,
    pub offsets: Vec<i128>,
    /// the XML parser's answer on the reassembled bytes (None = rejected)
    pub answer: Option<hk::FdtSummary>,
    pub utf8: bool,
    /// the summary hook itself panicked (D10): the instance is outside the modelled scope
    pub hook_panic: bool,
    pub xml: Vec<u8>,
}

pub struct Completed {
    pub id: u32,
    pub expires_us: Option<i128>,
    pub tois: Vec<u128>,
    /// clock offsets observed in the EXT_TIME of the packets of this reception
    pub offsets: Vec<i128>,
}

/// The receptions follow the life of the entries of `fdt_receivers` (one GENERATION per entry): an
/// entry ends when it completes (whatever the outcome), when a packet contradicts its FTI, or when
/// a cleanup finds it stale; the next packet with that instance id starts a new reception.
#[derive(Default)]
pub struct Shadow {
    pub inst: HashMap<u32, Inst>,
    pub completed: Vec<Completed>,
    /// configuration: `object_receive_once`, an object time-out is configured
    pub once: bool,
    pub obj_to: bool,
    /// ids of the (at most 10) instances the receiver holds as current (told by `accepted`)
    pub current: VecDeque<u32>,
}

impl Shadow {
    pub fn unfinished(&self) -> usize {
        self.inst.values().filter(|i| !i.complete).count()
    }
    pub fn max_len(&self) -> usize {
        self.inst.values().map(|i| i.l as usize).max().unwrap_or(0)
    }

    /// a TOI-0 packet carrying EXT_FDT; returns true when this packet completes the instance
    pub fn feed(&mut self, i: &Info, now: i128) -> bool {
        let id = match i.fdt_id {
            Some(id) => id,
            None => return false,
        };
        // repair 282dd8d: a packet contradicting the FTI of the reception in progress restarts it
        if let (Some(inst), Some(f)) = (self.inst.get(&id), i.fti) {
            if !inst.complete && inst.first_fti != f {
                self.inst.remove(&id);
            }
        }
        if self.once && self.current.contains(&id) {
            return false;
        }
        // a completed reception has left `fdt_receivers` (moved to `fdt_current`, or dropped as
        // failed / expired: repair 9bde117)
        if matches!(self.inst.get(&id), Some(inst) if inst.complete) {
            self.inst.remove(&id);
        }
        if !self.inst.contains_key(&id) {
            let (_, e, b, l) = match i.fti {
                Some(f) => f,
                None => return false,
            };
            let quad = if e == 0 || b == 0 { (0, 0, 0, 0) } else { hk::block_partitioning(b as u64, l, e as u64) };
            let need = if e == 0 { 0 } else { (l + e as u64 - 1) / e as u64 };
            self.inst.insert(
                id,
                Inst { first_fti: i.fti.unwrap(), e: e as u64, l, quad, need, syms: BTreeMap::new(), complete: false, offsets: vec![], answer: None, utf8: false, hook_panic: false, xml: vec![] },
            );
        }
        let inst = self.inst.get_mut(&id).unwrap();
        if let Some(s) = i.sct {
            inst.offsets.push(now - s);
        }
        if inst.complete {
            return false;
        }
        if let Some((sbn, esi)) = i.pid {
            let (al, asm, nl, n) = inst.quad;
            let k = if (sbn as u64) < nl { al } else { asm };
            if (sbn as u64) < n && (esi as u64) < k && inst.l > 0 {
                inst.syms.entry((sbn, esi)).or_insert_with(|| i.payload.clone());
            }
        }
        if inst.l > 0 && inst.syms.len() as u64 == inst.need {
            inst.complete = true;
            let mut xml: Vec<u8> = Vec::new();
            for v in inst.syms.values() {
                xml.extend_from_slice(v);
            }
            xml.truncate(inst.l as usize);
            let _ = inst.e;
            inst.utf8 = std::str::from_utf8(&xml).is_ok();
            let x2 = xml.clone();
            match guarded(move || hk::fdt_parse_summary(&x2)) {
                Ok(a) => inst.answer = a,
                Err(_) => inst.hook_panic = true,
            }
            inst.xml = xml;
            if let Some(a) = &inst.answer {
                // RFC 6726: Expires = decimal 32-bit NTP seconds; anything else cannot be shown unexpired
                let expires_us = a.expires.trim().parse::<u64>().ok().filter(|s| *s <= u32::MAX as u64).map(|s| (s as i128 - 2208988800i128) * 1_000_000);
                let tois = a
                    .files
                    .as_ref()
                    .map(|fs| fs.iter().filter_map(|f| f.toi.trim().parse::<u128>().ok()).collect())
                    .unwrap_or_default();
                let offsets = inst.offsets.clone();
                self.completed.push(Completed { id, expires_us, tois, offsets });
            }
            return true;
        }
        false
    }

    /// the call that completed instance `id` answered `obs`: does the receiver now hold it as current?
    /// (`f<id>` is the `fdt_received` callback; it is skipped for a document that is not UTF-8)
    pub fn completed_call(&mut self, id: u32, obs: &str) {
        let utf8 = self.inst.get(&id).map(|i| i.utf8).unwrap_or(true);
        let tag = format!("f{}", id);
        if obs.starts_with("OK") && (!utf8 || obs.split(' ').any(|t| t == tag)) {
            self.current.push_front(id);
            self.current.truncate(10);
        }
    }

    /// `cleanup` with the staleness `spec` of the op line (`0`, `1`, `T<tois>/F<ids>`)
    pub fn cleanup(&mut self, spec: &str) {
        if !self.obj_to {
            return;
        }
        let ids: Option<Vec<u32>> = match spec {
            "0" => Some(vec![]),
            "1" => None,
            _ => Some(spec.split("/F").nth(1).map(|l| l.split(',').filter_map(|x| x.parse().ok()).collect()).unwrap_or_default()),
        };
        self.inst.retain(|id, inst| inst.complete || !ids.as_ref().map(|l| l.contains(id)).unwrap_or(true));
    }

    /// C19 oracle: may a writer be created for `toi` at receiver time `now` (expiry check enabled)?
    /// Sound by leniency: allowed as soon as SOME complete instance listing the TOI is unexpired
    /// (2 s granularity band) on the receiver clock corrected by ANY offset observed in that
    /// instance's EXT_TIME, or on the uncorrected clock when the instance carried none.
    pub fn delivery_allowed(&self, toi: u128, now: i128) -> Result<(), (&'static str, String)> {
        let band = 2_000_000i128;
        let mut listed = false;
        let mut why = String::new();
        for c in &self.completed {
            if !c.tois.contains(&toi) {
                continue;
            }
            listed = true;
            let exp = match c.expires_us {
                Some(e) => e,
                None => {
                    why.push_str(&format!("[instance {}: no valid Expires] ", c.id));
                    continue;
                }
            };
            let offs = &c.offsets;
            if offs.is_empty() {
                if now <= exp + band {
                    return Ok(());
                }
                why.push_str(&format!("[instance {}: Expires {} < own clock {}] ", c.id, exp, now));
            } else {
                if offs.iter().any(|o| now - o <= exp + band) {
                    return Ok(());
                }
                why.push_str(&format!("[instance {}: Expires {} < estimated sender time {}] ", c.id, exp, now - offs[offs.len() - 1]));
            }
        }
        if !listed {
            return Err(("C19:delivered-without-fdt", "no complete FDT instance lists it".to_string()));
        }
        Err(("C19:delivered-through-expired", why))
    }
}
